#!/usr/bin/env python3
"""Entry point of every check:  python3 check.py Cxx [--tier quick|thorough] [--replay FILE] [--cases N]

Builds the needed variant(s) of /repo's *current working tree* with the hooks on, runs the property's monitor
(tsgmon <prop>) over counted, seeded cases in up to 16 worker processes with crash isolation and watchdogs,
matches violations against known_findings.json, rewrites evidence/<id>.json and prints
  VIOLATION property=<id> replay=<path>      (exit 1)   for every violation that is not a listed finding
  KNOWN-FINDING: property=<id> <what>        (exit 0)   for listed open findings
Exit 2 = harness failure (build error, too little observed) - never folded into 0 or 1.
"""
import sys, os, json, time, subprocess, threading, re, argparse, queue, shutil, signal

HERE = os.path.dirname(os.path.abspath(__file__))
sys.path.insert(0, os.path.join(HERE, "drivers"))
BUILD_ROOT = os.environ.get("TSG_VERIF_BUILD_ROOT", "/var/tmp/tsg-verif")
DEFAULT_SEED = 20261004
JOBS = int(os.environ.get("TSG_VERIF_JOBS", "16"))

SAN_ENV = {
    "asan": {"ASAN_OPTIONS": "abort_on_error=1:detect_leaks=0:allocator_may_return_null=1:handle_abort=1:hard_rss_limit_mb=6000", "UBSAN_OPTIONS": "print_stacktrace=1:halt_on_error=1"},
    "tsan": {"TSAN_OPTIONS": "halt_on_error=0:second_deadlock_stack=1:history_size=4"},
    "omptsan": {"TSAN_OPTIONS": "halt_on_error=0:ignore_noninstrumented_modules=1:history_size=4"},
    "omp": {}, "plain": {},
}

# per-property configuration of the generic case runner ------------------------------------------------------
# cases: (quick, thorough); timeout: seconds per case before the watchdog fires; chunk: cases per worker process
PROPS = {
    "C01": dict(variant="asan", cases=(3000, 40000), timeout=60, chunk=20, level="exploration", min_nontrivial=50,
                rule="case = random grid configuration (family, rule, dims, outputs, depth, selection type, anisotropic weights, limits, transforms, order) + random legal history of 2..10 steps (load / reload / refine with every strategy / update / merge / clear / dynamic construction with partial deliveries); after every value-supplying step evaluateBatch on ALL loaded points and evaluate/evaluateFast on a sample are compared with the supplied values; non-trivial = at least one value-supplying step was checked; distinct = distinct (configuration signature | operation sequence)"),
}

def load_props():
    # other properties register themselves in drivers/props_*.py to keep this file readable
    d = os.path.join(HERE, "drivers")
    if os.path.isdir(d):
        for f in sorted(os.listdir(d)):
            if f.startswith("props_") and f.endswith(".py"):
                mod = __import__(f[:-3])
                PROPS.update(getattr(mod, "PROPS", {}))

# ------------------------------------------------------------------------------------------------------------
def sh(cmd, **kw):
    return subprocess.run(cmd, stdout=subprocess.PIPE, stderr=subprocess.PIPE, text=True, **kw)

def build(variant):
    r = sh([os.path.join(HERE, "scripts", "build_harness.sh"), variant])
    if r.returncode != 0:
        sys.stderr.write(r.stderr[-4000:])
        print("HARNESS-FAILURE: build of variant %s failed" % variant)
        sys.exit(2)
    return r.stdout.strip().splitlines()[-1]

REPO_DIR = os.environ.get("TSG_VERIF_REPO", "/repo").rstrip("/")
FRAME_RE = re.compile(r"#\d+ 0x[0-9a-f]+ in (.+?) (" + re.escape(REPO_DIR) + r"/\S+?):(\d+)")
def crash_key(stderr_text, rc):
    """stable key for a process death: sanitizer kind + first frame inside /repo (function name without arguments)"""
    kind = None
    m = re.search(r"ERROR: AddressSanitizer: ([\w-]+)", stderr_text)
    if m: kind = "asan:" + m.group(1)
    if not kind:
        m = re.search(r"runtime error: (.+)", stderr_text)
        if m:
            msg = m.group(1)
            msg = re.sub(r"0x[0-9a-f]+", "ADDR", msg)
            msg = re.sub(r"-?\d+(\.\d+)?(e[+-]?\d+)?", "N", msg)
            kind = "ubsan:" + "-".join(msg.split()[:5])
    if not kind:
        m = re.search(r"terminate called after throwing an instance of '([^']+)'", stderr_text)
        if m: kind = "terminate:" + m.group(1)
    if not kind:
        kind = "exit:%d" % rc
    fn = "?"
    for m in FRAME_RE.finditer(stderr_text):
        f = m.group(1)
        f = re.sub(r"\(.*", "", f)          # drop arguments
        f = re.sub(r"<.*", "", f)           # drop template arguments
        f = f.split(" ")[-1]
        fn = f + "@" + os.path.basename(m.group(2))
        break
    return "crash:%s:%s" % (kind, fn)

class Result:
    def __init__(self):
        self.evaluations = 0; self.ok = 0; self.inc = 0; self.viol_cases = 0
        self.counters = {}; self.sigs = set(); self.samples = []
        self.violations = []   # dicts: index, key, detail, descriptor, variant
        self.hangs = 0; self.lock = threading.Lock()
    def add_counter(self, k, v):
        if k.startswith("max_"): self.counters[k] = max(self.counters.get(k, 0), v)
        else: self.counters[k] = self.counters.get(k, 0) + v

def run_chunk(tsgmon, prop, seed, first, count, tier, env, timeout, res, variant, extra_args=(), alone=False):
    """runs cases [first, first+count); restarts after a crash; returns nothing (fills res)"""
    idx = first
    end = first + count
    while idx < end:
        args = [tsgmon, prop, str(seed), str(idx), str(end - idx)] + (["thorough"] if tier == "thorough" else []) + list(extra_args)
        p = subprocess.Popen(args, stdout=subprocess.PIPE, stderr=subprocess.PIPE, env=env, text=True, errors="replace")
        err_chunks = []
        t_err = threading.Thread(target=lambda: err_chunks.append(p.stderr.read()), daemon=True)
        t_err.start()
        q = queue.Queue()
        def reader():
            for line in p.stdout: q.put(line)
            q.put(None)
        threading.Thread(target=reader, daemon=True).start()
        open_case = None; descriptor = None; last = time.time(); hung = False
        pending_viol = []
        while True:
            try:
                line = q.get(timeout=1.0)
            except queue.Empty:
                if time.time() - last > timeout * (2 if alone else 1):
                    hung = True; p.kill(); break
                continue
            if line is None: break
            last = time.time()
            tag = line[:2]
            if tag == "B ":
                sp = line.rstrip("\n").split(" ", 2)
                open_case = int(sp[1]); descriptor = sp[2] if len(sp) > 2 else "{}"
                pending_viol = []
            elif tag == "V ":
                sp = line.rstrip("\n").split(" ", 3)
                pending_viol.append(dict(index=int(sp[1]), key=sp[2], detail=sp[3] if len(sp) > 3 else "{}", descriptor=descriptor, variant=variant))
            elif tag == "E ":
                sp = line.rstrip("\n").split(" ", 4)
                ci = int(sp[1]); st = sp[2]
                with res.lock:
                    res.evaluations += 1
                    if st == "ok": res.ok += 1
                    elif st == "inc": res.inc += 1
                    else: res.viol_cases += 1
                    try:
                        for k, v in json.loads(sp[3]).items(): res.add_counter(k, v)
                        sg = json.loads(sp[4]) if len(sp) > 4 else []
                    except Exception:
                        sg = []
                    if st == "ok":
                        for s in sg: res.sigs.add(s)
                        if len(res.samples) < 6 and descriptor:
                            try: res.samples.append({"index": ci, "case": json.loads(descriptor), "observed": sg[:2]})
                            except Exception: pass
                    res.violations.extend(pending_viol)
                pending_viol = []
                idx = ci + 1; open_case = None
        p.wait(); t_err.join(timeout=5)
        stderr_text = "".join(err_chunks)
        if hung:
            ci = open_case if open_case is not None else idx
            if not alone:
                # re-run the case alone once with a doubled watchdog before believing the hang
                sub = Result()
                run_chunk(tsgmon, prop, seed, ci, 1, tier, env, timeout, sub, variant, extra_args, alone=True)
                with res.lock:
                    res.evaluations += sub.evaluations; res.ok += sub.ok; res.inc += sub.inc; res.viol_cases += sub.viol_cases
                    for k, v in sub.counters.items(): res.add_counter(k, v)
                    res.sigs |= sub.sigs; res.violations.extend(sub.violations); res.hangs += sub.hangs
            else:
                with res.lock:
                    res.hangs += 1; res.evaluations += 1; res.viol_cases += 1
                    res.violations.append(dict(index=ci, key="hang", detail=json.dumps({"watchdog_s": timeout * 2, "note": "case did not finish twice (second time alone)"}), descriptor=descriptor, variant=variant))
            idx = ci + 1
            continue
        if p.returncode != 0 and idx < end:
            ci = open_case if open_case is not None else idx
            key = crash_key(stderr_text, p.returncode)
            with res.lock:
                res.evaluations += 1; res.viol_cases += 1
                res.violations.extend(pending_viol)
                res.violations.append(dict(index=ci, key=key, detail=json.dumps({"stderr": (stderr_text if len(stderr_text) <= 6000 else stderr_text[:3000] + "\n...\n" + stderr_text[-3000:])}), descriptor=descriptor, variant=variant))
            idx = ci + 1
            continue
        if p.returncode == 0 and idx < end and open_case is None:
            # process ended early without a crash: treat as harness failure for the remaining cases
            break

def run_cases(prop, variant, ncases, tier, seed, timeout=120, chunk=20, extra_args=(), extra_env=None, first=0, jobs=None):
    tsgmon = build(variant)
    env = dict(os.environ); env.update(SAN_ENV.get(variant, {}))
    tmpd = os.path.join(BUILD_ROOT, "tmp"); os.makedirs(tmpd, exist_ok=True)
    env["VF_TMPDIR"] = tmpd
    if extra_env: env.update(extra_env)
    res = Result()
    chunks = [(s, min(chunk, first + ncases - s)) for s in range(first, first + ncases, chunk)]
    cq = queue.Queue()
    for c in chunks: cq.put(c)
    def worker():
        while True:
            try: s, n = cq.get_nowait()
            except queue.Empty: return
            run_chunk(tsgmon, prop, seed, s, n, tier, env, timeout, res, variant, extra_args)
    ths = [threading.Thread(target=worker) for _ in range(min(jobs or JOBS, len(chunks)))]
    for t in ths: t.start()
    for t in ths: t.join()
    return res

# ------------------------------------------------------------------------------------------------------------
def known_findings(prop):
    p = os.path.join(HERE, "known_findings.json")
    if not os.path.exists(p): return []
    with open(p) as f: data = json.load(f)
    return [e for e in data.get("findings", []) if e.get("property") == prop]

def match_known(key, entries):
    for e in entries:
        if e.get("status") != "open": continue
        k = e["key"]
        if k == key or (k.endswith("*") and key.startswith(k[:-1])): return e
    return None

def finish(prop, tier, seed, level, res, rule, t0, extra_cov=None, assumptions=None, min_nontrivial=2, replay_extra=None):
    """prints the verdict lines, writes replay files and the evidence file, returns the exit code"""
    entries = known_findings(prop)
    rdir = os.path.join(HERE, "replays", prop)
    shutil.rmtree(rdir, ignore_errors=True); os.makedirs(rdir, exist_ok=True)
    unknown = {}; known = {}
    for v in res.violations:
        e = match_known(v["key"], entries)
        if e: known.setdefault(e["key"], (e, v))
        else: unknown.setdefault(v["key"], []).append(v)
    for k, (e, v) in sorted(known.items()):
        print("KNOWN-FINDING: property=%s key=%s %s (e.g. case %d)" % (prop, k, e.get("what", ""), v["index"]))
    nviol = 0
    for k, vs in sorted(unknown.items()):
        for v in vs[:3]:
            path = os.path.join(rdir, "%s_%d_%d.json" % (re.sub(r"[^A-Za-z0-9_.-]", "_", k)[:80], seed, v["index"]))
            rec = dict(property=prop, seed=seed, index=v["index"], tier=tier, key=k, variant=v.get("variant"), descriptor=v.get("descriptor"), detail=v.get("detail"))
            if replay_extra: rec.update(replay_extra)
            if "replay" in v: rec.update(v["replay"])
            with open(path, "w") as f: json.dump(rec, f, indent=1)
            print("VIOLATION property=%s replay=%s key=%s" % (prop, path, k))
            nviol += 1
    cov = dict(evaluations=res.evaluations, distinct_nontrivial=len(res.sigs), rule=rule, samples=res.samples[:6],
               cases_ok=res.ok, cases_inconclusive=res.inc, cases_violating=res.viol_cases, watchdog_hits=res.hangs,
               counters=dict(sorted(res.counters.items())), violation_keys=sorted(unknown.keys()), known_finding_keys=sorted(known.keys()))
    if extra_cov: cov.update(extra_cov)
    ev = dict(property_id=prop, tier=tier, seed=seed, level=level, coverage=cov, wall_s=round(time.time() - t0, 2),
              violations=nviol, assumptions=assumptions or [])
    os.makedirs(os.path.join(HERE, "evidence"), exist_ok=True)
    with open(os.path.join(HERE, "evidence", prop + ".json"), "w") as f: json.dump(ev, f, indent=1)
    print("%s tier=%s seed=%d evaluations=%d ok=%d inconclusive=%d violating=%d distinct_nontrivial=%d wall=%.1fs" %
          (prop, tier, seed, res.evaluations, res.ok, res.inc, res.viol_cases, len(res.sigs), time.time() - t0))
    if nviol > 0: return 1
    if len(res.sigs) < min_nontrivial or res.evaluations == 0:
        print("HARNESS-FAILURE: observed too little (%d distinct non-trivial cases, minimum %d)" % (len(res.sigs), min_nontrivial))
        return 2
    return 0

def generic_check(prop, cfg, tier, seed, ncases_override=None):
    t0 = time.time()
    n = ncases_override or cfg["cases"][1 if tier == "thorough" else 0]
    # thorough cases are larger (grids up to 4x the points) and run beside 15 other workers: the watchdog waits 4x longer
    res = run_cases(prop, cfg["variant"], n, tier, seed, timeout=cfg.get("timeout", 120) * (4 if tier == "thorough" else 1), chunk=cfg.get("chunk", 20),
                    extra_args=cfg.get("args", ()), extra_env=cfg.get("env"))
    return finish(prop, tier, seed, cfg.get("level", "exploration"), res, cfg["rule"], t0, assumptions=cfg.get("assumptions"),
                  min_nontrivial=cfg.get("min_nontrivial", 2))

def replay(prop, path):
    with open(path) as f: rec = json.load(f)
    cfg = PROPS[prop]
    if "driver" in cfg and hasattr(cfg["driver"], "replay"):
        return cfg["driver"].replay(rec)
    variant = rec.get("variant") or cfg["variant"]
    tsgmon = build(variant)
    env = dict(os.environ); env.update(SAN_ENV.get(variant, {}))
    tmpd = os.path.join(BUILD_ROOT, "tmp"); os.makedirs(tmpd, exist_ok=True); env["VF_TMPDIR"] = tmpd
    if cfg.get("env"): env.update(cfg["env"])
    args = [tsgmon, prop, str(rec["seed"]), str(rec["index"]), "1"] + (["thorough"] if rec.get("tier") == "thorough" else []) + list(cfg.get("args", ())) + list(rec.get("args", ()))
    print("replaying: " + " ".join(args))
    try:
        r = subprocess.run(args, env=env, stdout=subprocess.PIPE, stderr=subprocess.PIPE, text=True, timeout=600, errors="replace")
    except subprocess.TimeoutExpired:
        print("replay: case did not finish within 600 s (hang reproduced)"); return 1
    sys.stdout.write(r.stdout); sys.stdout.write(r.stderr[-4000:])
    bad = (r.returncode != 0) or any(l.startswith("V ") for l in r.stdout.splitlines())
    print("replay verdict: %s" % ("violation reproduced" if bad else "no violation on this tree"))
    return 1 if bad else 0

def main():
    ap = argparse.ArgumentParser()
    ap.add_argument("prop"); ap.add_argument("--tier", default=os.environ.get("VERIF_TIER", "quick"))
    ap.add_argument("--replay"); ap.add_argument("--cases", type=int)
    a = ap.parse_args()
    load_props()
    if a.prop not in PROPS:
        print("HARNESS-FAILURE: no check registered for %s" % a.prop); return 2
    os.chdir(HERE)
    if a.replay: return replay(a.prop, a.replay)
    try: seed = int(os.environ.get("VERIF_SEED", DEFAULT_SEED))
    except ValueError: seed = DEFAULT_SEED
    tier = a.tier if a.tier in ("quick", "thorough") else "quick"
    cfg = PROPS[a.prop]
    if "driver" in cfg:
        return cfg["driver"].check(a.prop, cfg, tier, seed, a.cases)
    return generic_check(a.prop, cfg, tier, seed, a.cases)

if __name__ == "__main__":
    sys.exit(main())
