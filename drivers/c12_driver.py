"""C12 driver: runs the concurrency monitor (harness/c12.cpp, variant tsan) one state per process and turns ThreadSanitizer's log files
into violations.

tsgmon C12 sets the report path of the sanitizer runtime before every repetition to
    <logdir>/tsan.i<case>.r<rep>.t<threads>.<family>.<state class>.<cold|warm>        (the runtime appends .<pid>)
so every report block is attributed to (case, repetition, thread count, family, state class) by the name of the file it is in.
Blocks are split at the "==================" separators; a data-race block is keyed by the innermost frames inside the repository
(paths containing /SparseGrids/, /Addons/, /DREAM/ or /repo/) of the two conflicting accesses, template and argument text stripped,
sorted:  tsan:data-race:<fnA>|<fnB>.   A race whose both accesses have no frame inside the repository is a defect of the harness
(exit code 2).  A process that died inside a case (check.py key crash:...) is re-keyed from the DEADLYSIGNAL block of its log file.
The in-process counter of __tsan_on_report callbacks is compared with the number of parsed blocks (no log may be lost)."""
import os, re, json, time, glob, shutil, subprocess, sys
import check

REPO_MARKS = ("/SparseGrids/", "/Addons/", "/DREAM/", "/repo/")
SEP = "=================="
FRAME = re.compile(r"^\s+#(\d+) (.+?) (/\S+?):(\d+)(?::\d+)? \((\S+?)\+0x[0-9a-f]+\)")
FRAME_NOSRC = re.compile(r"^\s+#(\d+) (.+?) (<null>|\S+) \((\S+?)\+0x[0-9a-f]+\)")
ACCESS = re.compile(r"^\s+(Previous )?(atomic )?(read|write) of size \d+", re.I)
FNAME = re.compile(r"tsan\.i(\d+)\.r(\d+)\.t(\d+)\.([a-z]+)\.([A-Za-z0-9+_-]+)\.(cold|warm)\.(\d+)$")

def strip_fn(f):
    f = f.replace("operator()", "operator_call")
    prev = None
    while prev != f:                      # balanced template arguments
        prev = f; f = re.sub(r"<[^<>]*>", "", f)
    f = re.sub(r"\(.*$", "", f)           # argument list (and everything of an enclosing lambda after it)
    f = f.strip().split(" ")[-1]
    return f or "?"

def in_repo(path, module=""):
    # frames of the library without line information ("<null>") are recognised by their module
    return any(m in path for m in REPO_MARKS) or (path == "" and module.startswith("libtasmanian"))

def stacks_of(block_lines):
    """returns the list of (header, frames) sections of a report block; frames = [(fn, path)]"""
    secs = []; cur = None
    for l in block_lines:
        m = FRAME.match(l)
        if m:
            if cur is not None: cur[1].append((strip_fn(m.group(2)), m.group(3), m.group(5)))
            continue
        m = FRAME_NOSRC.match(l)
        if m:
            if cur is not None: cur[1].append((strip_fn(m.group(2)), "", m.group(4)))
            continue
        if l.strip() == "":
            continue
        if l.startswith("  ") and not l.startswith("    "):
            cur = [l.strip(), []]; secs.append(cur)
    return secs

def innermost(frames):
    for fn, path, mod in frames:
        if in_repo(path, mod): return fn, True
    for fn, path, mod in frames:
        if "/harness/" in path: return "harness:" + fn, False
    return "?", False

def parse_blocks(text):
    """yields dict(kind, key, text, harness_only) for each sanitizer report in text"""
    out = []
    lines = text.splitlines()
    blocks = []; cur = []
    for l in lines:
        if l.strip() == SEP:
            if cur: blocks.append(cur)
            cur = []
        else:
            cur.append(l)
    if cur: blocks.append(cur)
    for b in blocks:
        head = next((l for l in b if "ThreadSanitizer" in l), None)
        if head is None: continue
        body = "\n".join(b)
        m = re.search(r"WARNING: ThreadSanitizer: ([^(\n]+?)\s*\(pid=", body)
        if m:
            kind = m.group(1).strip().replace(" ", "-")
            secs = stacks_of(b)
            if kind == "data-race":
                acc = [s for s in secs if ACCESS.match("  " + s[0])]
                names = []; anyrepo = False
                for s in acc[:2]:
                    fn, r = innermost(s[1]); names.append(fn); anyrepo = anyrepo or r
                while len(names) < 2: names.append("?")     # "[failed to restore the stack]"
                out.append(dict(kind=kind, key="tsan:data-race:" + "|".join(sorted(names)), text=body, harness_only=not anyrepo))
            else:
                fn, r = innermost(secs[0][1]) if secs else ("?", False)
                out.append(dict(kind=kind, key="tsan:%s:%s" % (kind, fn), text=body, harness_only=not r))
            continue
        m = re.search(r"ERROR: ThreadSanitizer: (\S+)", body)   # "ThreadSanitizer:DEADLYSIGNAL" precedes this line
        if m:
            frames = []
            for l in b:
                fm = FRAME.match(l)
                if fm: frames.append((strip_fn(fm.group(2)), fm.group(3), fm.group(5))); continue
                fm = FRAME_NOSRC.match(l)
                if fm: frames.append((strip_fn(fm.group(2)), "", fm.group(4)))
            fn, r = innermost(frames)
            out.append(dict(kind="deadly-" + m.group(1), key="crash:tsan-%s:%s" % (m.group(1), fn), text=body, harness_only=False, deadly=True))
    return out

def tsan_options(logdir=None):
    o = check.SAN_ENV["tsan"]["TSAN_OPTIONS"].replace("history_size=4", "history_size=7")
    if logdir: o += ":log_path=" + os.path.join(logdir, "tsan.start")
    return o

def check_fn(prop, cfg, tier, seed, ncases_override=None):
    t0 = time.time()
    variant = cfg["variant"]
    n = ncases_override or cfg["cases"][1 if tier == "thorough" else 0]
    check.build(variant)
    logroot = os.path.join(check.BUILD_ROOT, "tmp", "c12_logs_%d" % os.getpid())
    shutil.rmtree(logroot, ignore_errors=True)
    # pass "race":    reports on; a case is cut short once a repetition has produced reports (every further racy access is slow)
    # pass "results": the same cases with report_bugs=0 - racing code runs at full speed through all repetitions, only the bitwise
    #                 comparison with the sequential reference (and deadly signals) decides; schedules differ from the first pass
    passes = [("race", ""), ("results", ":report_bugs=0")]
    res = None; logdirs = []
    for pname, opt in passes:
        logdir = os.path.join(logroot, pname); os.makedirs(logdir); logdirs.append((pname, logdir))
        env = {"TSAN_OPTIONS": tsan_options(logdir) + opt, "VF_TSAN_LOGDIR": logdir}
        r = check.run_cases(prop, variant, n, tier, seed, timeout=cfg.get("timeout", 45) * (3 if tier == "thorough" else 1), chunk=1, extra_args=cfg.get("args", ()), extra_env=env)
        for v in r.violations: v["pass"] = pname
        if res is None: res = r
        else:
            res.evaluations += r.evaluations; res.ok += r.ok; res.inc += r.inc; res.viol_cases += r.viol_cases; res.hangs += r.hangs
            for k, v in r.counters.items(): res.add_counter(k, v)
            res.sigs |= r.sigs; res.violations.extend(r.violations); res.samples.extend(r.samples)

    # ---- parse the sanitizer logs ----
    def descriptor(idx):
        try:
            with open(os.path.join(logroot, "race", "desc.%d.json" % idx)) as f: return f.read()
        except Exception: return "{}"
    cases_with_repo_reports = set(); consequential = 0
    per_key = {}; nblocks = 0; harness_races = []; deadly = {}; by_family = {}; cases_with_reports = set(); unattributed = 0
    def order(path):
        m = FNAME.search(path)
        return (int(m.group(1)), int(m.group(2)), path) if m else (-1, -1, path)
    logfiles = []
    for pname, logdir in logdirs: logfiles += [(pname, p) for p in sorted(glob.glob(os.path.join(logdir, "tsan.*")), key=order)]
    for pname, path in logfiles:
        with open(path, errors="replace") as f: text = f.read()
        m = FNAME.search(path)
        for blk in parse_blocks(text):
            if not m:                              # a report outside of the concurrent phase of a case: never expected
                unattributed += 1
                att = dict(file=os.path.basename(path)); idx = -1; att["pass"] = pname
            else:
                idx = int(m.group(1))
                att = {"rep": int(m.group(2)), "threads": int(m.group(3)), "family": m.group(4), "state": m.group(5), "cache": m.group(6), "pass": pname}
            if blk.get("deadly"):
                deadly.setdefault((pname, idx), (blk, att)); continue
            nblocks += 1
            if blk["harness_only"]:
                # heap blocks freed twice by racing library code are handed to two threads: harness-only reports that FOLLOW a report inside the
                # repository in the same process are consequences and only counted; without such a predecessor they are defects of the harness
                if idx in cases_with_repo_reports: consequential += 1
                else: harness_races.append((blk, att, idx))
                continue
            cases_with_repo_reports.add(idx)
            cases_with_reports.add(idx)
            by_family[att.get("family", "?")] = by_family.get(att.get("family", "?"), 0) + 1
            e = per_key.setdefault(blk["key"], dict(count=0, cases=set(), combos=set(), samples=[]))
            e["count"] += 1; e["cases"].add(idx); e["combos"].add("%s/%s/t%s" % (att.get("family"), att.get("state"), att.get("threads")))
            if len(e["samples"]) < 3 and idx not in [s[2] for s in e["samples"]]: e["samples"].append((blk, att, idx))
    # violations of the monitor itself come first; sanitizer reports are added per distinct key (up to 3 witnesses each)
    already = set(v["index"] for v in res.violations if v.get("pass") == "race")
    for v in res.violations:                        # re-key process deaths from the log of the case
        if v["key"].startswith("crash:") and (v.get("pass"), v["index"]) in deadly:
            blk, att = deadly[(v.get("pass"), v["index"])]
            v["key"] = blk["key"]; v["detail"] = json.dumps(dict(att, report=blk["text"][:6000]))
            if not v.get("descriptor"): v["descriptor"] = descriptor(v["index"])
    for key, e in sorted(per_key.items()):
        for blk, att, idx in e["samples"]:
            res.violations.append(dict(index=idx, key=key, variant=variant, descriptor=descriptor(idx),
                                       detail=json.dumps(dict(att, reports_with_this_key=e["count"], cases_with_this_key=len(e["cases"]), report=blk["text"][:8000]))))
    newly = set(i for i in cases_with_reports if i >= 0 and i not in already)
    res.ok = max(0, res.ok - len(newly)); res.viol_cases += len(newly)

    cnt = res.counters
    combos = sorted(k[6:] for k in list(cnt) if k.startswith("combo:"))
    combo_runs = sum(cnt[k] for k in list(cnt) if k.startswith("combo:"))
    for k in list(cnt):
        if k.startswith("combo:"): del cnt[k]
    inproc = cnt.get("tsan_reports_inprocess", 0)
    extra = dict(
        passes=["race: ThreadSanitizer reports on, case cut short after the first repetition with reports",
                "results: same cases, report_bugs=0 (no cut), bitwise result comparison and deadly signals only"],
        cases_per_pass=n,
        tsan=dict(report_blocks=nblocks, distinct_race_reports=len(per_key), cases_with_reports=len([i for i in cases_with_reports if i >= 0]),
                  reports_by_family=by_family, reports_counted_in_process=inproc, reports_outside_concurrent_phase=unattributed,
                  harness_only_reports_after_a_library_race=consequential,
                  processes_killed_by_deadly_signal=len(deadly),
                  keys={k: dict(reports=e["count"], cases=len(e["cases"]), combinations=len(e["combos"])) for k, e in sorted(per_key.items())}),
        concurrency=dict(runs=cnt.get("runs", 0), runs_concurrent=cnt.get("runs_concurrent", 0), runs_not_concurrent=cnt.get("runs_not_concurrent", 0),
                         runs_cold=cnt.get("runs_cold", 0), runs_warm=cnt.get("runs_warm", 0),
                         runs_cold_with_overlapping_first_calls=cnt.get("runs_cold_first_calls_overlapped", 0),
                         concurrent_calls=cnt.get("concurrent_calls", 0),
                         distinct_concurrent_combinations=len(combos), runs_in_these_combinations=combo_runs,
                         combinations_family_state_threads=combos))
    rc_harness = 0
    if harness_races:
        blk, att, idx = harness_races[0]
        print("HARNESS-FAILURE: %d sanitizer report(s) without any frame inside the repository (a race of the harness itself), e.g. case %d:\n%s"
              % (len(harness_races), idx, blk["text"][:3000]))
        rc_harness = 2
    if inproc > nblocks:
        print("HARNESS-FAILURE: %d reports were counted in-process but only %d blocks were found in the logs" % (inproc, nblocks))
        rc_harness = 2
    if unattributed:
        print("HARNESS-FAILURE: %d sanitizer report(s) outside of the concurrent phase of a case (see %s)" % (unattributed, logroot))
        rc_harness = 2
    rc = check.finish(prop, tier, seed, cfg.get("level", "exploration"), res, cfg["rule"], t0, extra_cov=extra,
                      assumptions=cfg.get("assumptions"), min_nontrivial=cfg.get("min_nontrivial", 2))
    if not os.environ.get("VF_KEEP") and rc_harness == 0: shutil.rmtree(logroot, ignore_errors=True)
    return rc_harness or rc

def replay(rec):
    variant = rec.get("variant") or "tsan"
    tsgmon = check.build(variant)
    env = dict(os.environ); env["TSAN_OPTIONS"] = tsan_options()
    tmpd = os.path.join(check.BUILD_ROOT, "tmp"); os.makedirs(tmpd, exist_ok=True); env["VF_TMPDIR"] = tmpd
    env.pop("VF_TSAN_LOGDIR", None)
    args = [tsgmon, "C12", str(rec["seed"]), str(rec["index"]), "1"] + (["thorough"] if rec.get("tier") == "thorough" else [])
    print("replaying (schedules differ from run to run: up to 5 attempts): " + " ".join(args))
    want = rec.get("key", "")
    seen = set(); bad = False
    for attempt in range(5):
        try:
            r = subprocess.run(args, env=env, stdout=subprocess.PIPE, stderr=subprocess.PIPE, text=True, timeout=900, errors="replace")
        except subprocess.TimeoutExpired:
            print("replay: case did not finish within 900 s"); return 1
        keys = set(b["key"] for b in parse_blocks(r.stderr))
        keys |= set(l.split(" ", 3)[2] for l in r.stdout.splitlines() if l.startswith("V "))
        # 66 is the exit code of the sanitizer runtime for "reports were printed"
        if r.returncode not in (0, 66) and not any(k.startswith("crash:") for k in keys): keys.add("crash:exit:%d" % r.returncode)
        if attempt == 0 or (want in keys and want not in seen):
            sys.stdout.write(r.stdout[-3000:]); sys.stdout.write(r.stderr[-5000:])
        seen |= keys
        if keys: bad = True
        if want in seen or (bad and not want): break
    for k in sorted(seen): print("replay saw: " + k)
    print("replay verdict: %s" % (("violation reproduced" + ("" if want in seen else " (other key than recorded)")) if bad else "no violation on this tree"))
    return 1 if bad else 0

class _Driver:
    check = staticmethod(check_fn)
    replay = staticmethod(replay)
driver = _Driver()
