"""C13 driver: results do not depend on the number of OpenMP threads.

One case = one script (a pure function of (seed, index), produced by harness/c13.cpp).  For every case this driver
  1. runs the script in the SERIAL build (variant asan: no OpenMP, ASan+UBSan) -> reference observation file,
  2. runs the same script in the OpenMP build (variant omp: g++ -O2 -fopenmp, libgomp) under a list of thread settings
     OMP_NUM_THREADS in {1,2,3,7,16} (thorough: also 4 and 8) x OMP_DYNAMIC x OMP_WAIT_POLICY x 2 repetitions, plus a CPU-affinity squeeze (8 threads on two CPUs via
     taskset, which forces preemption inside critical sections), and compares every observation file with the reference  (oracle i),
  3. on a subset of the cases runs the script in the clang + libomp + Archer + ThreadSanitizer build (variant omptsan) at 4 and 8 threads,
     parses the TSan logs and reports every report block with a frame inside the repository (oracle ii); the observation files of these
     runs are compared with the reference as well (a third compiler/runtime and a very different timing).

Comparison rules (oracle i): the sequence of steps and their outcomes, every integer / string field and the numeric fields that describe
structure (point coordinates, transforms, candidate lists) must be identical as text (hex floats: bit exact).  Other numeric fields are first
compared as text; fields that differ in bits are compared number by number with the tolerance  |a-b| <= 1e-11 * scale  where scale is the
largest magnitude in the field, and for fields that are sums of products with cancellation (surrogate values, gradients, integrals) the
largest magnitude of the loaded values / coefficients of the same step if that is larger.  NaN equals NaN, +-inf must agree exactly.
Key of a violation: digest-differs:<field>:<family>:<step kind>;  race oracle: tsan:data-race:<innermost repo function A>|<B>.
"""
import os, sys, re, json, time, subprocess, threading, queue, shutil, math
import check

PROP = "C13"
TOL = 1e-11
REPO_MARKS = ("/SparseGrids/", "/DREAM/", "/Addons/", "/repo/")
STRUCT_NUM = {"loaded_points", "needed_points", "points", "transform_a", "transform_b", "alphabeta", "candidates"}
CANCELLING = {"eval", "batch_eval", "jacobian", "integrate"}     # sums of products of coefficients / values with a basis
ASAN_ENV = {"ASAN_OPTIONS": "abort_on_error=1:detect_leaks=0:allocator_may_return_null=1:handle_abort=1",
            "UBSAN_OPTIONS": "print_stacktrace=1:halt_on_error=1"}

# ---------------------------------------------------------------------------------------------------------------- settings
def allowed_cpus():
    try: return sorted(os.sched_getaffinity(0))
    except Exception: return list(range(os.cpu_count() or 2))

def cpu_pair(index):
    cpus = allowed_cpus()
    if len(cpus) < 2: return None
    i = (2 * index) % (len(cpus) - 1)
    return "%d,%d" % (cpus[i], cpus[i + 1])

# OMP_DYNAMIC=true lets libgomp shrink the team according to the load average (often down to one thread on a busy machine): one run in four
VARIATIONS = [("false", "passive"), ("false", "active"), ("true", "passive"), ("false", "active")]
def omp_settings(tier, index):
    """list of dicts: name, threads, dynamic, wait, taskset"""
    out = []
    if tier == "thorough":
        threads, reps = [1, 2, 3, 4, 7, 8, 16], 2
    else:
        threads, reps = [1, 2, 3, 7, 16], 2
    j = 0
    for r in range(reps):
        for t in threads:
            dyn, wait = VARIATIONS[(index + j) % len(VARIATIONS)]; j += 1
            if t > 3 and wait == "active": wait = "passive"   # spinning with more threads than free cores only burns the watchdog
            out.append(dict(name="omp:t%d:dyn=%s:%s:r%d" % (t, dyn, wait, r), threads=t, dynamic=dyn, wait=wait, taskset=None, variant="omp"))
        if tier == "thorough" or r == 0:
            pair = cpu_pair(index + r)
            if pair:
                out.append(dict(name="omp:t8:squeeze2cpu:r%d" % r, threads=8, dynamic="false", wait="passive", taskset=pair, variant="omp"))
    return out

def tsan_selected(tier, index):
    if tier == "thorough": return index % 3 == 0                          # a third of the scripts, every script kind (3 and 8 are coprime)
    return (index // 8 + index % 8) % 3 == 0                             # 8 of 24, every script kind once

def tsan_settings(tier, index):
    return [dict(name="omptsan:t%d" % t, threads=t, dynamic="false", wait="passive", taskset=None, variant="omptsan") for t in (4, 8)]

# ---------------------------------------------------------------------------------------------------------------- running
def run_one(tsgmon, seed, index, tier, setting, outfile, workdir, timeout, extra_args=()):
    """returns dict(rc, stdout, stderr, wall, timed_out, tsan_logs)"""
    env = dict(os.environ)
    env["VF_TMPDIR"] = workdir
    variant = setting["variant"] if setting else "asan"
    logbase = None
    if variant == "asan":
        env.update(ASAN_ENV)
        env.pop("OMP_NUM_THREADS", None)
    else:
        env["OMP_NUM_THREADS"] = str(setting["threads"])
        env["OMP_DYNAMIC"] = setting["dynamic"]
        env["OMP_WAIT_POLICY"] = setting["wait"]
        env["OMP_PROC_BIND"] = "false"
    if variant == "omptsan":
        logbase = outfile + ".tsan"
        env["TSAN_OPTIONS"] = "halt_on_error=0:ignore_noninstrumented_modules=1:history_size=4:exitcode=0:log_path=" + logbase
        env["ARCHER_OPTIONS"] = "verbose=1"
    args = [tsgmon, PROP, str(seed), str(index), "1"] + (["thorough"] if tier == "thorough" else []) + ["out=" + outfile] + list(extra_args)
    if setting and setting.get("taskset"): args = ["taskset", "-c", setting["taskset"]] + args
    if os.path.exists(outfile): os.remove(outfile)
    t0 = time.time()
    try:
        r = subprocess.run(args, env=env, stdout=subprocess.PIPE, stderr=subprocess.PIPE, text=True, errors="replace", timeout=timeout)
        rc, so, se, to = r.returncode, r.stdout, r.stderr, False
    except subprocess.TimeoutExpired as e:
        rc, so, se, to = -9, (e.stdout or ""), (e.stderr or ""), True
        if isinstance(so, bytes): so = so.decode(errors="replace")
        if isinstance(se, bytes): se = se.decode(errors="replace")
    logs = []
    if logbase:
        d = os.path.dirname(logbase); b = os.path.basename(logbase)
        logs = [os.path.join(d, f) for f in os.listdir(d) if f.startswith(b + ".")]
    return dict(rc=rc, stdout=so, stderr=se, wall=time.time() - t0, timed_out=to, tsan_logs=logs, cmd=" ".join(args))

def parse_protocol(stdout):
    """B/V/E lines of the single case"""
    desc, status, counters, sigs, viols = None, None, {}, [], []
    for line in stdout.splitlines():
        if line.startswith("B "):
            sp = line.split(" ", 2); desc = sp[2] if len(sp) > 2 else "{}"
        elif line.startswith("V "):
            sp = line.split(" ", 3); viols.append((sp[2], sp[3] if len(sp) > 3 else "{}"))
        elif line.startswith("E "):
            sp = line.split(" ", 4); status = sp[2]
            try:
                counters = json.loads(sp[3]); sigs = json.loads(sp[4]) if len(sp) > 4 else []
            except Exception: pass
    return desc, status, counters, sigs, viols

# ---------------------------------------------------------------------------------------------------------------- observation files
def parse_obs(path):
    """-> dict(header, family, steps=[dict(k, name, points, desc, exc, fields=[(type, name, text)])])"""
    res = dict(header={}, family="?", steps=[], last_phase="start")
    cur = None
    with open(path, "r", errors="replace") as f:
        for line in f:
            line = line.rstrip("\n")
            if not line: continue
            t = line[0]
            if t == "H":
                sp = line.split(" ", 2); res["header"][sp[1]] = sp[2] if len(sp) > 2 else ""
            elif t == "C":
                sp = line.split(" "); res["family"] = sp[2] if len(sp) > 2 else "?"
            elif t == "T":
                sp = line.split(" ", 4)
                cur = dict(k=int(sp[1]), name=sp[2], points=int(sp[3]), desc=sp[4] if len(sp) > 4 else "", exc=None, fields=[])
                res["steps"].append(cur)
            elif t == "X":
                sp = line.split(" ", 3)
                cur = dict(k=int(sp[1]), name=sp[2], points=-1, desc="", exc=sp[3] if len(sp) > 3 else "?", fields=[])
                res["steps"].append(cur)
            elif t == "P":
                res["last_phase"] = line[2:].strip()
            elif t in "ISN" and cur is not None:
                sp = line.split(" ", 2)
                cur["fields"].append((t, sp[1], sp[2] if len(sp) > 2 else ""))
    return res

def floats_of(text):
    sp = text.split(" ")
    return [float.fromhex(x) for x in sp[1:]]

def maxabs(v):
    m = 0.0
    for x in v:
        if math.isfinite(x):
            a = abs(x)
            if a > m: m = a
    return m

def compare_numeric(name, ta, tb, step_fields_ref):
    """-> (ok, detail) ; texts differ"""
    try:
        a = floats_of(ta); b = floats_of(tb)
    except ValueError:
        return False, dict(reason="unparsable")
    if len(a) != len(b): return False, dict(reason="size", ref=len(a), run=len(b))
    scale = maxabs(a)
    if name in CANCELLING:
        for t, n, txt in step_fields_ref:
            if t == "N" and n in ("values", "coeffs"):
                try: scale = max(scale, maxabs(floats_of(txt)))
                except ValueError: pass
    worst, wi = 0.0, -1
    for i, (x, y) in enumerate(zip(a, b)):
        if x == y: continue
        if math.isnan(x) and math.isnan(y): continue
        if math.isnan(x) or math.isnan(y) or math.isinf(x) or math.isinf(y):
            return False, dict(reason="non-finite", i=i, ref=repr(x), run=repr(y))
        d = abs(x - y)
        if d > worst: worst, wi = d, i
    tol = TOL * scale + 1e-300
    if worst > tol:
        return False, dict(reason="beyond-tolerance", i=wi, ref=a[wi].hex(), run=b[wi].hex(), abs_diff=worst, scale=scale, rel=worst / (scale + 1e-300))
    return True, dict(rel=worst / (scale + 1e-300))

def step_kind(name): return name.replace(":", "-")

def compare_obs(ref, run, stats):
    """-> list of (key, detail) violations, list of inconclusive reasons"""
    viol, inc = [], []
    fam = ref["family"]
    all_equal_so_far = True
    if len(ref["steps"]) != len(run["steps"]):
        viol.append(("digest-differs:step-count:%s:script" % fam, dict(ref_steps=len(ref["steps"]), run_steps=len(run["steps"]))))
    for sr, so in zip(ref["steps"], run["steps"]):
        kind = step_kind(sr["name"])
        if (sr["exc"] is None) != (so["exc"] is None) or (sr["exc"] is not None and sr["exc"] != so["exc"]):
            viol.append(("digest-differs:step-outcome:%s:%s" % (fam, kind), dict(step=sr["k"], ref=sr["exc"], run=so["exc"]))); break
        if sr["name"] != so["name"] or sr["desc"] != so["desc"]:
            if all_equal_so_far:
                viol.append(("digest-differs:step-descriptor:%s:%s" % (fam, kind), dict(step=sr["k"], ref=sr["desc"][:300], run=so["desc"][:300])))
            else:
                inc.append("script-diverged-within-rounding")
            break
        stats["steps_compared"] = stats.get("steps_compared", 0) + 1
        if sr["points"] != so["points"]:
            viol.append(("digest-differs:point-count:%s:%s" % (fam, kind), dict(step=sr["k"], ref=sr["points"], run=so["points"])))
        names_r = [(t, n) for t, n, _ in sr["fields"]]; names_o = [(t, n) for t, n, _ in so["fields"]]
        if names_r != names_o:
            viol.append(("digest-differs:fields:%s:%s" % (fam, kind), dict(step=sr["k"], ref=[n for _, n in names_r], run=[n for _, n in names_o]))); break
        stop = False
        for (t, n, ta), (_, _, tb) in zip(sr["fields"], so["fields"]):
            if stop: break    # only the first differing field of a run is reported: later fields and steps are consequences of it
            stats["fields_compared"] = stats.get("fields_compared", 0) + 1
            if ta == tb:
                continue
            if t != "N" or n in STRUCT_NUM:
                viol.append(("digest-differs:%s:%s:%s" % (n, fam, kind), dict(step=sr["k"], step_desc=sr["desc"][:300], ref=ta[:200], run=tb[:200], structural=True)))
                stop = True; all_equal_so_far = False
                continue
            all_equal_so_far = False
            ok, det = compare_numeric(n, ta, tb, sr["fields"])
            if ok:
                stats["fields_bits_differ_within_tolerance"] = stats.get("fields_bits_differ_within_tolerance", 0) + 1
                stats.setdefault("bits_differ_fields", {}); stats["bits_differ_fields"][n] = stats["bits_differ_fields"].get(n, 0) + 1
                stats["max_rel_diff_within_tolerance"] = max(stats.get("max_rel_diff_within_tolerance", 0.0), det.get("rel", 0.0))
            else:
                det.update(step=sr["k"], step_desc=sr["desc"][:300]); viol.append(("digest-differs:%s:%s:%s" % (n, fam, kind), det)); stop = True
        if stop: break   # later steps of a structurally different grid are consequences
    return viol, inc

# ---------------------------------------------------------------------------------------------------------------- TSan logs
FRAME = re.compile(r"^\s+#(\d+) (.+?) (/\S+?):\d+(?::\d+)? \(")
def clean_fn(fn, path):
    fn = re.sub(r"\[abi:[^\]]*\]", "", fn)
    if fn.startswith(".omp_outlined") or fn.startswith("._omp_fn") or ".omp_outlined" in fn:
        return "omp_outlined@" + os.path.basename(path)
    # strip template and argument text
    out, depth = [], 0
    for ch in fn:
        if ch == "<": depth += 1; continue
        if ch == ">": depth = max(0, depth - 1); continue
        if depth == 0:
            if ch == "(": break
            out.append(ch)
    name = "".join(out).strip()
    name = name.split(" ")[-1] if name else fn
    return name or "?"

def parse_tsan(text):
    """-> list of dict(kind, frames=[innermost repo function per stack], first_lines)"""
    reports = []
    for block in text.split("=================="):
        m = re.search(r"WARNING: ThreadSanitizer: ([^\n(]+?)\s*\(pid=", block)
        if not m: continue
        kind = m.group(1).strip().replace(" ", "-")
        stacks, cur, cur_is_access = [], None, False
        for line in block.splitlines():
            if re.match(r"^\s{2}\S", line):          # a stack header ("  Write of size ...", "  Previous read ...", "  Location is ...", "  Thread T1 ...")
                hdr = line.strip()
                cur_is_access = bool(re.match(r"(Previous )?(atomic )?(write|read)|Write|Read|Atomic", hdr, re.I)) and "Location" not in hdr
                cur = [] if cur_is_access else None
                if cur is not None: stacks.append((hdr, cur))
                continue
            fm = FRAME.match(line)
            if fm and cur is not None: cur.append((fm.group(2), fm.group(3)))
        inner = []
        for hdr, fr in stacks:
            fn = None
            for f, p in fr:
                if any(mk in p for mk in REPO_MARKS) and "/harness/" not in p:
                    fn = clean_fn(f, p); break
            inner.append(fn)
        any_repo = any(mk in block for mk in REPO_MARKS)
        reports.append(dict(kind=kind, inner=inner, any_repo=any_repo, text=block.strip()[:6000]))
    return reports

def tsan_violations(reports):
    out, unattributed = {}, 0
    for r in reports:
        fns = [f for f in r["inner"] if f]
        if not fns:
            if r["any_repo"]: fns = ["?"]
            else:
                unattributed += 1; continue
        if len(fns) == 1: fns = fns * 2
        key = "tsan:%s:%s" % (r["kind"], "|".join(sorted(fns[:2])))
        out.setdefault(key, r)
    return out, unattributed

# ---------------------------------------------------------------------------------------------------------------- one case
class Shared:
    def __init__(self):
        self.lock = threading.Lock(); self.res = check.Result(); self.stats = {}; self.runs = 0; self.runs_by_setting = {}
        self.threads_seen = {}; self.archer_active = 0; self.archer_inactive = 0; self.tsan_runs = 0; self.tsan_reports = 0
        self.tsan_unattributed = 0; self.fatal = None; self.serial_wall = 0.0; self.omp_wall = 0.0; self.tsan_wall = 0.0
        self.tsan_digest_stats = {}; self.first_timeouts = {}

class CaseState:
    def __init__(self, index):
        self.index = index; self.viols = []; self.incs = []; self.compared = 0; self.local_stats = {}; self.pending = 0
        self.desc = None; self.counters = {}; self.sigs = []; self.ref = None; self.ref_file = None; self.serial_wall = 0.0
        self.lock = threading.Lock()
    def add_v(self, key, detail, setting):
        with self.lock:
            detail = {k: (v[-5000:] if isinstance(v, str) else v) for k, v in detail.items()}
            self.viols.append(dict(index=self.index, key=key, detail=json.dumps(detail), descriptor=None,
                                   variant=(setting or {}).get("variant", "asan"), replay=dict(setting=setting)))

def start_case(sh, bins, seed, index, tier, workdir, with_tsan):
    """serial reference run; returns (CaseState, list of settings to run) or (None, [])"""
    res = sh.res
    cs = CaseState(index)
    cs.ref_file = os.path.join(workdir, "c%d.serial.txt" % index)
    r = run_one(bins["asan"], seed, index, tier, None, cs.ref_file, workdir, 900)
    desc, status, counters, sigs, pv = parse_protocol(r["stdout"])
    cs.desc, cs.counters, cs.sigs, cs.serial_wall = desc, counters, sigs, r["wall"]
    with sh.lock: sh.serial_wall += r["wall"]
    if r["timed_out"]:
        with sh.lock:
            res.evaluations += 1; res.inc += 1; res.hangs += 1; res.add_counter("inconclusive:serial-watchdog", 1)
        return None, []
    if r["rc"] != 0 or status is None:
        key = check.crash_key(r["stderr"], r["rc"]).replace("crash:", "crash:serial:", 1)
        with sh.lock:
            res.evaluations += 1; res.viol_cases += 1
            res.violations.append(dict(index=index, key=key, detail=json.dumps({"stderr": r["stderr"][-3000:]}), descriptor=desc, variant="asan", replay=dict(setting=None)))
        return None, []
    for k, d in pv: cs.add_v(k, {"in-process": d}, None)
    if status == "inc":
        with sh.lock:
            res.evaluations += 1; res.inc += 1
            for k, v in counters.items(): res.add_counter(k, v)
        return None, []
    cs.ref = parse_obs(cs.ref_file)
    if cs.ref["header"].get("openmp") != "0":
        with sh.lock: sh.fatal = "the serial reference binary reports OpenMP enabled"
        return None, []
    settings = (tsan_settings(tier, index) if with_tsan else []) + omp_settings(tier, index)
    cs.pending = len(settings)
    return cs, settings

def run_setting(sh, cs, bins, seed, tier, workdir, st):
    index, ref = cs.index, cs.ref
    variant = st["variant"]
    out_file = os.path.join(workdir, "c%d.%s.txt" % (index, re.sub(r"[^A-Za-z0-9]", "_", st["name"])))
    tmo = max(120, 25 * cs.serial_wall) if variant == "omp" else max(600, 150 * cs.serial_wall)
    rr = run_one(bins[variant], seed, index, tier, st, out_file, workdir, tmo)
    if rr["timed_out"]:
        try: phase = parse_obs(out_file)["last_phase"]
        except OSError: phase = "start"
        with sh.lock:
            k = "%s:during=%s:%s" % (variant, step_kind(phase), ref["family"]); sh.first_timeouts[k] = sh.first_timeouts.get(k, 0) + 1
        rr = run_one(bins[variant], seed, index, tier, st, out_file, workdir, 2 * tmo)   # once more with a doubled watchdog
        if rr["timed_out"]:
            cs.add_v("hang:%s:%s" % (variant, ref["family"]), dict(setting=st["name"], watchdog_s=2 * tmo, serial_wall_s=round(cs.serial_wall, 2),
                     note="the serial build finished the identical script; the OpenMP run did not return twice"), st)
            with sh.lock: sh.res.hangs += 1
            return
    with sh.lock:
        sh.runs += 1
        nm = st["name"].rsplit(":r", 1)[0]; sh.runs_by_setting[nm] = sh.runs_by_setting.get(nm, 0) + 1
        if variant == "omp": sh.omp_wall += rr["wall"]
        else: sh.tsan_wall += rr["wall"]
    d2, s2, c2, g2, pv2 = parse_protocol(rr["stdout"])
    if variant == "omptsan":      # race reports first: they are printed when the race happens, also by a run that dies later
        text = ""
        for lf in rr["tsan_logs"]:
            try:
                with open(lf, "r", errors="replace") as f: text += f.read()
            except OSError: pass
        reports = parse_tsan(text)
        tv, unatt = tsan_violations(reports)
        with sh.lock:
            sh.tsan_runs += 1; sh.tsan_reports += len(reports); sh.tsan_unattributed += unatt
            if "Archer detected OpenMP application with TSan" in (rr["stderr"] + rr["stdout"]): sh.archer_active += 1
            else: sh.archer_inactive += 1
        for key, rep in tv.items():
            cs.add_v(key, dict(setting=st["name"], report=rep["text"]), st)
    if s2 is None or (rr["rc"] != 0 and variant != "omptsan"):
        # the process died inside the case: key = how it died + what it was doing (last phase marker of the partial observation file)
        try: phase = parse_obs(out_file)["last_phase"]
        except OSError: phase = "start"
        logtxt = rr["stderr"]
        for lf in rr["tsan_logs"]:
            try:
                with open(lf, "r", errors="replace") as f: logtxt += f.read()
            except OSError: pass
        m = re.search(r"ERROR: ThreadSanitizer: (\w+)", logtxt)
        how = ("tsan-" + m.group(1)) if m else ("signal%d" % -rr["rc"] if rr["rc"] < 0 else "exit%d" % rr["rc"])
        m2 = re.search(r"terminate called after throwing an instance of '([^']+)'", logtxt)
        if m2: how = "terminate-" + re.sub(r"[^A-Za-z0-9_]", "_", m2.group(1))
        cs.add_v("crash:%s:during=%s:%s:%s" % (variant, step_kind(phase), ref["family"], how), dict(setting=st["name"], stderr=logtxt[-3000:]), st)
        return
    run = parse_obs(out_file)
    if run["header"].get("openmp") != "1":
        with sh.lock: sh.fatal = "the %s binary reports OpenMP disabled" % variant
        return
    with sh.lock:
        tk = "%s:requested=%d:dynamic=%s:seen=%s" % (variant, st["threads"], st["dynamic"], run["header"].get("threads", "?"))
        sh.threads_seen[tk] = sh.threads_seen.get(tk, 0) + 1
    stt = {}
    v, inc = compare_obs(ref, run, stt)
    with cs.lock:
        cs.compared += 1; cs.incs.extend(inc)
        if variant == "omp":
            for k, x in stt.items():
                if k == "bits_differ_fields":
                    d = cs.local_stats.setdefault(k, {})
                    for n, cnt in x.items(): d[n] = d.get(n, 0) + cnt
                elif k.startswith("max_"): cs.local_stats[k] = max(cs.local_stats.get(k, 0.0), x)
                else: cs.local_stats[k] = cs.local_stats.get(k, 0) + x
    if variant != "omp":
        with sh.lock:
            for k2, v2 in stt.items():
                if isinstance(v2, (int, float)) and not k2.startswith("max_"): sh.tsan_digest_stats[k2] = sh.tsan_digest_stats.get(k2, 0) + v2
    for key, det in v:
        det = dict(det); det["setting"] = st["name"]
        if variant != "omp": key = key.replace("digest-differs:", "digest-differs-clang-tsan:", 1)
        cs.add_v(key, det, st)
    if variant == "omptsan":
        for lf in rr["tsan_logs"]:
            try: os.remove(lf)
            except OSError: pass
    if not os.environ.get("VF_KEEP"):
        try: os.remove(out_file)
        except OSError: pass

def finish_case(sh, cs):
    res = sh.res
    if not os.environ.get("VF_KEEP"):
        try: os.remove(cs.ref_file)
        except OSError: pass
    with sh.lock:
        res.evaluations += 1
        for k, v in cs.counters.items(): res.add_counter(k, v)
        for k, v in cs.local_stats.items():
            if k == "bits_differ_fields":
                d = sh.stats.setdefault(k, {})
                for n, cnt in v.items(): d[n] = d.get(n, 0) + cnt
            elif k.startswith("max_"): sh.stats[k] = max(sh.stats.get(k, 0.0), v)
            else: sh.stats[k] = sh.stats.get(k, 0) + v
        seen = set(); uniq = []                     # the same key is reported once per case
        for v in cs.viols:
            if v["key"] in seen: continue
            seen.add(v["key"]); v["descriptor"] = cs.desc; uniq.append(v)
        if uniq:
            res.viol_cases += 1; res.violations.extend(uniq)
        elif cs.incs or cs.compared == 0:
            res.inc += 1; res.add_counter("inconclusive:" + (cs.incs[0] if cs.incs else "no-run-compared"), 1)
        else:
            res.ok += 1
            for s in cs.sigs: res.sigs.add(s)
            if len(res.samples) < 6 and cs.desc:
                try: res.samples.append({"index": cs.index, "case": json.loads(cs.desc),
                                         "observed": ["%d OpenMP runs compared with the serial run, %d observations each" % (cs.compared, len(cs.ref["steps"]))]})
                except Exception: pass

# ---------------------------------------------------------------------------------------------------------------- entry points
def make_workdir():
    for root in ("/dev/shm", os.path.join(check.BUILD_ROOT, "tmp")):
        try:
            os.makedirs(root, exist_ok=True)
            d = os.path.join(root, "tsg-c13-%d" % os.getpid())
            os.makedirs(d, exist_ok=True)
            st = os.statvfs(d)
            if st.f_bavail * st.f_frsize > 2 * 1024 ** 3: return d
            shutil.rmtree(d, ignore_errors=True)
        except OSError: continue
    raise RuntimeError("no work directory")

def check_fn(prop, cfg, tier, seed, ncases_override=None):
    t0 = time.time()
    n = ncases_override or cfg["cases"][1 if tier == "thorough" else 0]
    bins = {}
    race_oracle = not os.environ.get("C13_NO_TSAN")
    for v in ("asan", "omp") + (("omptsan",) if race_oracle else ()):
        bins[v] = check.build(v)
    workdir = make_workdir()
    sh = Shared()
    # tasks: ("serial", index) produces ("run", case state, setting) tasks; runs come first in the queue so that cases are finished (and their
    # files deleted) before new ones are started.  TSan scripts and wavelet scripts (the slow ones) are started first.
    order = sorted(range(n), key=lambda i: (0 if (race_oracle and tsan_selected(tier, i)) else 1, 0 if i % 8 == 3 else 1, i))
    cond = threading.Condition()
    serial_q = list(order); run_q = []; state = dict(active=0)
    def worker():
        while True:
            with cond:
                while True:
                    if sh.fatal is not None: return
                    if run_q: task = ("run",) + run_q.pop(0); break
                    if serial_q: task = ("serial", serial_q.pop(0)); break
                    if state["active"] == 0: cond.notify_all(); return
                    cond.wait(1.0)
                state["active"] += 1
            try:
                if task[0] == "serial":
                    i = task[1]
                    cs, settings = start_case(sh, bins, seed, i, tier, workdir, race_oracle and tsan_selected(tier, i))
                    if cs is not None:
                        with cond:
                            for st in settings: run_q.append((cs, st))
                            cond.notify_all()
                else:
                    cs, st = task[1], task[2]
                    run_setting(sh, cs, bins, seed, tier, workdir, st)
                    with cs.lock:
                        cs.pending -= 1; last = (cs.pending == 0)
                    if last: finish_case(sh, cs)
            except Exception:          # a checker crash is a harness failure, never a verdict
                import traceback
                with sh.lock: sh.fatal = "driver exception: %s" % traceback.format_exc()[-1500:]
            finally:
                with cond:
                    state["active"] -= 1; cond.notify_all()
    ths = [threading.Thread(target=worker) for _ in range(check.JOBS)]
    for t in ths: t.start()
    for t in ths: t.join()
    if not os.environ.get("VF_KEEP"): shutil.rmtree(workdir, ignore_errors=True)
    if sh.fatal:
        print("HARNESS-FAILURE: " + sh.fatal); return 2
    if race_oracle and sh.tsan_runs > 0 and sh.archer_active == 0:
        print("HARNESS-FAILURE: Archer did not attach to the omptsan runs (libarcher.so not loaded): the race oracle would only see false races"); return 2
    cnt = sh.res.counters
    sizes = {k[len("steps_points_"):]: v for k, v in cnt.items() if k.startswith("steps_points_")}
    extra = dict(
        scripts=sh.res.evaluations, process_runs_compared=sh.runs, runs_by_setting=dict(sorted(sh.runs_by_setting.items())),
        threads_requested_vs_seen_inside_a_parallel_region=dict(sorted(sh.threads_seen.items())),
        steps_by_point_count=sizes, largest_grid_points=cnt.get("max_points", 0), largest_swarm=cnt.get("max_particles", 0),
        steps_by_family_kind_size={k[5:]: v for k, v in sorted(cnt.items()) if k.startswith("step_")},
        digest_oracle=dict(steps_compared=sh.stats.get("steps_compared", 0), fields_compared=sh.stats.get("fields_compared", 0),
                           numeric_fields_differing_in_bits_but_within_tolerance=sh.stats.get("fields_bits_differ_within_tolerance", 0),
                           such_fields_by_name=sh.stats.get("bits_differ_fields", {}), largest_relative_difference_accepted=sh.stats.get("max_rel_diff_within_tolerance", 0.0),
                           tolerance="|a-b| <= %g * max(|field|, for eval/batch_eval/jacobian/integrate also |values|,|coeffs|)" % TOL),
        race_oracle=dict(enabled=bool(race_oracle), tsan_runs=sh.tsan_runs, archer_attached_runs=sh.archer_active, archer_missing_runs=sh.archer_inactive,
                         report_blocks=sh.tsan_reports, report_blocks_without_repo_frame=sh.tsan_unattributed,
                         digest_steps_compared=sh.tsan_digest_stats.get("steps_compared", 0),
                         note="reports without any frame inside the repository are counted, not reported; on the unchanged tree there were none"),
        watchdog_first_attempts=dict(sorted(sh.first_timeouts.items())),   # runs that passed the watchdog once and were repeated with a doubled one (a second miss is a hang violation)
        wall_split_s=dict(serial=round(sh.serial_wall, 1), omp=round(sh.omp_wall, 1), omptsan=round(sh.tsan_wall, 1)))
    return check.finish(prop, tier, seed, cfg.get("level", "exploration"), sh.res, cfg["rule"], t0, extra_cov=extra,
                        assumptions=cfg.get("assumptions"), min_nontrivial=cfg.get("min_nontrivial", 2))

def replay(rec):
    """re-runs the recorded script: serial reference + the recorded setting (5 attempts: schedules vary), prints the verdict"""
    seed, index, tier = rec["seed"], rec["index"], rec.get("tier", "quick")
    st = rec.get("setting")
    bins = {"asan": check.build("asan")}
    if st: bins[st["variant"]] = check.build(st["variant"])
    workdir = make_workdir()
    bad = False
    try:
        ref_file = os.path.join(workdir, "ref.txt")
        r = run_one(bins["asan"], seed, index, tier, None, ref_file, workdir, 1800)
        print("replaying: " + r["cmd"]); sys.stdout.write(r["stdout"])
        if r["rc"] != 0:
            sys.stdout.write(r["stderr"][-4000:]); bad = True
        elif st:
            ref = parse_obs(ref_file)
            for attempt in range(5):
                out_file = os.path.join(workdir, "run%d.txt" % attempt)
                rr = run_one(bins[st["variant"]], seed, index, tier, st, out_file, workdir, 3600)
                print("attempt %d: %s  [%s]" % (attempt, rr["cmd"], st["name"]))
                if rr["rc"] != 0 or rr["timed_out"]:
                    print("  died / timed out: rc=%s" % rr["rc"]); sys.stdout.write(rr["stderr"][-3000:]); bad = True; continue
                v, inc = compare_obs(ref, parse_obs(out_file), {})
                for key, det in v: print("  V %s %s" % (key, json.dumps(det)[:1500])); bad = True
                text = ""
                for lf in rr["tsan_logs"]:
                    with open(lf, "r", errors="replace") as f: text += f.read()
                tv, _ = tsan_violations(parse_tsan(text))
                for key, rep in tv.items():
                    print("  V %s" % key); print("    " + rep["text"][:3000].replace("\n", "\n    ")); bad = True
                if bad and attempt >= 1: break
    finally:
        shutil.rmtree(workdir, ignore_errors=True)
    print("replay verdict: %s" % ("violation reproduced" if bad else "no violation on this tree (5 attempts; schedules vary from run to run)"))
    return 1 if bad else 0

class _Driver:
    check = staticmethod(check_fn)
    replay = staticmethod(replay)
driver = _Driver()
