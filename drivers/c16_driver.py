"""C16 driver: runs the script monitor (harness/c16.cpp) against the REAL tasgrid binary of the asan variant.

The only thing that differs from the generic runner: the path of the tool is computed from the variant's build directory and passed
to tsgmon as tasgrid=<path>; the sanitizer options of the child tasgrid are set so that every report aborts it (the monitor reports a
death by signal as a violation); the evidence carries the translation-validation coverage keys (programs, disagreements_checked)."""
import os, time
import check

SAN = {"ASAN_OPTIONS": "abort_on_error=1:detect_leaks=0:allocator_may_return_null=1:handle_abort=1",
       "UBSAN_OPTIONS": "print_stacktrace=1:halt_on_error=1:abort_on_error=1"}

def tool_path(variant):
    return os.path.join(check.BUILD_ROOT, variant, "Tasgrid", "tasgrid")

def memcheck_sample(res, seed):
    """A fixed script of tasgrid invocations on the plain build under valgrind memcheck: the compiler sanitizers of the asan variant do not see reads of
    uninitialised memory (MemorySanitizer would need an instrumented libstdc++), e.g. an option flag of the wrapper that no constructor sets."""
    import subprocess, shutil, tempfile, math, re, json
    if not shutil.which("valgrind"): res.counters["memcheck:skipped-no-valgrind"] = 1; return
    check.build("plain")
    tool = tool_path("plain")
    d = tempfile.mkdtemp(prefix="c16_memcheck_", dir=os.path.join(check.BUILD_ROOT, "tmp") if os.path.isdir(os.path.join(check.BUILD_ROOT, "tmp")) else None)
    env = dict(os.environ); env["LD_LIBRARY_PATH"] = os.pathsep.join([os.path.join(check.BUILD_ROOT, "plain", "SparseGrids"), os.path.join(check.BUILD_ROOT, "plain", "DREAM")])
    def run(i, args, vg=True):
        cmd = (["valgrind", "-q", "--error-exitcode=99"] if vg else []) + [tool] + args
        r = subprocess.run(cmd, cwd=d, env=env, stdout=subprocess.PIPE, stderr=subprocess.PIPE, text=True, timeout=600, errors="replace")
        if vg:
            res.counters["memcheck:invocations"] = res.counters.get("memcheck:invocations", 0) + 1
            if r.returncode == 99 or "==ERROR" in r.stderr or re.search(r"^==\d+== (Conditional jump|Use of uninitialised|Invalid (read|write)|Syscall param)", r.stderr, re.M):
                kind = re.search(r"^==\d+== (Conditional jump or move depends on uninitialised value|Use of uninitialised value|Invalid read|Invalid write|Syscall param[^\n]*)", r.stderr, re.M)
                frame = re.search(r"(?:at|by) 0x[0-9A-F]+: ([^\n]*?) \((tsg[A-Za-z]+\.[ch]pp|tasgrid[A-Za-z_]*\.[ch]pp)", r.stderr)
                key = "memcheck:%s:%s:%s" % ((kind.group(1) if kind else "error").replace(" ", "-")[:60], args[0].lstrip("-"), (frame.group(2) if frame else "?"))
                res.violations.append(dict(index=1000000 + i, key=key, detail=json.dumps(dict(command=" ".join(["tasgrid"] + args), report=r.stderr[:1500])), descriptor=json.dumps(dict(memcheck_sample=i)), variant="plain"))
        return r
    try:
        run(0, ["-makeglobal", "-dim", "1", "-out", "1", "-depth", "6", "-type", "level", "-onedim", "clenshaw-curtis", "-gridfile", "w.grid", "-ascii", "-of", "pts.txt"])
        tok = open(os.path.join(d, "pts.txt")).read().split(); n = int(tok[0]); pts = [float(t) for t in tok[2:2 + n]]
        open(os.path.join(d, "vals.txt"), "w").write("%d 1\n" % n + "\n".join("%.17g" % math.exp(-x * x) for x in pts) + "\n")
        run(1, ["-loadvalues", "-gridfile", "w.grid", "-valsfile", "vals.txt", "-ascii"])
        run(2, ["-makeexoquad", "-depth", "2", "-shift", "1.0", "-weightfile", "w.grid", "-description", "exo", "-of", "exo.tab"])
        run(3, ["-makeexoquad", "-depth", "2", "-shift", "1.0", "-weightfile", "w.grid", "-description", "exo", "-symmetric", "-print"])
        run(4, ["-makequadrature", "-dim", "2", "-depth", "3", "-type", "qptotal", "-onedim", "gauss-legendre", "-print"])
        run(5, ["-makefourier", "-dim", "2", "-out", "1", "-depth", "2", "-type", "level", "-gridfile", "f.grid", "-of", "fp.txt", "-ascii"])
        run(6, ["-summary", "-gridfile", "f.grid"])
        run(7, ["-evaluate", "-gridfile", "w.grid", "-xf", "pts.txt", "-print"])
        run(8, ["-integrate", "-gridfile", "w.grid", "-print"])
    except Exception as e:
        res.counters["memcheck:harness-error"] = 1
        print("memcheck sample: %s" % e)
    finally:
        shutil.rmtree(d, ignore_errors=True)

def check_fn(prop, cfg, tier, seed, ncases_override=None):
    t0 = time.time()
    variant = cfg["variant"]
    n = ncases_override or cfg["cases"][1 if tier == "thorough" else 0]
    check.build(variant)                      # builds library + tasgrid + tsgmon of the variant (incremental)
    tool = tool_path(variant)
    if not os.access(tool, os.X_OK):
        print("HARNESS-FAILURE: tasgrid binary of variant %s not found at %s" % (variant, tool))
        return 2
    args = tuple(cfg.get("args", ())) + ("tasgrid=" + tool,)
    res = check.run_cases(prop, variant, n, tier, seed, timeout=cfg.get("timeout", 300), chunk=cfg.get("chunk", 5),
                          extra_args=args, extra_env=SAN)
    memcheck_sample(res, seed)
    if not os.environ.get("VF_KEEP"):   # script directories survive only when tsgmon itself died inside a case
        import glob, shutil
        for d in glob.glob(os.path.join(check.BUILD_ROOT, "tmp", "c16_*")): shutil.rmtree(d, ignore_errors=True)
    cnt = res.counters
    cmds = sorted(k[4:] for k in cnt if k.startswith("cmd:"))
    extra = dict(
        programs=res.evaluations,                                     # scripts executed (one program = one script of tasgrid invocations)
        tool_invocations=cnt.get("tool_invocations", 0),
        comparisons=dict(                                             # individual tool-vs-API comparisons that could have disagreed, by kind
            steps_compared=cnt.get("steps_compared", 0),
            grid_files_bytewise=cnt.get("grid_compared_ascii", 0) + cnt.get("grid_compared_binary", 0),
            grid_files_ascii=cnt.get("grid_compared_ascii", 0), grid_files_binary=cnt.get("grid_compared_binary", 0),
            matrices_binary=cnt.get("matrix_compared_binary", 0), matrices_ascii=cnt.get("matrix_compared_ascii", 0),
            matrices_stdout=cnt.get("matrix_compared_stdout", 0),
            texts=cnt.get("text_compared_stdout", 0) + cnt.get("text_compared_file", 0),
            steps_rejected_by_tool=cnt.get("steps_rejected_by_tool", 0)),
        disagreements_checked=(cnt.get("grid_compared_ascii", 0) + cnt.get("grid_compared_binary", 0) + cnt.get("matrix_compared_binary", 0)
                               + cnt.get("matrix_compared_ascii", 0) + cnt.get("matrix_compared_stdout", 0) + cnt.get("text_compared_stdout", 0)
                               + cnt.get("text_compared_file", 0)),  # total number of tool-vs-API comparisons examined for disagreement
        commands_covered=cmds, num_commands_covered=len(cmds),
        tool=tool)
    return check.finish(prop, tier, seed, cfg.get("level", "translation_validation"), res, cfg["rule"], t0, extra_cov=extra,
                        assumptions=cfg.get("assumptions"), min_nontrivial=cfg.get("min_nontrivial", 2),
                        replay_extra=dict(args=["tasgrid=" + tool]))

def replay(rec):
    import subprocess, sys
    variant = rec.get("variant") or "asan"
    tsgmon = check.build(variant)
    env = dict(os.environ); env.update(check.SAN_ENV.get(variant, {})); env.update(SAN)
    tmpd = os.path.join(check.BUILD_ROOT, "tmp"); os.makedirs(tmpd, exist_ok=True); env["VF_TMPDIR"] = tmpd
    env["VF_TRACE"] = "1"
    args = [tsgmon, "C16", str(rec["seed"]), str(rec["index"]), "1"] + (["thorough"] if rec.get("tier") == "thorough" else []) + ["tasgrid=" + tool_path(variant)]
    print("replaying: " + " ".join(args))
    try:
        r = subprocess.run(args, env=env, stdout=subprocess.PIPE, stderr=subprocess.PIPE, text=True, timeout=900, errors="replace")
    except subprocess.TimeoutExpired:
        print("replay: case did not finish within 900 s"); return 1
    sys.stdout.write(r.stderr[-6000:]); sys.stdout.write(r.stdout)
    bad = (r.returncode != 0) or any(l.startswith("V ") for l in r.stdout.splitlines())
    print("replay verdict: %s" % ("violation reproduced" if bad else "no violation on this tree"))
    return 1 if bad else 0

class _Driver:
    check = staticmethod(check_fn)
    replay = staticmethod(replay)
driver = _Driver()
