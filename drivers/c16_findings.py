"""C16: genuine defects of the unchanged tree that the monitor re-establishes, as entries in the format of known_findings.json
(property, key, status, what) plus the proposed repair.  Data only; the orchestrator copies what it wants into known_findings.json
(that file is shared and never written at run time).  A key ending in * is a prefix."""

FINDINGS = [
    dict(property="C16", key="output-differs:makequadrature:localp", status="open", fix="fixes/C16-makequadrature-localp.patch",
         what="F-mq: tasgrid -makequadrature -onedim localp|semi-localp|localp-zero|localp-boundary builds a WAVELET grid (executeCommand tests "
              "isGlobal(rule) where isLocalPolynomial(rule) is meant): -mq -dim 1 -depth 2 -order 1 -1d localp gives 9 points instead of 5"),
    dict(property="C16", key="tool-abort:makequadrature:localp:uncaught-std::invalid_argument:*", status="open", fix="fixes/C16-makequadrature-localp.patch",
         what="F-mq, same defect: with -order other than 1 or 3 the wavelet constructor throws and tasgrid dies in std::terminate"),
    dict(property="C16", key="tool-abort:refine:fourier:uncaught-std::runtime_error:*", status="open", fix="fixes/C16-refine-fourier.patch",
         what="tasgrid -refine on a Fourier grid calls the surplus refinement (documented: anisotropic refinement for Global, Sequence and Fourier grids); "
              "the library throws and the tool dies in std::terminate"),
    dict(property="C16", key="real-option-parsed-as-float:*", status="open", fix="fixes/C16-real-options-double.patch",
         what="-alpha, -beta, -tolerance and -shift are parsed with std::stof: '-alpha 0.3' builds the grid for alpha = 0.300000011920929 "
              "(the MATLAB interface passes 16-17 digits); grid files and quadrature/exotic-quadrature tables differ from the API result"),
    dict(property="C16", key="outcome:tool-rejects-api-accepts:error-unknown-command-getneededpoints", status="open", fix="fixes/C16-getneededpoints-alias.patch",
         what="the command documented as -getneededpoints (tasgrid -help, '-getneededpoints help', InterfaceCLI.md) is not recognised; only -getneeded / -gn are"),
    dict(property="C16", key="outcome:tool-rejects-api-accepts:error-must-specify-number-of-outputs-could-be-zero", status="open", fix="fixes/C16-zero-outputs.patch",
         what="make* commands reject -outputs 0 with 'must specify number of outputs (could be zero)': the test is num_outputs < 1, the unset value is -1"),
    dict(property="C16", key="output-differs:makeupdate-of:*", status="open", fix="fixes/C16-makeupdate-output.patch",
         what="-makeupdate with -outputfile/-print writes no output although its help says they 'output the new points of the grid'"),
    dict(property="C16", key="outcome:tool-rejects-api-accepts:error-asin-is-not-a-valid-type-for-help", status="open", fix="fixes/C16-help-shorthands.patch",
         what="the help text lists -tt as the shorthand of -conformaltype (the parser takes -ct; -tt is the depth type)"),
    dict(property="C16", key="outcome:tool-rejects-api-accepts:error-conformal-transform-requires-both-conformaltype-and-conformalfile", status="open",
         fix="fixes/C16-help-shorthands.patch", what="the help text lists -tf as the shorthand of -conformalfile (-tf is the domain transform file; -conformalfile has no shorthand)"),
    dict(property="C16", key="outcome:tool-rejects-api-accepts:error-must-specify-valid-conformaltype", status="open", fix="fixes/C16-help-shorthands.patch",
         what="the help text lists -sc as the shorthand of both -setconformal and -setcoefficients; the parser maps it to -setconformal"),
    dict(property="C16", key="grid-file-differs:setcoefficients:fourier", status="open", fix="fixes/C16-setcoefficients-fourier.patch",
         what="-setcoefficients on a Fourier grid passes the interwoven (re,im) matrix of the file format (InterfaceCLI.md, tsgLoadHCoefficients.m, the output of "
              "-getcoefficients) unchanged to setHierarchicalCoefficients(), which expects all real parts followed by all imaginary parts: get -> set is not the identity"),
    dict(property="C16", key="tool-abort:ubsan-reference-binding-to-null:TasGrid::IO::writeVector@tsgIOHelpers.hpp<-TasGrid::GridGlobal::write@tsgGridGlobal.cpp",
         status="fixed", commit="cde6280", fix="fixes/C16-update-without-new-tensors.patch (identical to /repo commit cde6280, which appeared while this monitor was being built)",
         what="LIBRARY (also C06): GridGlobal::updateGrid leaves updated_tensors set (with empty updated_active_tensors/_w) when the requested update adds no tensor; "
              "write() then emits an inconsistent 'pending update': ASCII write indexes an empty vector (SEGV in a plain build: tasgrid -makeupdate ... -ascii, "
              "also reached from -refineaniso when the level limits are saturated)"),
    dict(property="C16", key="tool-abort:ubsan-reference-binding-to-null:TasGrid::IO::writeVector@tsgIOHelpers.hpp<-TasGrid::GridFourier::write@tsgGridFourier.cpp",
         status="fixed", commit="cde6280", fix="fixes/C16-update-without-new-tensors.patch (identical to /repo commit cde6280, which appeared while this monitor was being built)", what="LIBRARY: same defect in GridFourier::updateGrid"),
    dict(property="C16", key="tool-abort:asan-heap-buffer-overflow:TasGrid::OneDimensionalWrapper::*", status="fixed", commit="cde6280", fix="fixes/C16-update-without-new-tensors.patch (identical to /repo commit cde6280, which appeared while this monitor was being built)",
         what="LIBRARY: same defect, binary format: the file written after such an update is read back with a 1-D wrapper sized for the (smaller) stale "
              "updated_tensors: heap-buffer-overflow in recomputeTensorRefs / indexesToNodes on the next tasgrid command (silent over-read in a plain build)"),
    dict(property="C16", key="tool-hang:makequadrature:localp", status="open", fix="fixes/C16-makequadrature-localp.patch",
         what="F-mq, same defect (thorough tier): the wavelet grid built for the depth of a local polynomial rule is so much larger that tasgrid exceeds the 120 s watchdog"),
    dict(property="C16", key="tool-abort:ubsan-reference-binding-to-null:TasGrid::IO::writeVector@tsgIOHelpers.hpp<-internal_sparse_matrix::writeSparseMatrix@tasgridWrapper.cpp",
         status="open", fix="fixes/C16-sparse-output-no-nonzeros.patch",
         what="-evalhierarchys with -ascii or -print when no basis function is supported at any of the points (0 non-zeros): writeVector() indexes the empty "
              "index/value vectors (null dereference; SEGV in a plain build)"),
    dict(property="C16", key="grid-file-differs:loadconstructed:*", status="open", fix=None,
         what="LIBRARY (C06/C09, no repair proposed; seen for Global and Fourier grids): a grid under dynamic construction and its write/read copy continue differently: 1-D depth-1 grid, "
              "beginConstruction, load every candidate but the first, write+read, load the first -> in memory 3 loaded points, after the round trip 1 loaded point and "
              "two samples parked forever (every tasgrid step is such a round trip)"),
]
# defects seen only as counters / masked by another defect (no violation key on the unchanged tree)
NOTES = [
    dict(fix="fixes/C16-failed-or-const-command-rewrites-grid.patch",
         what="-using-construct (documented read-only) and commands that fail with an ERROR after reading the grid re-write the grid file (same content, but in the "
              "format of THIS call: an ASCII grid file silently becomes binary); counters grid_file_rewritten_by_const_command / _by_rejected_step"),
    dict(fix="fixes/C16-refinesurp-scale-shape.patch",
         what="-refinesurp/-refine with -valsfile: the shape test of the scale matrix is the wrong way round (refout -1 requires 1 column, refout k requires "
              "#outputs columns; -getconstructpnts has it right). Masked on the unchanged tree by F-scale (C07): the library rejects every non-empty scale vector. "
              "With F-scale repaired the monitor reports outcome:tool-rejects-api-accepts:error-the-number-of-weights-must-match-the-number / "
              "error-there-must-be-one-weight-per-output, and is silent with this patch"),
]
