"""C17 driver - fault enumeration on the real process (DESIGN.md section 4, C17).

A *case* is one verified restart: a chain of processes  stage 0 (killed) [-> stage 1 (killed)] -> final stage (fresh process, runs
constructSurrogate with the same checkpoint name to the end and is judged by harness/c17.cpp), or a planted pair of files
(torn prefix of a snapshot as main, previous snapshot as _old) followed by the final stage.

Families of faults
  kill     op-level kills from harness/fs_shim.c: every intercepted file-system operation on <name>/<name>_old x {before, after} and
           every write x torn at k bytes; sequential mode is deterministic, so the op list of a dry run is the op list of the killed run.
  chain    the restart itself is killed inside its recovery / initial checkpoint / first checkpoints, then restarted again.
  prefix   byte-level torn files built from the snapshots of the dry run: main = first L bytes of snapshot k (every L), _old = snapshot k-1;
           and the mirror image (main complete, _old torn).  A sample is repeated under ASan (no shim needed).
  parallel op-level kills (op indexes drawn from the dry run's range) and kills at seeded random times (timer in the shim).

saved(last completed checkpoint) = points that the library reads from the last snapshot the shim took before the kill (loaded + stored
samples), plus - sequential mode only, where it is exact - the points whose model evaluation had returned before that snapshot
(D lines of the merged log).  Both are lower bounds of what the file holds, so the recompute clause cannot raise a false alarm.
"""
import os, sys, json, time, subprocess, shutil, random, threading, re
from concurrent.futures import ThreadPoolExecutor
import check as CK

HERE = os.path.dirname(os.path.dirname(os.path.abspath(__file__)))
RULE = ("case = one verified restart of constructSurrogate in a fresh process after a fault: (scenario = grid family/rule/dims/outputs/budget/"
        "batch/workers/overload drawn from (seed, scenario index)) x (fault = kill before/after/torn at an enumerated file-system operation of the "
        "checkpoint files, a second kill inside the restart, a kill at a seeded time (parallel mode), or a planted torn prefix of a snapshot); "
        "non-trivial = the final stage ran to its verdict; distinct = distinct (scenario signature | fault class)")

WATCHDOG = 10   # seconds for the judged stage (the whole uninterrupted scenario takes milliseconds)

# ---------------------------------------------------------------------------------------------------------------
class Ctx:
    def __init__(self, seed, tier):
        self.seed = seed; self.tier = tier
        self.bin = {}
        self.shim = None
        self.root = None
        self.lock = threading.Lock()
        self.dry = {}      # (scen, par) -> dict(dir, ops, snaps, log)
        self.hung = set()  # (scenario, fault family) whose restart already hit the watchdog: the violation is established once and not paid for again

def build_shim():
    out = os.path.join(CK.BUILD_ROOT, "fs_shim.so")
    src = os.path.join(HERE, "harness", "fs_shim.c")
    os.makedirs(CK.BUILD_ROOT, exist_ok=True)
    if (not os.path.exists(out)) or os.path.getmtime(out) < os.path.getmtime(src):
        tmp = out + ".%d.tmp" % os.getpid()
        r = CK.sh(["gcc", "-O1", "-g", "-Wall", "-shared", "-fPIC", "-o", tmp, src, "-ldl", "-lpthread"])
        if r.returncode != 0:
            sys.stderr.write(r.stderr[-3000:]); print("HARNESS-FAILURE: fs_shim.c does not compile"); sys.exit(2)
        os.replace(tmp, out)
    return out

def parse_log(path):
    """merged log of one stage -> list of events in file order"""
    ev = []
    try:
        with open(path, "r", errors="replace") as f:
            for line in f:
                sp = line.split()
                if not sp or not line.endswith("\n"): continue
                try:
                    if sp[0] == "O" and len(sp) >= 6: ev.append(("O", int(sp[1]), sp[2], sp[3], int(sp[4]), sp[5]))
                    elif sp[0] == "S" and len(sp) >= 5: ev.append(("S", int(sp[1]), int(sp[2]), int(sp[3]), sp[4]))
                    elif sp[0] in ("M", "D") and len(sp) >= 4: ev.append((sp[0], int(sp[1]), int(sp[2]), int(sp[3]), sp[4:]))
                    elif sp[0] == "K": ev.append(("K", int(sp[1]), sp[2], int(sp[3]) if len(sp) > 3 else 0))
                except ValueError:
                    continue
    except FileNotFoundError:
        pass
    return ev

def run_stage(ctx, variant, scen, par, d, stage, mode, kill=None, extra=(), shim=True, timeout=120):
    """runs one process; returns dict(rc, out, err, killed, lines)"""
    env = dict(os.environ); env.update(CK.SAN_ENV.get(variant, {}))
    env["VF_TMPDIR"] = ctx.root
    if "ASAN_OPTIONS" in env: env["ASAN_OPTIONS"] += ":max_allocation_size_mb=1024:hard_rss_limit_mb=3072"
    for k in list(env):
        if k.startswith("C17_"): del env[k]
    if shim:
        env["LD_PRELOAD"] = ctx.shim; env["C17_PATH"] = os.path.join(d, "ckpt"); env["C17_DIR"] = d; env["C17_STAGE"] = str(stage)
        if kill:
            if "us" in kill: env["C17_KILL_US"] = str(kill["us"])
            else:
                env["C17_KILL_OP"] = str(kill["op"]); env["C17_KILL_KIND"] = kill["kind"]
                if kill["kind"] == "torn": env["C17_TORN_BYTES"] = str(kill.get("torn", 1))
    pre = []
    if variant == "valgrind":
        pre = ["valgrind", "-q", "--error-exitcode=97", "--num-callers=12"]; env["C17_NO_RLIMIT"] = "1"; timeout = timeout * 6
    args = pre + [ctx.bin["plain" if variant == "valgrind" else variant], "C17", str(ctx.seed), str(scen), "1"] + (["thorough"] if ctx.tier == "thorough" else []) + \
           ["mode=" + mode, "par=%d" % par, "dir=" + d, "stage=%d" % stage] + list(extra)
    try:
        r = subprocess.run(args, env=env, stdout=subprocess.PIPE, stderr=subprocess.PIPE, text=True, errors="replace", timeout=timeout)
        return dict(rc=r.returncode, out=r.stdout, err=r.stderr, hung=False, args=args)
    except subprocess.TimeoutExpired as e:
        return dict(rc=-999, out=(e.stdout or b"").decode(errors="replace") if isinstance(e.stdout, bytes) else (e.stdout or ""),
                    err="", hung=True, args=args)

def verdict_of(pr, fclass, variant):
    """B/V/E lines of the judged stage -> dict(status, viols, counters, sigs, descriptor)"""
    desc = None; viols = []; counters = {}; sigs = []; status = None; info = {}
    for line in pr["out"].splitlines():
        tag = line[:2]
        if tag == "B ":
            sp = line.split(" ", 2); desc = sp[2] if len(sp) > 2 else "{}"
        elif tag == "V ":
            sp = line.split(" ", 3); viols.append(dict(key=sp[2], detail=sp[3] if len(sp) > 3 else "{}"))
        elif tag == "R ":
            try: info = json.loads(line[2:])
            except Exception: pass
        elif tag == "E ":
            sp = line.split(" ", 4); status = sp[2]
            try:
                counters = json.loads(sp[3]); sigs = json.loads(sp[4]) if len(sp) > 4 else []
            except Exception: pass
    if pr["hung"]:
        viols.append(dict(key="restart-hang@" + fclass, detail=json.dumps({"watchdog_s": WATCHDOG, "note": "the uninterrupted run of the same scenario takes milliseconds"}))); status = "viol"
    elif variant == "valgrind" and pr["rc"] == 97:
        m = re.search(r"==\d+== (Conditional jump or move depends on uninitialised value|Use of uninitialised value|Invalid read|Invalid write|Syscall param \S+ points to uninitialised|Argument '\w+' of function \w+ has a fishy)", pr["err"])
        kind = re.sub(r"[^a-z]+", "-", (m.group(1) if m else "error").lower()).strip("-")
        fr = re.search(r"(?:at|by) 0x[0-9A-F]+: (TasGrid::[\w:]+)", pr["err"])
        viols.append(dict(key="restart-memcheck:%s:%s@%s" % (kind, fr.group(1) if fr else "?", fclass), detail=json.dumps({"stderr": pr["err"][:2500]}))); status = "viol"
    elif status is None or pr["rc"] != 0:
        ck = CK.crash_key(pr["err"], pr["rc"])            # crash:<kind>:<frame>
        kind = ck.split(":", 1)[1] if ":" in ck else ck
        kind = kind.replace("/var/tmp/repo-c17", "/repo")
        if kind.endswith(":?"): kind = kind[:-2]
        viols.append(dict(key="restart-crash:%s@%s" % (kind, fclass), detail=json.dumps({"rc": pr["rc"], "stderr": pr["err"][-1500:]}))); status = "viol"
    return dict(status=status, viols=viols, counters=counters, sigs=sigs, descriptor=desc, info=info, variant=variant)

def saved_from_logs(d, stages, par):
    """last completed snapshot before the crash + (sequential) points evaluated before it; returns (snapfile or None, [hex coordinate lists], phase info)"""
    for st in reversed(stages):
        ev = parse_log(os.path.join(d, "oplog_%d" % st))
        last = None
        for i, e in enumerate(ev):
            if e[0] == "S": last = i
        if last is None: continue
        pts = []
        if not par:
            for e in ev[:last]:
                if e[0] == "D":
                    dims = len(e[4]) // max(1, e[3])
                    for q in range(e[3]): pts.append(e[4][q * dims:(q + 1) * dims])
        return ev[last][4], pts
    return None, []

def write_pts(path, pts):
    with open(path, "w") as f:
        for p in pts: f.write(" ".join(p) + "\n")

def final_stage(ctx, variant, scen, par, d, stage, fclass, snap, pts):
    extra = ["fclass=" + fclass]
    if snap: extra.append("saved=" + snap)
    if pts:
        pf = os.path.join(d, "saved_pts"); write_pts(pf, pts); extra.append("savedpts=" + pf)
    pr = run_stage(ctx, variant, scen, par, d, stage, "restart", extra=extra, shim=False, timeout=WATCHDOG)
    return verdict_of(pr, fclass, variant)

# ---------------------------------------------------------------------------------------------------------------
def dry_run(ctx, scen, par):
    key = (scen, par)
    with ctx.lock:
        if key in ctx.dry: return ctx.dry[key]
    d = os.path.join(ctx.root, "dry_%d_%d" % (scen, par)); shutil.rmtree(d, ignore_errors=True); os.makedirs(d)
    t0 = time.time()
    pr = run_stage(ctx, "plain", scen, par, d, 0, "run", extra=["fclass=none"])
    wall = time.time() - t0
    ev = parse_log(os.path.join(d, "oplog_0"))
    ops = [e for e in ev if e[0] == "O"]
    first_model = None
    for e in ev:
        if e[0] == "M": break
        if e[0] == "O": first_model = e[1]
    snaps = []   # (n, close idx, bytes, file, position in ev)
    for i, e in enumerate(ev):
        if e[0] == "S": snaps.append((e[1], e[2], e[3], e[4], i))
    verdict = verdict_of(pr, "none", "plain")
    other = [e for e in ops if e[3] == "other"]
    if other: verdict["viols"].append(dict(key="undocumented-checkpoint-file@none", detail=json.dumps({"operations_on_files_other_than_name_and_name_old": len(other), "first": list(other[0])})))
    res = dict(dir=d, ev=ev, ops=ops, snaps=snaps, init_ops=first_model or 0, verdict=verdict, wall=wall)
    with ctx.lock: ctx.dry[key] = res
    return res

def phase_of(dry, opidx, stage):
    base = "init" if opidx <= dry["init_ops"] else "loop"
    return base if stage == 0 else "restart-" + base

def fault_class(kill, op, phase):
    if "us" in kill: return "kill-timer:" + phase
    return "kill-%s:%s-%s:%s" % (kill["kind"], op[2], op[3], phase)

def exec_kill_chain(ctx, spec, d):
    """spec: dict(type=kill, scen, par, kills=[...]) ; every kill spec belongs to one stage; the final stage is judged"""
    scen, par = spec["scen"], spec["par"]
    stages = []
    fclass = spec.get("fclass", "kill")
    for st, kill in enumerate(spec["kills"]):
        pr = run_stage(ctx, "plain", scen, par, d, st, "run" if st == 0 else "restart", kill=kill, extra=["fclass=stage"])
        stages.append(st)
        if pr["hung"]:
            return dict(status="viol", viols=[dict(key="killed-stage-hang@" + fclass, detail="{}")], counters={}, sigs=[], descriptor=None, info={}, variant="plain")
        if pr["rc"] != -9:
            # the kill point was not reached (possible in parallel mode where the number of operations varies) or the stage crashed by itself
            if pr["rc"] == 0:
                return dict(status="inc", viols=[], counters={"inconclusive:kill-point-not-reached": 1}, sigs=[], descriptor=None, info={}, variant="plain")
            v = verdict_of(pr, fclass, "plain")
            v["viols"] = [dict(key=x["key"].replace("restart-crash", "stage-crash"), detail=x["detail"]) for x in v["viols"]]
            return v
    snap, pts = saved_from_logs(d, stages, par)
    return final_stage(ctx, spec.get("variant", "plain"), scen, par, d, len(spec["kills"]), fclass, snap, pts)

def exec_prefix(ctx, spec, d):
    """spec: dict(type=prefix, scen, snap=k (1-based index into the dry run's snapshots), L, which=main|old)"""
    scen = spec["scen"]; dry = dry_run(ctx, scen, 0)
    k = spec["snap"]; cur = dry["snaps"][k - 1]; prev = dry["snaps"][k - 2] if k >= 2 else None
    with open(cur[3], "rb") as f: data = f.read()
    L = spec["L"]
    if spec["which"] == "main":
        with open(os.path.join(d, "ckpt"), "wb") as f: f.write(data[:L])
        if prev: shutil.copyfile(prev[3], os.path.join(d, "ckpt_old"))
        good = cur if L >= len(data) else prev
    else:
        with open(os.path.join(d, "ckpt"), "wb") as f: f.write(data)
        with open(os.path.join(d, "ckpt_old"), "wb") as f: f.write(data[:L])
        good = cur
    snap = None; pts = []
    if good:
        snap = good[3]
        for e in dry["ev"][:good[4]]:
            if e[0] == "D":
                dims = len(e[4]) // max(1, e[3])
                for q in range(e[3]): pts.append(e[4][q * dims:(q + 1) * dims])
    return final_stage(ctx, spec.get("variant", "plain"), scen, 0, d, 1, spec["fclass"], snap, pts)

def execute(ctx, spec, idx):
    hk = (spec["scen"], spec.get("par", 0), spec["type"], spec.get("which"), bool(spec.get("chain")))   # scenario x fault family
    if hk in ctx.hung:
        return dict(status="inc", viols=[], counters={"inconclusive:same-scenario-and-fault-family-already-hung": 1}, sigs=[], descriptor=None, info={}, variant=spec.get("variant", "plain"), spec=spec, index=idx)
    d = os.path.join(ctx.root, "case_%d" % idx); shutil.rmtree(d, ignore_errors=True); os.makedirs(d)
    try:
        if spec["type"] == "prefix": v = exec_prefix(ctx, spec, d)
        else: v = exec_kill_chain(ctx, spec, d)
    finally:
        if not os.environ.get("C17_KEEP"): shutil.rmtree(d, ignore_errors=True)
    v["spec"] = spec; v["index"] = idx
    if any(x["key"].startswith(("restart-hang", "killed-stage-hang")) for x in v["viols"]):
        with ctx.lock: ctx.hung.add(hk)
    return v

# ---------------------------------------------------------------------------------------------------------------
def snapshot_sections(ctx, scen, snapfile):
    pr = run_stage(ctx, "plain", scen, 0, ctx.root, 0, "dump", extra=["file=" + snapfile], shim=False)
    for line in pr["out"].splitlines():
        if line.startswith("D "):
            try: return json.loads(line[2:])
            except Exception: pass
    return dict(ok=False, grid_bytes=0)

def section_of(L, n, gb, trailing=0):
    if L == 0: return "empty"
    if L >= n: return "complete"
    if trailing > 0 and L >= n - trailing: return "trailer"
    if L < 6: return "header"
    if L < gb: return "grid"
    if L == gb: return "grid-end"
    if L < gb + 16: return "stored-counts"
    if L == gb + 16: return "stored-counts-end"
    return "stored-data"

def plan(ctx, ncases_override):
    """builds the list of fault specs for the tier (a pure function of seed and tier, apart from the parallel dry runs' op counts)"""
    rnd = random.Random(ctx.seed * 1000003 + (1 if ctx.tier == "thorough" else 0))
    thorough = ctx.tier == "thorough"
    # scenarios: families cycle with the index (localp, sequence, global, localp, wavelet, fourier, pre-loaded localp with > 1000 points), batch = 1 + (index // 7) % 3
    nseq = 21 if thorough else 7
    npar = 14 if thorough else 6
    specs = []
    seq = list(range(nseq)); par = list(range(npar))
    with ThreadPoolExecutor(CK.JOBS) as ex:
        list(ex.map(lambda s: dry_run(ctx, s, 0), seq)); list(ex.map(lambda s: dry_run(ctx, s, 1), par))
    cover = dict(seq_scenarios=nseq, par_scenarios=npar, ops_total=0, ops_enumerated=0, kill_points=0, prefixes=0, prefix_space=0, chains=0, timer_kills=0, par_op_kills=0)
    # ---- 1. op-level kills, sequential ----
    for s in seq:
        dry = dry_run(ctx, s, 0); ops = dry["ops"]; N = len(ops)
        cover["ops_total"] += N
        if thorough: chosen = set(range(1, N + 1))
        else:
            # all operations up to the end of the third checkpoint of the loop and of the last two checkpoints, plus a seeded sample
            closes = [sn[1] for sn in dry["snaps"]]
            head = closes[3] if len(closes) > 3 else N
            tail = closes[-3] if len(closes) > 3 else 0
            chosen = set(i for i in range(1, N + 1) if i <= head or i > tail)
            rest = [i for i in range(1, N + 1) if i not in chosen]
            chosen |= set(rnd.sample(rest, min(len(rest), 12)))
        cover["ops_enumerated"] += len(chosen)
        for i in sorted(chosen):
            op = ops[i - 1]; ph = phase_of(dry, i, 0)
            for kind in ("before", "after"):
                kill = dict(op=i, kind=kind)
                specs.append(dict(type="kill", scen=s, par=0, kills=[kill], fclass=fault_class(kill, op, ph)))
            if op[2] in ("write", "writev") and op[4] > 1:
                n = op[4]; ks = {1, n // 2, n - 1}
                if thorough: ks |= set(rnd.sample(range(1, n), min(n - 1, 6)))
                for k in sorted(ks):
                    kill = dict(op=i, kind="torn", torn=k)
                    specs.append(dict(type="kill", scen=s, par=0, kills=[kill], fclass=fault_class(kill, op, ph)))
    cover["kill_points"] = len(specs)
    # ---- 2. chains: the restart is killed too ----
    nchain_first = 3 if thorough else 1
    for s in seq:
        dry = dry_run(ctx, s, 0); closes = [sn[1] for sn in dry["snaps"]]
        if len(closes) < 4: continue
        firsts = sorted(set([closes[len(closes) // 2]] + (rnd.sample(closes[1:], min(len(closes) - 1, nchain_first - 1)) if nchain_first > 1 else [])))
        for c1 in firsts:
            k1 = dict(op=c1, kind="after")        # state: main = complete checkpoint, killed right after its close
            limit = 24 if thorough else 12        # operations of the restart: recovery, initial checkpoint, first checkpoints of the loop
            for j in range(1, limit + 1):
                for kind in ("before", "after", "torn"):
                    k2 = dict(op=j, kind=kind, torn=rnd.randint(1, 150))
                    specs.append(dict(type="kill", scen=s, par=0, kills=[k1, k2], fclass="chain-%s:restart-op" % kind, chain=True))
                    cover["chains"] += 1
    # ---- 2b. chains after a torn main file: the first kill tears the write of the main file (the restart must recover from <name>_old),
    #          the restart is then killed inside its own recovery / first checkpoint, and a third process is judged
    for s in seq:
        dry = dry_run(ctx, s, 0); closes = [sn[1] for sn in dry["snaps"]]; ops = dry["ops"]
        if len(closes) < 4: continue
        mid = closes[len(closes) // 2]
        w = [i for i in range(1, mid + 1) if ops[i - 1][2] in ("write", "writev") and ops[i - 1][3] == "main" and ops[i - 1][4] > 1]
        if not w: continue
        i1 = w[-1]
        k1 = dict(op=i1, kind="torn", torn=max(1, ops[i1 - 1][4] // 2))
        for j in range(1, (24 if thorough else 10) + 1):
            for kind in ("before", "after", "torn"):
                k2 = dict(op=j, kind=kind, torn=rnd.randint(1, 150))
                specs.append(dict(type="kill", scen=s, par=0, kills=[k1, k2], fclass="chain-after-torn-main-%s:restart-op" % kind, chain=True))
                cover["chains"] += 1
    # ---- 3. byte-level torn files ----
    pre = []
    for s in seq:
        dry = dry_run(ctx, s, 0); snaps = dry["snaps"]
        if len(snaps) < 3: continue
        if not thorough: ks = sorted(set([2, len(snaps) // 2, len(snaps)]))
        else:
            m = min(12, len(snaps) - 1)   # up to 12 snapshot pairs per scenario, evenly spread, always the first and the last
            ks = sorted(set([2, 3, len(snaps) - 1, len(snaps)] + [2 + (j * (len(snaps) - 2)) // max(1, m - 1) for j in range(m)]))
        for k in ks:
            if k < 2 or k > len(snaps): continue
            sec = snapshot_sections(ctx, s, snaps[k - 1][3]); n = snaps[k - 1][2]; gb = sec.get("grid_bytes", 0); tr = sec.get("trailing", 0)
            cover["prefix_space"] += n + 1
            stride = 1 if n <= 4096 else max(1, n // (2048 if thorough else 256))
            Ls = set(range(0, n + 1, stride)); Ls.add(n)
            if n - gb <= 4096: Ls |= set(range(max(0, gb - 8), n + 1))      # the whole stored-samples section and the end of the grid section
            Ls |= set(range(0, min(n, 64)))                                  # the header
            Ls = sorted(Ls)
            for L in Ls:
                pre.append(dict(type="prefix", scen=s, snap=k, L=L, which="main", fclass="torn-main:" + section_of(L, n, gb, tr)))
            for L in (rnd.sample(range(0, n), min(n, 40 if thorough else 8))):
                pre.append(dict(type="prefix", scen=s, snap=k, L=L, which="old", fclass="torn-old:" + section_of(L, n, gb, tr)))
    if not thorough and len(pre) > 2600:
        # keep every boundary class and thin the bulk of the interior prefixes (seeded); thorough keeps everything
        keep = [p for p in pre if not p["fclass"].endswith((":grid", ":stored-data"))]
        bulk = [p for p in pre if p["fclass"].endswith((":grid", ":stored-data"))]
        pre = keep + rnd.sample(bulk, max(0, min(len(bulk), 2600 - len(keep))))
    cover["prefixes"] = len(pre)
    specs += pre
    # a sample of the torn files again under ASan (reader on truncated input)
    asan_n = 400 if thorough else 120
    mains = [p for p in pre if p["which"] == "main"]
    for p in rnd.sample(mains, min(len(mains), asan_n)):
        q = dict(p); q["variant"] = "asan"; specs.append(q)
    cover["asan_prefixes"] = min(len(mains), asan_n)
    # and a few under valgrind memcheck (uninitialised reads in the binary reader are invisible to ASan)
    vg_n = 40 if thorough else 6
    edge = [p for p in mains if not p["fclass"].endswith((":grid", ":stored-data", ":complete"))] or mains
    vg = rnd.sample(edge, min(len(edge), vg_n // 2)) + rnd.sample(mains, min(len(mains), vg_n - vg_n // 2))
    for p in vg:
        q = dict(p); q["variant"] = "valgrind"; specs.append(q)
    cover["valgrind_prefixes"] = len(vg)
    # ---- 4. parallel mode ----
    for s in par:
        dry = dry_run(ctx, s, 1); N = len(dry["ops"])
        nk = 60 if thorough else 14
        for i in sorted(rnd.sample(range(1, N + 1), min(N, nk))):
            op = dry["ops"][i - 1]
            kind = rnd.choice(("before", "after", "torn") if op[2] in ("write", "writev") else ("before", "after"))
            kill = dict(op=i, kind=kind, torn=rnd.randint(1, max(1, op[4] - 1)) if op[4] > 1 else 1)
            # the op at index i of the killed run may differ from the dry run's: the fault class uses only the kind
            specs.append(dict(type="kill", scen=s, par=1, kills=[kill], fclass="par-kill-%s:op" % kind)); cover["par_op_kills"] += 1
        nt = 60 if thorough else 14
        span = max(2000, int(dry["wall"] * 1e6 * 0.8))
        for _ in range(nt):
            kill = dict(us=rnd.randint(1, span))
            specs.append(dict(type="kill", scen=s, par=1, kills=[kill], fclass="par-kill-timer")); cover["timer_kills"] += 1
    if ncases_override and ncases_override < len(specs):
        specs = rnd.sample(specs, ncases_override)
    return specs, cover

# ---------------------------------------------------------------------------------------------------------------
def setup(seed, tier):
    ctx = Ctx(seed, tier)
    ctx.bin["plain"] = CK.build("plain")
    ctx.bin["asan"] = CK.build("asan")
    ctx.shim = build_shim()
    ctx.root = os.path.join(CK.BUILD_ROOT, "tmp", "c17_%d" % os.getpid())
    shutil.rmtree(ctx.root, ignore_errors=True); os.makedirs(ctx.root)
    return ctx

def check(prop, cfg, tier, seed, ncases_override=None):
    t0 = time.time()
    ctx = setup(seed, tier)
    try:
        specs, cover = plan(ctx, ncases_override)
        res = CK.Result()
        # the uninterrupted runs are cases too (fault class none)
        allv = []
        for (scen, par), dry in sorted(ctx.dry.items()):
            v = dict(dry["verdict"]); v["spec"] = dict(type="dry", scen=scen, par=par); v["index"] = -1; allv.append(v)
        with ThreadPoolExecutor(CK.JOBS) as ex:
            allv += list(ex.map(lambda t: execute(ctx, t[1], t[0]), list(enumerate(specs))))
        for v in allv:
            res.evaluations += 1
            for k, n in v["counters"].items(): res.add_counter(k, n)
            res.add_counter("faults:" + v["spec"]["type"] + (":par" if v["spec"].get("par") else "") + (":" + v["spec"]["variant"] if v["spec"].get("variant") in ("asan", "valgrind") else ""), 1)
            if v["viols"]:
                res.viol_cases += 1
                for x in v["viols"]:
                    res.violations.append(dict(index=v["index"], key=x["key"], detail=x["detail"], descriptor=v["descriptor"], variant=v["variant"], replay=dict(spec=v["spec"])))
            elif v["status"] == "ok":
                res.ok += 1
                for s in v["sigs"]: res.sigs.add(s)
                if len(res.samples) < 6 and v["descriptor"] and v["spec"]["type"] != "dry":
                    try: res.samples.append({"index": v["index"], "case": json.loads(v["descriptor"]), "fault": v["spec"], "observed": v["sigs"][:1]})
                    except Exception: pass
            else:
                res.inc += 1
        counts = {}
        for x in res.violations: counts[x["key"]] = counts.get(x["key"], 0) + 1
        exhaustive = (tier == "thorough")
        extra = dict(exhaustive=bool(exhaustive), exhaustive_scope=dict(sequential_op_kill_points=exhaustive, note="thorough: every intercepted operation of every sequential scenario x {before, after} and every write x torn at {1, mid, len-1, seeded}; every prefix length of the sampled snapshot pairs up to 4 KB. quick: all operations of the first three and the last two checkpoints plus a seeded sample; prefixes thinned to ~2600 keeping every section boundary. parallel mode and chains are sampled in both tiers."),
                     fault_space=cover, violation_counts=dict(sorted(counts.items())))
        return CK.finish(prop, tier, seed, cfg.get("level", "fault_enumeration"), res, RULE, t0, extra_cov=extra, assumptions=cfg.get("assumptions"),
                         min_nontrivial=cfg.get("min_nontrivial", 20))
    finally:
        if not os.environ.get("C17_KEEP"): shutil.rmtree(ctx.root, ignore_errors=True)

def replay(rec):
    spec = rec.get("spec")
    if not spec: print("replay: record has no fault spec"); return 2
    ctx = setup(rec["seed"], rec.get("tier", "quick"))
    os.environ["C17_KEEP"] = "1"
    print("replaying fault spec: " + json.dumps(spec))
    if spec["type"] == "dry":
        v = dry_run(ctx, spec["scen"], spec["par"])["verdict"]
    else:
        v = execute(ctx, spec, 0)
    print("descriptor: %s" % v["descriptor"])
    for x in v["viols"]: print("V %s %s" % (x["key"], x["detail"]))
    print("work directory kept: " + ctx.root)
    bad = bool(v["viols"])
    print("replay verdict: %s" % ("violation reproduced" if bad else "no violation on this tree"))
    return 1 if bad else 0
