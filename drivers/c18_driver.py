"""C18 driver: the same seeded workload on the `tsan` variant (hooks on, ThreadSanitizer reports collected from per-case log files)
and on the `asan` variant.  TSan runs with halt_on_error=0; the harness points the report path at <logdir>/c18.<seed>.<case> before
every case (sanitizer API __sanitizer_set_report_path), the runtime appends .<pid>.  Report blocks are parsed here, attributed to the
case, classified and de-duplicated:
  * a report is a *library* violation when at least one of its stacks has a frame inside the repository (/SparseGrids/, /Addons/, /DREAM/
    or the repo worktree) and the two accesses are not both made directly by harness code; key = tsan:<kind>:<f1>|<f2> where f1, f2 are
    the first in-repo frames (function@file, no line numbers, no template arguments) of the first two stacks of the report;
  * a report whose accesses are both made by harness code (callbacks / monitor) is a harness bug: HARNESS-FAILURE, exit 2.
"""
import os, re, sys, json, time, glob, shutil, subprocess

def _check():
    m = sys.modules.get("__main__")
    if m is not None and hasattr(m, "run_cases") and hasattr(m, "finish"): return m
    import check
    return check

REPO = os.environ.get("TSG_VERIF_REPO", "/repo")
HERE = os.path.dirname(os.path.dirname(os.path.abspath(__file__)))
EXIT_DEADLOCK = 97

FRAME = re.compile(r"^\s+#(\d+) (.+?) (\S+?):(\d+)(?::\d+)? \(")
FRAME_NOSRC = re.compile(r"^\s+#(\d+) (.+?) (\S+) \(")
HEAD = re.compile(r"^WARNING: ThreadSanitizer: (.+?) \(pid=\d+\)")

def in_repo(path):
    real = os.path.realpath(REPO)
    return ("/SparseGrids/" in path or "/Addons/" in path or "/DREAM/" in path or path.startswith(REPO + "/") or path.startswith(real + "/"))

def in_harness(path):
    return "/harness/" in path and not in_repo(path)

def is_user(path):
    return in_repo(path) or in_harness(path)

def simplify(fn):
    fn = re.sub(r"\[with .*", "", fn)
    # drop template argument lists and parameter lists (nested)
    for _ in range(8):
        n = re.sub(r"<[^<>]*>", "", fn)
        n = re.sub(r"\([^()]*\)", "", n)
        if n == fn: break
        fn = n
    fn = fn.replace("{lambda#", "{lambda").replace(" const", "").strip()
    fn = re.sub(r"\s+", "", fn)
    return fn[-90:]

def parse_reports(text):
    """returns list of dicts(kind, stacks=[[(fn, path, line)]], raw)"""
    reports = []
    blocks = text.split("==================")
    for b in blocks:
        lines = b.strip("\n").split("\n")
        kind = None
        for l in lines:
            m = HEAD.match(l)
            if m: kind = m.group(1); break
        if not kind: continue
        stacks = []; cur = None; titles = []
        for l in lines:
            if re.match(r"^  \S", l) and l.rstrip().endswith(":"):
                cur = []; stacks.append(cur); titles.append(l.strip()); continue
            m = FRAME.match(l)
            if m and cur is not None:
                cur.append((m.group(2), m.group(3), int(m.group(4)))); continue
            m = FRAME_NOSRC.match(l)
            if m and cur is not None:
                cur.append((m.group(2), m.group(3), 0)); continue
            if not l.strip(): cur = None
        reports.append(dict(kind=kind, stacks=stacks, titles=titles, raw=b.strip("\n")))
    return reports

def classify(rep):
    kind = re.sub(r"\s*\(.*", "", rep["kind"]).strip().replace(" ", "-")
    # access stacks: for a data race the two conflicting accesses; for every other kind (use-after-free, thread leak, lock-order
    # inversion, ...) only the first stack identifies the defect (the "freed by"/"created by" stacks vary from run to run).
    # "Thread Tn created by", "Location is", "Mutex Mn" stacks are context.
    pairs = list(zip(rep["stacks"], rep["titles"]))
    acc = [s for s, t in pairs if not re.match(r"(Thread T\d+|Location is|Mutex M\d+|As if synchronized)", t)]
    acc = (acc[:2] if kind == "data-race" else acc[:1]) if acc else rep["stacks"][:1]
    loc = [s for s, t in pairs if t.startswith("Location is")]
    # the memory was allocated by library code (e.g. the y buffer handed to the model): innermost user frame of the allocation stack is in the repo
    library_owned = False
    for s in loc:
        u = next((p for (_, p, _) in s if is_user(p)), None)
        if u is not None and in_repo(u): library_owned = True
    any_repo = any(in_repo(p) for s in rep["stacks"] for (_, p, _) in s)
    tops = []        # innermost user frame of every access stack
    repo_tops = []   # first in-repo frame of every access stack
    for s in acc:
        u = next(((f, p) for (f, p, _) in s if is_user(p)), None)
        r = next(((f, p) for (f, p, _) in s if in_repo(p)), None)
        tops.append(u); repo_tops.append(r)
    harness_only = bool(tops) and all(t is not None and in_harness(t[1]) for t in tops) and not library_owned
    if not any_repo and not any(t for t in tops):
        return "other", "tsan-other:" + kind
    if harness_only and kind == "data-race":
        names = sorted(simplify(t[0]) + "@" + os.path.basename(t[1]) for t in tops)
        return "harness", "tsan-harness:" + kind + ":" + "|".join(names)
    names = []
    for r in repo_tops:
        names.append((simplify(r[0]) + "@" + os.path.basename(r[1])) if r else "-")
    if kind == "data-race":
        while len(names) < 2: names.append("-")
        names = sorted(names[:2])
    if names == ["-"] or not names:
        # no in-repo frame in the access stack itself: fall back to the first in-repo frame anywhere in the report
        r = next(((f, p) for s in rep["stacks"] for (f, p, _) in s if in_repo(p)), None)
        names = [(simplify(r[0]) + "@" + os.path.basename(r[1])) if r else "-"]
    return "library", "tsan:" + kind + ":" + "|".join(names)

def collect_tsan(logdir, seed, descriptors):
    """-> (violations, harness_bugs, nreports)"""
    viol = []; bugs = []; n = 0; seen = set()
    for path in sorted(glob.glob(os.path.join(logdir, "c18.%d.*" % seed))):
        base = os.path.basename(path).split(".")
        try: index = int(base[2])
        except Exception: continue
        try: text = open(path, errors="replace").read()
        except Exception: continue
        for rep in parse_reports(text):
            n += 1
            cls, key = classify(rep)
            if (key, index) in seen: continue
            seen.add((key, index))
            rec = dict(index=index, key=key, detail=json.dumps({"report": rep["raw"][:6000]}), descriptor=descriptors.get(index), variant="tsan")
            (bugs if cls == "harness" else viol).append(rec)
    return viol, bugs, n

def merge(dst, src):
    dst.evaluations += src.evaluations; dst.ok += src.ok; dst.inc += src.inc; dst.viol_cases += src.viol_cases; dst.hangs += src.hangs
    for k, v in src.counters.items(): dst.add_counter(k, v)
    dst.violations.extend(src.violations)
    for s in src.samples:
        if len(dst.samples) < 6: dst.samples.append(s)

def drop_deadlock_exit(res):
    """the in-process watchdog reports the deadlock (V line) and leaves with _exit(97): drop the companion crash:exit:97 entry"""
    dl = set(v["index"] for v in res.violations if v["key"].startswith("deadlock:"))
    res.violations = [v for v in res.violations if not (v["key"].startswith("crash:exit:%d" % EXIT_DEADLOCK) and v["index"] in dl)]
    return dl

CRASH_FRAME = re.compile(r"#\d+ 0x[0-9a-f]+ in (.+?) (/\S+?):(\d+)")
def fix_crash_keys(res):
    """check.py keys a crash by the first frame under /repo/; this repo may live in a worktree: redo the frame search with in_repo()"""
    for v in res.violations:
        if not (v["key"].startswith("crash:") and v["key"].endswith(":?")): continue
        try: text = json.loads(v["detail"]).get("stderr", "")
        except Exception: continue
        for m in CRASH_FRAME.finditer(text):
            if in_repo(m.group(2)):
                v["key"] = v["key"][:-1] + simplify(m.group(1)) + "@" + os.path.basename(m.group(2)); break

def check(prop, cfg, tier, seed, ncases_override=None):
    ck = _check()
    t0 = time.time()
    q, th = cfg["cases"]
    n = ncases_override or (th if tier == "thorough" else q)
    n_asan = max(1, int(n * cfg.get("asan_fraction", 0.5)))
    logdir = os.path.join(ck.BUILD_ROOT, "tmp", "c18-tsan-%d-%d" % (seed, os.getpid()))
    shutil.rmtree(logdir, ignore_errors=True); os.makedirs(logdir, exist_ok=True)
    env = dict(cfg.get("env") or {}); env["VF_TSAN_LOGDIR"] = logdir
    # 1. tsan variant: behavioural oracles + race detector
    res = ck.run_cases(prop, "tsan", n, tier, seed, timeout=cfg.get("timeout", 60), chunk=cfg.get("chunk", 10), extra_args=cfg.get("args", ()), extra_env=env)
    deadlocked = drop_deadlock_exit(res)
    fix_crash_keys(res)
    tsan_sigs = set(res.sigs)
    descriptors = {}
    for v in res.violations: descriptors.setdefault(v["index"], v.get("descriptor"))
    tv, bugs, nrep = collect_tsan(logdir, seed, descriptors)
    # a case that the deadlock watchdog left with _exit() has live threads by construction: the "thread leak" report is the same finding
    tv = [v for v in tv if not (v["key"].startswith("tsan:thread-leak") and v["index"] in deadlocked)]
    res.violations.extend(tv)
    res.add_counter("tsan_reports_parsed", nrep)
    res.add_counter("tsan_cases", res.evaluations)
    # 2. asan variant: same cases (same seed and indices => same inputs, other schedules)
    res_a = ck.run_cases(prop, "asan", n_asan, tier, seed, timeout=cfg.get("timeout", 60), chunk=cfg.get("chunk", 10), extra_args=cfg.get("args", ()), extra_env=cfg.get("env"))
    drop_deadlock_exit(res_a)
    fix_crash_keys(res_a)
    res.add_counter("asan_cases", res_a.evaluations)
    merge(res, res_a)
    res.sigs = tsan_sigs | set(res_a.sigs)
    extra = dict(distinct_interleavings_tsan=len(tsan_sigs), distinct_interleavings_asan=len(res_a.sigs), tsan_reports_parsed=nrep,
                 variants=["tsan", "asan"], tsan_log_dir=logdir)
    rc = ck.finish(prop, tier, seed, cfg.get("level", "exploration"), res, cfg["rule"], t0, extra_cov=extra, assumptions=cfg.get("assumptions"),
                   min_nontrivial=cfg.get("min_nontrivial", 2))
    if bugs:
        for b in bugs[:5]:
            print("HARNESS-FAILURE: ThreadSanitizer report inside the harness' own callbacks (case %d): %s" % (b["index"], b["key"]))
            sys.stderr.write(json.loads(b["detail"])["report"][:3000] + "\n")
        return 2
    if rc == 0: shutil.rmtree(logdir, ignore_errors=True)
    return rc

def replay(rec):
    """re-executes the recorded case (same variant, seed, index); schedule-dependent findings are retried a few times"""
    ck = _check()
    prop = rec["property"]; variant = rec.get("variant") or "tsan"
    cfg = ck.PROPS[prop]
    tsgmon = ck.build(variant)
    env = dict(os.environ); env.update(ck.SAN_ENV.get(variant, {}))
    tmpd = os.path.join(ck.BUILD_ROOT, "tmp"); os.makedirs(tmpd, exist_ok=True); env["VF_TMPDIR"] = tmpd
    if cfg.get("env"): env.update(cfg["env"])
    logdir = os.path.join(tmpd, "c18-replay-%d" % os.getpid())
    shutil.rmtree(logdir, ignore_errors=True); os.makedirs(logdir, exist_ok=True)
    env["VF_TSAN_LOGDIR"] = logdir
    args = [tsgmon, prop, str(rec["seed"]), str(rec["index"]), "1"] + (["thorough"] if rec.get("tier") == "thorough" else []) + list(cfg.get("args", ()))
    print("replaying: " + " ".join(args))
    want = rec.get("key", "")
    tries = 20 if (want.startswith("tsan:") or want.startswith("deadlock:") or want.startswith("protocol:")) else 3
    bad = False
    for attempt in range(tries):
        try:
            r = subprocess.run(args, env=env, stdout=subprocess.PIPE, stderr=subprocess.PIPE, text=True, timeout=300, errors="replace")
        except subprocess.TimeoutExpired:
            print("replay: case did not finish within 300 s (hang reproduced)"); bad = True; break
        vl = [l for l in r.stdout.splitlines() if l.startswith("V ")]
        tv, bugs, _ = collect_tsan(logdir, int(rec["seed"]), {}) if variant == "tsan" else ([], [], 0)
        if vl or tv or (r.returncode not in (0, 66)):
            sys.stdout.write(r.stdout); sys.stdout.write(r.stderr[-3000:])
            for v in tv: print("TSAN %s\n%s" % (v["key"], json.loads(v["detail"])["report"][:3000]))
            bad = True; print("(attempt %d)" % (attempt + 1)); break
    shutil.rmtree(logdir, ignore_errors=True)
    print("replay verdict: %s" % ("violation reproduced" if bad else "no violation on this tree in %d attempts" % tries))
    return 1 if bad else 0
