import c12_driver
PROPS = {
    "C12": dict(variant="tsan", cases=(70, 700), timeout=45, chunk=1, level="exploration", min_nontrivial=30,
                driver=c12_driver.driver,
                rule="case = one grid state reached by a random legal history of 0..5 (thorough 0..7) steps on a random configuration (all five families, "
                     "custom-tabulated rules, transforms, conformal maps, limits, 0..3 outputs; state classes fresh / loaded / pending refinement / merged / "
                     "coefficients overwritten / active construction / zero outputs, each also as an object read back from a binary or ASCII stream; 15% of the "
                     "cases are forced to the wavelet family). Two identical fresh objects are derived the same way: T gives the sequential reference of every call "
                     "of a pool of 20-35 distinct legal const calls (evaluate / evaluateFast / evaluateBatch vector, raw, float and EvaluateCallable forms, "
                     "interpolation / quadrature / differentiation weights, integrate, differentiate, dense and sparse hierarchical functions, basis integrals, "
                     "supports, point / index / value / coefficient getters, write binary and ASCII and printStats to a private stream, getDomainInside, "
                     "getGlobalPolynomialSpace, estimateAnisotropicCoefficients, copy constructor and copyGrid from the shared object); then, R = 6 (thorough 12) "
                     "times, 4-8 threads released from a spin barrier with random start skews each execute a random multiset of 20-60 pool calls on the shared "
                     "const object S (a fresh S - cold caches - in 3 of 4 repetitions, the warm S of the previous repetition otherwise), every result compared "
                     "bitwise with the reference, write(S) compared with write(T) afterwards, under ThreadSanitizer whose reports are parsed from per-repetition "
                     "log files; non-trivial = a repetition in which at least two threads' call sequences overlapped by the logical clock; distinct = distinct "
                     "(family, state class, thread count) among those",
                assumptions=["ThreadSanitizer (gcc 12 libtsan) sees every access of the instrumented library and harness; libstdc++ itself is not instrumented",
                             "schedules are the ones the OS produces on this machine (6 worker processes x 4-8 threads); they are sampled, not enumerated",
                             "the library is built without OpenMP / BLAS / GPU back-ends (accel_none is the only mode available), as the property states"]),
}
