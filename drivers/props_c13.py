import c13_driver
PROPS = {
    "C13": dict(variant="asan", cases=(24, 120), timeout=900, chunk=1, level="exploration", min_nontrivial=12,
                driver=c13_driver.driver,
                rule="case = one script, a pure function of (seed, index): index mod 8 selects the kind (local polynomial twice, global, Fourier, wavelet, "
                     "sequence, ParticleSwarm, random family); a grid script draws a configuration (rule, dims 2..4, outputs, selection type, anisotropic "
                     "weights, alpha/beta, order, level limits, domain transform, conformal map), grows the depth until a point cap of 2200..5000 is reached "
                     "(one script in five is small, 200..900) and applies 3..5 (thorough 5..7) legal steps: load first, then a point-selecting step (anisotropic "
                     "/ surplus refinement with every criterion, update, dynamic construction), then random steps (reload, merge, clear, coefficient overwrite, "
                     "candidate lists and partial deliveries); after every step the full observation is recorded (points, indexes, needed sets, values, "
                     "coefficients, quadrature weights, basis integrals, supports, polynomial spaces, surrogate / gradient / interpolation and differentiation "
                     "weights / basis values at probes, evaluateBatch at 96 points, sparse basis matrices at 96 points, C-interface batch interpolation "
                     "weights, anisotropy estimates, candidate lists); a swarm script runs 2..4 segments of 1..12 iterations with 8..4000 particles. Every "
                     "script runs once in the serial build and 11 times (thorough 16) in the OpenMP build under the thread settings listed in the evidence; "
                     "a third of the scripts also run under clang+libomp+Archer+TSan at 4 and 8 threads. non-trivial = at least one OpenMP "
                     "run was compared step by step with the serial run; distinct = distinct (configuration signature | operation sequence)",
                assumptions=["schedules are the ones the OS produced for the listed thread settings (oversubscription, dynamic adjustment, spinning vs sleeping waits, "
                             "8 threads squeezed onto 2 CPUs); there is no controlled scheduler",
                             "the serial reference is the g++ -O1 ASan+UBSan build without OpenMP, the OpenMP build is g++ -O2 -fopenmp with libgomp: a difference "
                             "caused by the optimisation level alone would be reported as a difference between the builds",
                             "ThreadSanitizer sees only races between accesses that actually execute in the sampled runs; libomp itself is not instrumented "
                             "(ignore_noninstrumented_modules=1) and Archer supplies the OpenMP synchronisation semantics"]),
}
