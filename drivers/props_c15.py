# C15 - DREAM sampling: memory safety, domain, books, single Metropolis transitions, split runs = combined run
PROPS = {
    "C15": dict(variant="asan", cases=(3000, 40000), timeout=60, chunk=25, level="exploration", min_nontrivial=300,
                rule="case = one sampling problem (chains 0..8 [thorough ..12], dims 1..4 [..6], regular/log form, C++ template or C interface tsgDreamSample, "
                     "independent update: built-in uniform / gaussian / none, no_update, user rule; differential update: const_one, const_percent<p>, user constant "
                     "(0, negative, >1), user random; domain: TasDREAM::hypercube, ball, everything, islands with holes, only the initial points, "
                     "grid.getDomainInside(), half space; pdf: gaussian, bimodal with a zero region, hashed magnitudes with zeros, five discrete levels, constant, "
                     "extreme magnitudes, posterior() of user model/likelihood/prior, of the library's Gaussian likelihoods, of a merged model) x one random stream in the "
                     "closed interval [0,1] (ordinary, all 0.0, all 1.0, one draw position of the first two iterations forced to exactly 0.0 or 1.0, sprinkled "
                     "endpoints / 1-ulp / denormal, lattice m/n) x a run plan (burn-up 0 in 65% of the cases, 1..3 collecting segments, then the combined run from the same "
                     "initial state under the same streams).  Every SampleDREAM call is replayed from the callback event log through the reference model of one DREAM "
                     "iteration and compared bitwise with getHistory/getHistoryPDF/getChainState/getPDFvalue/getAcceptanceRate; the library and the harness run under "
                     "ASan+UBSan.  non-trivial = at least one iteration was executed and the whole log was explained by the model; distinct = distinct "
                     "(chains, dims, form, api, update, differential, domain, pdf, stream kind, burn-up?, segments) tuples"),
}
