import c16_driver
PROPS = {
    "C16": dict(variant="asan", cases=(1500, 12000), timeout=300, chunk=5, level="translation_validation", min_nontrivial=60,
                driver=c16_driver.driver,
                rule="case = one script: a seeded generator draws a grid configuration (family, rule, dims, outputs, depth, type, anisotropic weights, "
                     "alpha/beta, order, level limits, domain transform, conformal map, custom-tabulated rule) and then 3..8 tasgrid invocations that are legal "
                     "for the current state of the grid by the documentation of the corresponding API calls (make*, makequadrature, makeexoquad, makeupdate, "
                     "setconformal, get points/needed/quadrature/indexes/support/poly/coefficients/anisotropy, summary, using-construct, loadvalues, evaluate, "
                     "integrate, differentiate, interpolation/differentiation weights, dense/sparse hierarchical functions, the three refinement commands with all "
                     "refinement types, cancel/merge, construction candidates/load, setcoefficients), random long/short spellings of commands and options, random "
                     "ASCII/binary/MATLAB-style input matrices, -ascii or binary output per step, -of and/or -print. Every step runs the real asan tasgrid and the "
                     "documented API call sequence on the harness' own object. non-trivial = at least one step was accepted by the tool and compared; "
                     "distinct = distinct (configuration signature | sequence of (command, format))",
                assumptions=["the grid-file writer of the library is deterministic for equal objects (both sides use the same library build)",
                             "MATLAB wrappers themselves are not executed (no MATLAB/Octave on this machine); their command lines are imitated by the generator",
                             "GPU options (-gpuid) are not applicable on this machine"]),
}
