import c17_driver

PROPS = {
    "C17": dict(variant="plain", driver=c17_driver, level="fault_enumeration", min_nontrivial=20, timeout=120,
                rule=c17_driver.RULE,
                assumptions=[
                    "process kills only (SIGKILL at an intercepted operation, inside a write, or at a timer): the page cache survives, so every byte a completed write() handed to the kernel is in the file; power-loss reordering of data/metadata is not produced",
                    "the operations are those glibc/libstdc++ issue for std::ofstream/std::ifstream on the two documented names (fopen -> openat, write/writev, fclose -> close); a torn write is a prefix of one write() call",
                    "saved(last completed checkpoint) is a lower bound: points the library reads from the shim's snapshot of the main file (loaded + stored samples) plus, in sequential mode, every point whose evaluation had returned before that snapshot was written; parked construction samples are visible only through the second part",
                    "a checkpoint has completed when a stream that was opened for writing on the main file and wrote at least one byte has been closed (or the main file was replaced by rename)",
                ]),
}
