import c18_driver

PROPS = {
    "C18": dict(
        driver=c18_driver, variant="tsan", cases=(2500, 25000), asan_fraction=1.0, timeout=60, chunk=10, level="exploration", min_nontrivial=40,
        rule="case = one call of parallel/sequential constructSurrogate (72%: all five grid families through the three overloads, 1..8 workers, "
             "max_samples_per_job 1..4, budget classes {below the loaded points, fewer than workers, workers x batch, medium, larger than the candidate pool}, "
             "tolerance reached before budget, with/without initial guess, pre-loaded or empty grid, level limits in the call or in the grid, domain transforms) "
             "or one call of loadNeededValues/loadNeededPoints (28%: 0..16 threads on 1..200 points of any grid family, overwrite_loaded on/off, array and vector "
             "overloads, fresh or refined state); model latency profile in {zero, uniform, one slow worker, bursty, coarse points slowest}; seeded yields/sleeps (0-200 us) injected at "
             "the guarded schedule points in {none, light, heavy, focused on one point}.  The model callback is the monitor (relaxed atomics, thread-private "
             "buffers); after the run the merged hook trace is checked against the worker protocol / work queue, the model-call log against exactly-once, "
             "thread-id exclusivity and the budget, and the final grid against the coordinate-tagged model and the nodal-reproduction oracle; ThreadSanitizer "
             "reports are parsed from per-case logs; an in-process watchdog turns 'no event for 4 s and every live thread at a blocking point' into a deadlock "
             "witness.  The same cases run on tsan and on asan.  non-trivial = the model was called or values were checked; "
             "distinct = distinct hash of the merged per-run event sequence (tag, arguments) = distinct observed interleaving",
        assumptions=["interleavings are sampled (OS scheduler + seeded delay injection), not enumerated",
                     "the event order of the merged trace is the order of a relaxed atomic counter: exact for events emitted under the library's mutex, approximate otherwise"],
        args=(), env={}),
}
