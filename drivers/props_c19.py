# C19 - GradientDescent returns its best accepted iterate within the iteration cap (runtime monitor, asan variant)
PROPS = {
    "C19": dict(variant="asan", cases=(2000, 20000), timeout=120, chunk=10, level="exploration", min_nontrivial=200,
                rule="case = one optimisation problem (objective/gradient pair: convex quadratic with condition number 1..1e6, Rosenbrock chain / "
                     "double well, smooth convex non-quadratic, non-convex trigonometric; dims 1..4 (thorough ..6); projection: none, identity, "
                     "box, ball, half-space; feasible or infeasible start; initial step-size 1e-3..1e3, increase/decrease coefficients, "
                     "tolerance incl. 0 and huge) solved with EVERY iteration cap 0,1,..,T+2 (T = trial steps needed without a binding cap, "
                     "cap_max 110 quick / 260 thorough); 20% of the cases exercise the constant step-size overload (vector and state-object "
                     "signature) with caps 0..K+2.  Every cap is one library call whose logged objective/gradient/projection calls are "
                     "replayed through the reference model.  non-trivial = at least one cap landed inside a line search (adaptive) / the case "
                     "was decided (constant); distinct = distinct (variant | objective | dims | projection | feasibility | T/10 | number of "
                     "caps inside a line search / 4 | converged | log10 cond) signatures"),
}
