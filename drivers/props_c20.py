# C20 - ParticleSwarm only evaluates inside the domain and tracks the true best (runtime monitor with a shadow model, asan variant)
PROPS = {
    "C20": dict(variant="asan", cases=(6000, 40000), timeout=120, chunk=50, level="exploration", min_nontrivial=200,
                rule="case = one swarm (objective: sphere / Rastrigin / Rosenbrock / linear / plateau with exact ties / sphere at the origin; domain: "
                     "everything, box cutting the initial box, ball, half-space, complement of a ball, box disjoint from the whole initial swarm, "
                     "empty; dims 1..4 (thorough ..6), 1..20 (thorough ..40) particles, inertia/cognitive/social coefficients incl. 0; initialised "
                     "by initializeParticlesInsideBox, by the (pp,pv) constructor, by the setters, or left uninitialised) and a script of 1..4 run "
                     "segments (0..8, thorough ..12 iterations each) separated by ONE class of state edits per case (none, clearCache, "
                     "clearBestParticles, both, setParticlePositions (or a re-initialisation inside the box) with/without clearCache or with clearBestParticles, setParticleVelocities, "
                     "setBestParticlePositions with/without clearCache, new objective/domain + clearCache, or a free mix).  Three copies of the "
                     "state run every segment one iteration per call (shadow model checked after every call), split into several calls, and in "
                     "one call, with identical random streams, and are compared bitwise.  non-trivial = at least one iteration and one in-domain "
                     "evaluation (or a domain that excludes the whole swarm); distinct = distinct (objective | domain | dims | particle bucket | "
                     "script shape | some particle never inside | evaluated) signatures"),
}
