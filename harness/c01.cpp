#include <set>
// C01 - the interpolant reproduces the loaded model values at every loaded point
#include "monitors.hpp"

namespace vf{

// per-family calibration constants (multiples of machine epsilon times the conditioning estimate); see DESIGN.md "Tolerances"
static double tol_const(TasmanianSparseGrid const &g){
    if (g.isWavelet()) return 1e5;   // iterative sparse solve with relative tolerance 1e-12 (see tsgLinearSolvers)
    return 2e3;
}

std::vector<double> interior_nudged(TasmanianSparseGrid const &g, std::vector<double> const &x){
    if (!g.isSetDomainTransfrom() && !g.isSetConformalTransformASIN()) return x;
    int d = g.getNumDimensions();
    std::vector<double> lo, hi; domain_box(g, lo, hi);
    std::vector<double> xe = x;
    for(size_t q=0; q<x.size(); q++){
        size_t j = q % (size_t) d;
        double nudge = 8.0 * std::numeric_limits<double>::epsilon() * (std::fabs(lo[j]) + std::fabs(hi[j]) + (hi[j] - lo[j]));
        if (x[q] <= lo[j] + nudge) xe[q] = lo[j] + nudge;
        if (x[q] >= hi[j] - nudge) xe[q] = hi[j] - nudge;
    }
    return xe;
}

// A wavelet grid that fails to reproduce its data is examined with dense linear algebra on the collocation matrix M(i,j) = phi_j(x_i) obtained
// from the library (evaluateHierarchicalFunctions at the loaded points), so that the report identifies *which* failure it is:
//   singular-basis-on-loaded-points : M is singular to working precision - no interpolant exists on the accepted point set
//   iterative-solver-not-converged  : M is well conditioned and a dense solve reproduces the data, the library's coefficients have a large residual
//   "" (anything else, e.g. coefficients all zero or not finite, or coefficients that solve the system but evaluation differs)
std::string wavelet_failure_class(TasmanianSparseGrid const &g){
    int n = g.getNumLoaded(), m = g.getNumOutputs();
    if (!g.isWavelet() || n == 0 || n > 1500 || g.isSetConformalTransformASIN()) return "";
    std::vector<double> x = g.getLoadedPoints(), M;
    g.evaluateHierarchicalFunctions(x, M);
    if (M.size() != (size_t) n * (size_t) n) return "";
    const double *v = g.getLoadedValues();
    const double *cf = g.getHierarchicalCoefficients();
    bool all_zero = true, finite = true; double vmax = 0.0;
    for(size_t i=0; i<(size_t) n * (size_t) m; i++){ if (cf[i] != 0.0) all_zero = false; if (!std::isfinite(cf[i])) finite = false; vmax = std::max(vmax, std::fabs(v[i])); }
    if (all_zero || !finite) return "";
    // residual of the library's coefficients
    double res_lib = 0.0;
    for(int i=0; i<n; i++) for(int k=0; k<m; k++){
        double sum = 0.0; for(int j=0; j<n; j++) sum += M[(size_t) i * (size_t) n + (size_t) j] * cf[(size_t) j * (size_t) m + (size_t) k];
        res_lib = std::max(res_lib, std::fabs(sum - v[(size_t) i * (size_t) m + (size_t) k]));
    }
    if (getenv("VF_TRACE")){ double cm=0; for(size_t i=0;i<(size_t)n*(size_t)m;i++) cm=std::max(cm,std::fabs(cf[i])); double s0=0; for(int j=0;j<n;j++) s0+=M[(size_t)j]*cf[(size_t)j*(size_t)m]; fprintf(stderr,"  max|cf|=%g (M cf)_0=%.17g v_0=%.17g\n",cm,s0,v[0]); }
    // LU with partial pivoting
    std::vector<double> A = M; std::vector<int> piv((size_t) n);
    double pmin = 1e300, pmax = 0.0;
    for(int k=0; k<n; k++){
        int p = k; for(int i=k+1; i<n; i++) if (std::fabs(A[(size_t) i * n + k]) > std::fabs(A[(size_t) p * n + k])) p = i;
        piv[(size_t) k] = p;
        if (p != k) for(int j=0; j<n; j++) std::swap(A[(size_t) k * n + j], A[(size_t) p * n + j]);
        double d = std::fabs(A[(size_t) k * n + k]);
        pmin = std::min(pmin, d); pmax = std::max(pmax, d);
        if (d == 0.0) continue;
        for(int i=k+1; i<n; i++){
            double l = A[(size_t) i * n + k] / A[(size_t) k * n + k]; A[(size_t) i * n + k] = l;
            if (l != 0.0) for(int j=k+1; j<n; j++) A[(size_t) i * n + j] -= l * A[(size_t) k * n + j];
        }
    }
    if (getenv("VF_TRACE")) fprintf(stderr, "  wavelet class: n=%d pmin=%g pmax=%g res_lib=%g vmax=%g\n", n, pmin, pmax, res_lib, vmax);
    if (pmin <= 1e-10 * pmax) return "singular-basis-on-loaded-points";
    if (pmin <= 1e-3 * pmax) return "ill-conditioned-basis-on-loaded-points"; // nearly dependent basis functions: pivot ratio of the pivoted dense LU below 1e-3
    // dense solve for output 0 and its residual
    std::vector<double> b((size_t) n);
    for(int i=0; i<n; i++) b[(size_t) i] = v[(size_t) i * (size_t) m];
    for(int k=0; k<n; k++) std::swap(b[(size_t) k], b[(size_t) piv[(size_t) k]]); // whole rows were swapped: permute first, then substitute
    for(int k=0; k<n; k++) for(int i=k+1; i<n; i++) b[(size_t) i] -= A[(size_t) i * n + k] * b[(size_t) k];
    for(int k=n-1; k>=0; k--){ for(int j=k+1; j<n; j++) b[(size_t) k] -= A[(size_t) k * n + j] * b[(size_t) j]; b[(size_t) k] /= A[(size_t) k * n + k]; }
    double res_dense = 0.0;
    for(int i=0; i<n; i++){ double sum = 0.0; for(int j=0; j<n; j++) sum += M[(size_t) i * (size_t) n + (size_t) j] * b[(size_t) j]; res_dense = std::max(res_dense, std::fabs(sum - v[(size_t) i * (size_t) m])); }
    if (getenv("VF_TRACE")) fprintf(stderr, "  wavelet class: res_dense=%g\n", res_dense);
    if (res_dense <= 1e-9 * (vmax + 1e-300) && res_lib > 1e-7 * (vmax + 1e-300)) return "iterative-solver-not-converged";
    return "";
}

std::string wavelet_weights_failure_class(TasmanianSparseGrid const &g, std::vector<double> const &xq){
    int n = g.getNumLoaded();
    if (!g.isWavelet() || n == 0 || n > 1500 || g.isSetConformalTransformASIN()) return "";
    std::vector<double> x = g.getLoadedPoints(), M, phi;
    g.evaluateHierarchicalFunctions(x, M);
    g.evaluateHierarchicalFunctions(xq, phi);
    if (M.size() != (size_t) n * (size_t) n || phi.size() != (size_t) n) return "";
    std::vector<double> w = g.getInterpolationWeights(xq);
    double pm = 0.0, res_lib = 0.0; bool finite = true;
    for(double t : phi) pm = std::max(pm, std::fabs(t));
    for(double t : w) if (!std::isfinite(t)) finite = false;
    if (!finite) return "";
    for(int j=0; j<n; j++){ double sum = 0.0; for(int i=0; i<n; i++) sum += w[(size_t) i] * M[(size_t) i * (size_t) n + (size_t) j]; res_lib = std::max(res_lib, std::fabs(sum - phi[(size_t) j])); }
    // dense LU of the transposed matrix
    std::vector<double> A((size_t) n * (size_t) n);
    for(int i=0; i<n; i++) for(int j=0; j<n; j++) A[(size_t) j * n + i] = M[(size_t) i * n + j];
    std::vector<int> piv((size_t) n); double pmin = 1e300, pmax = 0.0;
    for(int k=0; k<n; k++){
        int p = k; for(int i=k+1; i<n; i++) if (std::fabs(A[(size_t) i * n + k]) > std::fabs(A[(size_t) p * n + k])) p = i;
        piv[(size_t) k] = p;
        if (p != k) for(int j=0; j<n; j++) std::swap(A[(size_t) k * n + j], A[(size_t) p * n + j]);
        double dg = std::fabs(A[(size_t) k * n + k]); pmin = std::min(pmin, dg); pmax = std::max(pmax, dg);
        if (dg == 0.0) continue;
        for(int i=k+1; i<n; i++){ double l = A[(size_t) i * n + k] / A[(size_t) k * n + k]; A[(size_t) i * n + k] = l; if (l != 0.0) for(int j=k+1; j<n; j++) A[(size_t) i * n + j] -= l * A[(size_t) k * n + j]; }
    }
    if (pmin <= 1e-10 * pmax) return "singular-basis-on-loaded-points";
    if (pmin <= 1e-3 * pmax) return "ill-conditioned-basis-on-loaded-points"; // nearly dependent basis functions: pivot ratio of the pivoted dense LU below 1e-3
    std::vector<double> b = phi;
    for(int k=0; k<n; k++) std::swap(b[(size_t) k], b[(size_t) piv[(size_t) k]]);
    for(int k=0; k<n; k++) for(int i=k+1; i<n; i++) b[(size_t) i] -= A[(size_t) i * n + k] * b[(size_t) k];
    for(int k=n-1; k>=0; k--){ for(int j=k+1; j<n; j++) b[(size_t) k] -= A[(size_t) k * n + j] * b[(size_t) j]; b[(size_t) k] /= A[(size_t) k * n + k]; }
    double res_dense = 0.0;
    for(int j=0; j<n; j++){ double sum = 0.0; for(int i=0; i<n; i++) sum += b[(size_t) i] * M[(size_t) i * (size_t) n + (size_t) j]; res_dense = std::max(res_dense, std::fabs(sum - phi[(size_t) j])); }
    if (res_dense <= 1e-9 * (pm + 1e-300) && res_lib > 1e-7 * (pm + 1e-300)) return "iterative-solver-not-converged";
    return "";
}

double check_reproduction(TasmanianSparseGrid const &g, CaseCtx &c, Rng &rng, std::string const &prefix, std::string const &after){
    int d = g.getNumDimensions(), m = g.getNumOutputs(), n = g.getNumLoaded();
    if (n == 0 || m == 0) return 0.0;
    std::string fam = g.isGlobal() ? "global" : g.isSequence() ? "sequence" : g.isLocalPolynomial() ? "localp" : g.isWavelet() ? "wavelet" : "fourier";
    auto famx = [&]()->std::string{ std::string cls = wavelet_failure_class(g); return cls.empty() ? fam : fam + ":" + cls; };
    std::vector<double> x = g.getLoadedPoints();
    const double *v = g.getLoadedValues();
    double vmax = 0.0;
    for(size_t i=0; i<(size_t) n * (size_t) m; i++) vmax = std::max(vmax, std::fabs(v[i]));
    const double eps = std::numeric_limits<double>::epsilon();
    // conditioning estimate: Lebesgue-type sum of the library's own interpolation weights at a sample of nodes (estimate only)
    double lam = 1.0;
    {
        int samples = std::min(n, g.isWavelet() ? 3 : 12); // every wavelet weight query is an iterative transposed solve (up to 2400 iterations when it converges badly)
        for(int s=0; s<samples; s++){
            int i = (s == 0) ? 0 : rng.range(0, n - 1);
            std::vector<double> w = g.getInterpolationWeights(&x[(size_t) i * (size_t) d]);
            double sum = 0.0; for(double t : w) sum += std::fabs(t);
            lam = std::max(lam, sum);
        }
    }
    if (!std::isfinite(lam) || lam > 1e9){ c.count("skipped:ill-conditioned-basis"); return 0.0; } // e.g. Lagrange interpolation on > 500 nodes in one direction
    if (g.isGlobal()){ // the Lagrange coefficients of >= 1023 nodes in one direction over/underflow: every value is NaN, wherever the weights were sampled
        for(int j=0; j<d; j++){
            std::set<double> coords;
            for(int i=0; i<n; i++) coords.insert(x[(size_t) i * (size_t) d + (size_t) j]);
            if (coords.size() >= 1000){ c.count("skipped:ill-conditioned-basis"); return 0.0; }
        }
    }
    double tol = tol_const(g) * eps * lam * (double)(d + 1) * (vmax + 1e-300) + 1e-290;
    if (g.isWavelet()) tol += 1e-10 * vmax;
    if (g.isFourier()) tol += 4.0 * eps * (double) n * vmax; // the surrogate is a sum over all n basis functions (every one of them is non-zero at every node)
    // With a domain / conformal transform the library maps x back to canonical coordinates with rounding (the conformal inverse is a Newton
    // iteration stopped at 1e-12).  The nodes are therefore evaluated at coordinates that are off by a few ulps: (i) boundary nodes are nudged two
    // ulps towards the interior, so that the rounding cannot push them out of the support of compactly supported bases, (ii) the sensitivity of
    // the surrogate to such coordinate errors is *measured* through the library (evaluation at x +- delta) and added to the tolerance.
    std::vector<double> xe = x;
    std::vector<double> sens;
    bool tr = g.isSetDomainTransfrom(), cf = g.isSetConformalTransformASIN();
    if (tr || cf){
        std::vector<double> lo, hi; domain_box(g, lo, hi);
        // one coordinate at a time, the absolute effects summed: perturbing all coordinates at once lets the contributions cancel (seen once in
        // ~15000 grids with narrow, offset domains: measured sensitivity 100x below the actual rounding effect)
        std::vector<double> delta((size_t) d), nudge((size_t) d);
        for(int j=0; j<d; j++){
            double width = hi[(size_t) j] - lo[(size_t) j];
            delta[(size_t) j] = 16.0 * eps * (std::fabs(lo[(size_t) j]) + std::fabs(hi[(size_t) j]) + width) + (cf ? 1e-9 * width : 0.0);
            nudge[(size_t) j] = 8.0 * eps * (std::fabs(lo[(size_t) j]) + std::fabs(hi[(size_t) j]) + width);
        }
        for(int i=0; i<n; i++) for(int j=0; j<d; j++){
            size_t q = (size_t) i * (size_t) d + (size_t) j;
            if (x[q] <= lo[(size_t) j] + nudge[(size_t) j]) xe[q] = lo[(size_t) j] + nudge[(size_t) j];
            if (x[q] >= hi[(size_t) j] - nudge[(size_t) j]) xe[q] = hi[(size_t) j] - nudge[(size_t) j];
        }
        std::vector<double> y0, yp, ym;
        g.evaluateBatch(xe, y0);
        sens.assign(y0.size(), 0.0);
        for(int j=0; j<d; j++){
            std::vector<double> xp = xe, xm = xe;
            for(int i=0; i<n; i++){
                size_t q = (size_t) i * (size_t) d + (size_t) j;
                double toward = (x[q] < 0.5 * (lo[(size_t) j] + hi[(size_t) j])) ? 1.0 : -1.0;
                xp[q] = xe[q] + toward * delta[(size_t) j];
                xm[q] = xe[q] - toward * delta[(size_t) j];
                if (xm[q] < lo[(size_t) j] || xm[q] > hi[(size_t) j]) xm[q] = xe[q] + 2.0 * toward * delta[(size_t) j]; // stay inside the domain
            }
            g.evaluateBatch(xp, yp); g.evaluateBatch(xm, ym);
            for(size_t q=0; q<y0.size(); q++) sens[q] += std::max(std::fabs(yp[q] - y0[q]), std::fabs(ym[q] - y0[q]));
        }
        c.count("transformed_grids_with_measured_sensitivity");
    }
    auto tol_at = [&](int i, int k)->double{ return tol + (sens.empty() ? 0.0 : 16.0 * sens[(size_t) i * (size_t) m + (size_t) k]); };
    double worst = 0.0;
    // route 1: evaluateBatch on all loaded points at once
    std::vector<double> y;
    g.evaluateBatch(xe, y);
    if (y.size() != (size_t) n * (size_t) m){ c.viol(prefix + ":batch-size:" + fam, J().str("after", after).obj()); return 1e300; }
    for(int i=0; i<n; i++) for(int k=0; k<m; k++){
        double e = std::fabs(y[(size_t) i * (size_t) m + (size_t) k] - v[(size_t) i * (size_t) m + (size_t) k]);
        if (!(e <= tol_at(i, k))){
            c.viol(prefix + ":evaluateBatch:" + famx(), J().str("after", after).i("point", i).i("output", k).num("got", y[(size_t) i * (size_t) m + (size_t) k])
                   .num("supplied", v[(size_t) i * (size_t) m + (size_t) k]).num("tol", tol_at(i, k)).num("lebesgue", lam)
                   .vec("x", std::vector<double>(x.begin() + (long)((size_t) i * (size_t) d), x.begin() + (long)((size_t)(i + 1) * (size_t) d))).obj());
            return 1e300;
        }
        worst = std::max(worst, e / tol_at(i, k));
    }
    c.count("nodes_checked", n);
    // route 2/3: evaluate() and evaluateFast() on a sample, and a random sub-batch
    int samples = std::min(n, c.thorough ? 60 : 25);
    std::vector<double> yi((size_t) m), yf((size_t) m);
    for(int s=0; s<samples; s++){
        int i = (s < 2) ? ((s == 0) ? 0 : n - 1) : rng.range(0, n - 1);
        std::fill(yi.begin(), yi.end(), poison()); std::fill(yf.begin(), yf.end(), poison());
        g.evaluate(&xe[(size_t) i * (size_t) d], yi.data());
        g.evaluateFast(&xe[(size_t) i * (size_t) d], yf.data());
        for(int k=0; k<m; k++){
            double e1 = std::fabs(yi[(size_t) k] - v[(size_t) i * (size_t) m + (size_t) k]);
            double e2 = std::fabs(yf[(size_t) k] - v[(size_t) i * (size_t) m + (size_t) k]);
            if (!(e1 <= tol_at(i, k))){ c.viol(prefix + ":evaluate:" + famx(), J().str("after", after).i("point", i).i("output", k).num("got", yi[(size_t) k]).num("supplied", v[(size_t) i * (size_t) m + (size_t) k]).num("tol", tol).obj()); return 1e300; }
            if (!(e2 <= tol_at(i, k))){ c.viol(prefix + ":evaluateFast:" + famx(), J().str("after", after).i("point", i).i("output", k).num("got", yf[(size_t) k]).num("supplied", v[(size_t) i * (size_t) m + (size_t) k]).num("tol", tol).obj()); return 1e300; }
            worst = std::max(worst, std::max(e1, e2) / tol_at(i, k));
        }
    }
    {
        int nb = std::min(n, rng.range(1, 40));
        std::vector<double> xb, yb; std::vector<int> which;
        for(int s=0; s<nb; s++){ int i = rng.range(0, n - 1); which.push_back(i); xb.insert(xb.end(), xe.begin() + (long)((size_t) i * (size_t) d), xe.begin() + (long)((size_t)(i + 1) * (size_t) d)); }
        g.evaluateBatch(xb, yb);
        for(int s=0; s<nb; s++) for(int k=0; k<m; k++){
            double e = std::fabs(yb[(size_t) s * (size_t) m + (size_t) k] - v[(size_t) which[(size_t) s] * (size_t) m + (size_t) k]);
            if (!(e <= tol_at(which[(size_t) s], k))){ c.viol(prefix + ":evaluateBatch-sub:" + famx(), J().str("after", after).i("point", which[(size_t) s]).i("output", k).num("tol", tol).obj()); return 1e300; }
        }
    }
    return worst;
}

void mon_c01(CaseCtx &c, Rng &rng){
    GenOpts go; go.nonnested = false; go.min_outs = 1; go.max_points = c.thorough ? 1200 : 350; go.max_dims = c.thorough ? 4 : 3;
    // 5% of the cases: larger wavelet grids grown by dynamic construction (irregular point sets, the sparse iterative solver with its
    // un-pivoted ILU preconditioner is the only solver in this build)
    // another 6%: wavelet grids built from uniformly random subsets of the candidate lists (any candidate may be returned by the user in any
    // order): irregular hierarchies on which the un-pivoted ILU hits zero pivots / the iteration has to work hardest
    bool big_wavelet = rng.coin(0.11);
    bool scatter_wavelet = big_wavelet && rng.coin(0.55);
    if (big_wavelet){ go.families = (1u << fam_wavelet); go.max_points = 450; go.max_outs = 1; go.conformal = false; }
    if (scatter_wavelet){ go.max_points = 130; go.min_dims = 2; go.max_dims = 3; if (rng.coin(0.5)){ go.min_dims = 3; go.wavelet_order = 1; } } // zero pivots were seen for 3-d order 1 only
    HState h;
    if (!init_history(h, rng, go, c)){ emit_begin(c, h.cfg.json()); return; }
    emit_begin(c, h.cfg.json());
    HOpts ho; ho.set_coeffs = false; ho.max_points = go.max_points;
    int nsteps = rng.range(2, c.thorough ? 10 : 7);
    if (big_wavelet){ ho.construction_bias = 8.0; ho.max_points = 700; nsteps = rng.range(6, 10); }
    if (scatter_wavelet){ ho.construction_bias = 60.0; ho.scatter_candidates = 0.85; nsteps = rng.range(7, 12); c.count("wavelet_scatter_construction_cases"); }
    double worst = 0.0;
    int supplying = 0;
    bool only_stable = true, constructed = false;
    for(int i=0; i<nsteps; i++){
        Step s = choose_step(h, rng, ho);
        if (s.kind == Step::none) break;
        if (s.kind == Step::surplus_loc && s.scale_mode) s.scale_mode = 0; // scale corrections are C07's subject
        std::string err = apply_step(h.g, s, &h);
        if (!err.empty()){ c.viol("step-exception:" + s.name() + ":" + err.substr(0, err.find(':')), J().str("what", err).kv("step", s.json()).obj()); return; }
        if (s.kind == Step::surplus_loc && s.crit != refine_stable) only_stable = false;
        if (s.kind == Step::begin_c) constructed = true;
        if (!check_shadow(h, c, "shadow", s.name())) return;
        if (h.g.getNumPoints() > (c.thorough ? 2 : 4) * go.max_points) break; // thorough: 4141-point 4-d Global grids cost 40 s per supplying step under ASan (5.5 min per case: watchdog)
        if (h.g.isWavelet() && h.g.getNumPoints() > 1000) break; // the un-pivoted ILU is O(n^2 nnz_row): minutes per factorization under ASan beyond this
        bool supplies = (s.kind == Step::load || s.kind == Step::reload || s.kind == Step::cand_load || s.kind == Step::finish_c);
        if (!supplies || h.g.getNumLoaded() == 0) continue;
        if (h.g.isLocalPolynomial()){
            int ok = all_parents_loaded(h.g);
            if (ok == -1) ok = (only_stable && !constructed) ? 1 : 0;
            if (ok != 1){ c.count("skipped:incomplete-hierarchy"); continue; }
            c.count(h.g.getNumDimensions() <= 2 ? "localp:dag-path" : "localp:kronecker-or-dag");
        }
        double w = check_reproduction(h.g, c, rng, "reproduce", s.name());
        if (w >= 1e300) return;
        worst = std::max(worst, w);
        supplying++;
    }
    if (supplying == 0){ c.inconc("no-value-supplying-step"); return; }
    c.count("value_supplying_steps", supplying);
    c.counters["max_scaled_error_ppm"] = std::max(c.counters["max_scaled_error_ppm"], (long long)(worst * 1e6));
    std::string tr; for(auto const &t : h.trace) tr += t.substr(0, 3) + ".";
    c.sig(h.cfg.sig() + "|" + tr);
}

} // namespace vf
