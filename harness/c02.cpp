// C02 - quadrature is exact on the polynomial space the grid declares (and on the trigonometric modes of Fourier grids)
#include "monitors.hpp"

namespace vf{

static const double EPS2 = std::numeric_limits<double>::epsilon();

// Test functions: instead of raw monomials the monitor integrates the orthogonal polynomials of the DOCUMENTED weight function of the rule.
// The declared space is a lower set of monomial multi-degrees, hence it is also spanned by the tensor products of any 1-D polynomial families
// p_0, p_1, ... with deg p_k = k; for the orthogonal family the exact integral is mu_0 for k = 0 and exactly 0 otherwise, which needs no
// high-precision moment computation and is perfectly conditioned.  Everything below is written from the documentation of TypeOneDRule.
enum WFam{ w_jacobi, w_laguerre, w_hermite };
struct Weight{ WFam fam; double alpha, beta; };

static Weight weight_of(TasmanianSparseGrid const &g){
    TypeOneDRule r = g.getRule();
    switch(r){
        case rule_gausschebyshev1: case rule_gausschebyshev1odd: return {w_jacobi, -0.5, -0.5};
        case rule_gausschebyshev2: case rule_gausschebyshev2odd: return {w_jacobi, 0.5, 0.5};
        case rule_gaussgegenbauer: case rule_gaussgegenbauerodd: return {w_jacobi, g.getAlpha(), g.getAlpha()};
        case rule_gaussjacobi: case rule_gaussjacobiodd: return {w_jacobi, g.getAlpha(), g.getBeta()};
        case rule_gausslaguerre: case rule_gausslaguerreodd: return {w_laguerre, g.getAlpha(), 0.0};
        case rule_gausshermite: case rule_gausshermiteodd: return {w_hermite, g.getAlpha(), 0.0};
        default: return {w_jacobi, 0.0, 0.0}; // constant weight on [-1, 1]
    }
}
// values p_0(t) .. p_n(t) of the orthogonal polynomials of the weight (three-term recurrences)
static void ortho_values(Weight const &w, int n, double t, std::vector<double> &p){
    p.assign((size_t) n + 1, 0.0);
    p[0] = 1.0;
    if (n == 0) return;
    double a = w.alpha, b = w.beta;
    if (w.fam == w_jacobi){ // P_k^{(a,b)}, weight (1-t)^a (1+t)^b
        p[1] = 0.5 * ((a - b) + (a + b + 2.0) * t);
        for(int k=1; k<n; k++){
            double c = 2.0 * k + a + b;
            double c1 = 2.0 * (k + 1.0) * (k + a + b + 1.0) * c;
            double c2 = (c + 1.0) * (a * a - b * b);
            double c3 = c * (c + 1.0) * (c + 2.0);
            double c4 = 2.0 * (k + a) * (k + b) * (c + 2.0);
            p[(size_t) k + 1] = ((c2 + c3 * t) * p[(size_t) k] - c4 * p[(size_t) k - 1]) / c1;
        }
    }else if (w.fam == w_laguerre){ // L_k^{(a)}, weight t^a exp(-t)
        p[1] = 1.0 + a - t;
        for(int k=1; k<n; k++) p[(size_t) k + 1] = ((2.0 * k + 1.0 + a - t) * p[(size_t) k] - (k + a) * p[(size_t) k - 1]) / (k + 1.0);
    }else{ // monic generalized Hermite, weight |t|^a exp(-t^2): P_{k+1} = t P_k - lambda_k P_{k-1}, lambda_{2m} = m, lambda_{2m+1} = m + (a+1)/2
        p[1] = t;
        for(int k=1; k<n; k++){
            double lam = (k % 2 == 0) ? 0.5 * k : 0.5 * (k - 1) + 0.5 * (a + 1.0);
            p[(size_t) k + 1] = t * p[(size_t) k] - lam * p[(size_t) k - 1];
        }
    }
}
static double mu0(Weight const &w){
    if (w.fam == w_jacobi) return std::exp((w.alpha + w.beta + 1.0) * std::log(2.0) + std::lgamma(w.alpha + 1.0) + std::lgamma(w.beta + 1.0) - std::lgamma(w.alpha + w.beta + 2.0));
    if (w.fam == w_laguerre) return std::tgamma(w.alpha + 1.0);
    return std::tgamma(0.5 * (w.alpha + 1.0));
}

// documented pull-back x -> t and the factor by which the canonical integral is multiplied
static void canonical_map(TasmanianSparseGrid const &g, Weight const &w, std::vector<double> const &x, std::vector<double> &t, double &scale){
    int d = g.getNumDimensions();
    t = x; scale = 1.0;
    if (!g.isSetDomainTransfrom()) return;
    std::vector<double> a, b; g.getDomainTransform(a, b);
    size_t n = x.size() / (size_t) d;
    for(int j=0; j<d; j++){
        double aj = a[(size_t) j], bj = b[(size_t) j];
        for(size_t i=0; i<n; i++){
            double &v = t[i * (size_t) d + (size_t) j];
            if (w.fam == w_jacobi) v = (2.0 * v - (aj + bj)) / (bj - aj);
            else if (w.fam == w_laguerre) v = bj * (v - aj);
            else v = std::sqrt(bj) * (v - aj);
        }
        if (w.fam == w_jacobi) scale *= std::pow(0.5 * (bj - aj), w.alpha + w.beta + 1.0);
        else if (w.fam == w_laguerre) scale *= std::pow(bj, -(1.0 + w.alpha));
        else scale *= std::pow(bj, -0.5 * (1.0 + w.alpha));
    }
}

static void check_polynomial_grid(TasmanianSparseGrid const &g, Cfg const &cfg, CaseCtx &c, Rng &rng){
    int d = g.getNumDimensions(), n = g.getNumPoints();
    std::string rn = cfg.custom ? std::string("custom-tabulated") : rname(g.getRule());
    Weight w = weight_of(g);
    std::vector<double> x = g.getPoints(), qw = g.getQuadratureWeights(), t;
    double scale;
    canonical_map(g, w, x, t, scale);
    std::vector<int> space = g.getGlobalPolynomialSpace(false);
    size_t ns = space.size() / (size_t) d;
    if (ns == 0){ c.viol("quadrature:empty-declared-space:" + rn, "{}"); return; }
    int maxdeg = *std::max_element(space.begin(), space.end());
    if (maxdeg > 800){ c.count("skipped:degree-above-800"); return; }
    // choose the members to test: all up to 300, otherwise a random sample plus all maximal elements (where an off-by-one in an exactness table shows)
    std::set<std::vector<int>> sset;
    for(size_t i=0; i<ns; i++) sset.insert(std::vector<int>(space.begin() + (long)(i * (size_t) d), space.begin() + (long)((i + 1) * (size_t) d)));
    std::vector<size_t> pick;
    for(size_t i=0; i<ns; i++){
        std::vector<int> k(space.begin() + (long)(i * (size_t) d), space.begin() + (long)((i + 1) * (size_t) d));
        bool maximal = true;
        for(int j=0; j<d && maximal; j++){ k[(size_t) j]++; if (sset.count(k)) maximal = false; k[(size_t) j]--; }
        bool zero = std::all_of(k.begin(), k.end(), [](int v){ return v == 0; });
        if (maximal || zero || ns <= 300 || rng.coin(300.0 / (double) ns)) pick.push_back(i);
    }
    // 1-D polynomial values at all nodes
    std::vector<std::vector<std::vector<double>>> pv((size_t) d, std::vector<std::vector<double>>((size_t) n));
    for(int j=0; j<d; j++) for(int i=0; i<n; i++) ortho_values(w, maxdeg, t[(size_t) i * (size_t) d + (size_t) j], pv[(size_t) j][(size_t) i]);
    // natural magnitude of the family on the node set: running maximum over degrees of max_i |p_deg(t_i)| (p_n itself vanishes at Gauss nodes)
    std::vector<std::vector<double>> pscale((size_t) d, std::vector<double>((size_t) maxdeg + 1, 0.0));
    for(int j=0; j<d; j++){
        for(int i=0; i<n; i++) for(int k=0; k<=maxdeg; k++) pscale[(size_t) j][(size_t) k] = std::max(pscale[(size_t) j][(size_t) k], std::fabs(pv[(size_t) j][(size_t) i][(size_t) k]));
        for(int k=1; k<=maxdeg; k++) pscale[(size_t) j][(size_t) k] = std::max(pscale[(size_t) j][(size_t) k], pscale[(size_t) j][(size_t) k - 1]);
    }
    double m0 = mu0(w), wabs = 0.0;
    for(double v : qw) wabs += std::fabs(v);
    double worst = 0.0;
    if (!cfg.custom && g.getRule() == rule_clenshawcurtis0){
        // Zero-boundary Clenshaw-Curtis: the rule reproduces (1 - t^2) q(t); the degrees it lists are those of the products (see known finding F-cc0).
        // Members of the true span: prod_j (1 - t_j^2) P_{k_j}(t_j) with k_j = max(m_j - 2, 0) for every listed m; exact integral from
        // 1 - t^2 = (2/3)(P_0 - P_2):  4/3 for k = 0, -4/15 for k = 2, 0 otherwise.
        for(size_t s2 : pick){
            const int *mdeg = &space[s2 * (size_t) d];
            double sum = 0.0, asum = 0.0, exact = scale;
            for(int j=0; j<d; j++){ int k = std::max(mdeg[j] - 2, 0); exact *= (k == 0) ? 4.0 / 3.0 : (k == 2) ? -4.0 / 15.0 : 0.0; }
            for(int i=0; i<n; i++){
                double f = 1.0;
                for(int j=0; j<d; j++){ double tt = t[(size_t) i * (size_t) d + (size_t) j]; f *= (1.0 - tt * tt) * pv[(size_t) j][(size_t) i][(size_t) std::max(mdeg[j] - 2, 0)]; }
                sum += qw[(size_t) i] * f; asum += std::fabs(qw[(size_t) i] * f);
            }
            double tol = 5e3 * EPS2 * (asum + wabs + std::fabs(exact)) * (double)(d + 1);
            c.count("cc0_true_span_members_tested");
            if (!(std::fabs(sum - exact) <= tol)){
                c.viol("quadrature:inexact-on-true-span:clenshaw-curtis-zero", J().vec("listed_degree", std::vector<int>(mdeg, mdeg + d)).num("weighted_sum", sum).num("exact", exact).num("tol", tol).obj());
                return;
            }
        }
    }
    for(size_t s : pick){
        const int *k = &space[s * (size_t) d];
        double sum = 0.0, asum = 0.0, fmax = 0.0;
        for(int i=0; i<n; i++){
            double f = 1.0;
            for(int j=0; j<d; j++) f *= pv[(size_t) j][(size_t) i][(size_t) k[j]];
            sum += qw[(size_t) i] * f; asum += std::fabs(qw[(size_t) i] * f); fmax = std::max(fmax, std::fabs(f));
        }
        bool zero = true; for(int j=0; j<d; j++) if (k[j] != 0) zero = false;
        double exact = zero ? scale * std::pow(m0, d) : 0.0;
        double fscale = 1.0; for(int j=0; j<d; j++) fscale *= pscale[(size_t) j][(size_t) k[j]];
        double tol = 1.5e4 * EPS2 * (asum + wabs * std::max(fmax, fscale) + std::fabs(exact)) * (double)(d + 1);
        double err = std::fabs(sum - exact);
        c.count("members_tested");
        if (!(err <= tol)){
            std::vector<int> kk(k, k + d);
            c.viol("quadrature:inexact-on-declared-space:" + rn, J().vec("multi_degree", kk).num("weighted_sum", sum).num("exact", exact).num("error", err).num("tol", tol)
                   .i("points", n).i("max_degree", maxdeg).str("weight", w.fam == w_jacobi ? "jacobi" : w.fam == w_laguerre ? "laguerre" : "hermite").num("alpha", w.alpha).num("beta", w.beta).obj());
            return;
        }
        worst = std::max(worst, err / tol);
    }
    c.counters["max_scaled_error_ppm"] = std::max(c.counters["max_scaled_error_ppm"], (long long)(worst * 1e6));
}

static void check_fourier_grid(TasmanianSparseGrid const &g, CaseCtx &c){
    int d = g.getNumDimensions(), n = g.getNumPoints();
    std::vector<double> x = g.getPoints(), qw = g.getQuadratureWeights();
    std::vector<double> a((size_t) d, 0.0), b((size_t) d, 1.0);
    if (g.isSetDomainTransfrom()) g.getDomainTransform(a, b);
    double vol = 1.0; for(int j=0; j<d; j++) vol *= (b[(size_t) j] - a[(size_t) j]);
    const int *idx = g.getPointsIndexes();
    double wabs = 0; for(double v : qw) wabs += std::fabs(v);
    int tested = 0;
    for(int p=0; p<n && tested < 300; p++, tested++){
        // documented index -> frequency map: 0, 1, -1, 2, -2, ...
        std::vector<int> k((size_t) d);
        bool zero = true;
        for(int j=0; j<d; j++){ int i = idx[(size_t) p * (size_t) d + (size_t) j]; k[(size_t) j] = (i % 2 == 1) ? (i + 1) / 2 : -(i / 2); if (k[(size_t) j]) zero = false; }
        double sr = 0, si = 0;
        for(int i=0; i<n; i++){
            double ph = 0;
            for(int j=0; j<d; j++) ph += 2.0 * M_PI * k[(size_t) j] * (x[(size_t) i * (size_t) d + (size_t) j] - a[(size_t) j]) / (b[(size_t) j] - a[(size_t) j]);
            sr += qw[(size_t) i] * std::cos(ph); si += qw[(size_t) i] * std::sin(ph);
        }
        double er = zero ? vol : 0.0;
        double tol = 1e4 * EPS2 * (wabs + vol) * (double) n;
        c.count("members_tested");
        if (!(std::fabs(sr - er) <= tol) || !(std::fabs(si) <= tol)){
            c.viol("quadrature:inexact-on-fourier-mode", J().vec("frequency", k).num("real", sr).num("imag", si).num("exact_real", er).num("tol", tol).obj());
            return;
        }
    }
}


// Deep one-dimensional levels of the closed-form Chebyshev-type rules (clenshaw-curtis, clenshaw-curtis-zero, fejer2).  A grid that contains 1-d level
// 15 has >= 32768 nodes per direction and its wrapper evaluates the O(n) weight formula for every node (90 s), so generated grids never get there;
// the formula itself costs O(n) per node.  The probe asks the library's own per-node functions (the ones OneDimensionalWrapper calls) for a sample of
// nodes of levels 12..16 and compares with the closed forms evaluated here in long double: Fejer type 2 in its sine form
// w_k = 4 sin(t_k)/(n+1) sum_{m=1}^{(n+1)/2} sin((2m-1) t_k)/(2m-1), t_k = k pi/(n+1); Clenshaw-Curtis w_k = (c_k/N)(1 - sum'' b_j cos(2 j t_k)/(4j^2-1)).
// Added after the int overflow of 4*j*j - 1 (fejer2 level 15: weights summing to 1.9999999975) was met by C13's serial reference under UBSan.
static void check_deep_chebyshev_formulas(CaseCtx &c, Rng &rng){
    static const TypeOneDRule rules[] = {rule_fejer2, rule_clenshawcurtis, rule_clenshawcurtis0};
    TypeOneDRule rule = rules[rng.range(0, 2)];
    // levels reach the first ones whose formulas leave the int range when evaluated carelessly: 4*j*j - 1 (fejer2 level 15, clenshaw-curtis 16,
    // zero-boundary 15) and node number times n - 1 before the division (clenshaw-curtis 16, zero-boundary 15)
    int level = (rule == rule_fejer2) ? rng.range(12, 16) : (rule == rule_clenshawcurtis) ? rng.range(12, 16) : rng.range(11, 15);
    emit_begin(c, J().str("kind", "deep-1d-weight-formula").str("rule", IO::getRuleString(rule)).i("level", level).obj());
    const long double pi = 3.141592653589793238462643383279502884L;
    std::vector<double> nodes = (rule == rule_fejer2) ? OneDimensionalNodes::getFejer2Nodes(level)
                              : (rule == rule_clenshawcurtis) ? OneDimensionalNodes::getClenshawCurtisNodes(level) : OneDimensionalNodes::getClenshawCurtisNodesZero(level);
    int np = (int) nodes.size();
    if (np != OneDimensionalMeta::getNumPoints(level, rule)){ c.viol("quadrature:deep-1d:node-count", J().i("nodes", np).obj()); return; }
    for(int s=0; s<10 && c.nviol == 0; s++){
        int point = (s == 0) ? 0 : (s == 1) ? np - 1 : (s == 2) ? np / 2 : rng.range(0, np - 1);
        double x = nodes[(size_t) point];
        double w = (rule == rule_fejer2) ? OneDimensionalNodes::getFejer2Weight(level, point)
                 : (rule == rule_clenshawcurtis) ? OneDimensionalNodes::getClenshawCurtisWeight(level, point) : OneDimensionalNodes::getClenshawCurtisWeightZero(level, point);
        long double ref, scale;
        if (rule == rule_fejer2){
            long long n = np; // interior Chebyshev nodes cos(k pi / (n+1)), k = 1..n
            long long k = std::llround(std::acos((long double) x) * (long double) (n + 1) / pi);
            if (k < 1 || k > n || std::fabs((double) (std::cos(pi * (long double) k / (long double) (n + 1)) - (long double) x)) > 1e-12){ c.viol("quadrature:deep-1d:node-not-a-fejer2-node", J().i("point", point).num("x", x).obj()); return; }
            long double t = pi * (long double) k / (long double) (n + 1), sum = 0.0L;
            for(long long m=(n+1)/2; m>=1; m--) sum += std::sin((long double) (2*m-1) * t) / (long double) (2*m-1);
            ref = 4.0L * std::sin(t) * sum / (long double) (n + 1); scale = 2.0L / (long double) (n + 1);
        }else{
            long long N = (rule == rule_clenshawcurtis) ? np - 1 : np + 1; // intervals; zero-boundary rule = interior nodes of the next level
            long long k = std::llround(std::acos((long double) x) * (long double) N / pi);
            if (k < 0 || k > N || std::fabs((double) (std::cos(pi * (long double) k / (long double) N) - (long double) x)) > 1e-12){ c.viol("quadrature:deep-1d:node-not-a-clenshaw-curtis-node", J().i("point", point).num("x", x).obj()); return; }
            long double t = pi * (long double) k / (long double) N, sum = 0.0L;
            for(long long j=N/2; j>=1; j--) sum += ((2*j == N) ? 1.0L : 2.0L) * std::cos(2.0L * (long double) j * t) / (4.0L * (long double) j * (long double) j - 1.0L);
            ref = ((k == 0 || k == N) ? 1.0L : 2.0L) * (1.0L - sum) / (long double) N; scale = 2.0L / (long double) N;
        }
        c.count("deep_1d_weights_compared");
        if (!(std::fabs((double) ((long double) w - ref)) <= 1e-10 * (double) scale)){
            c.viol(std::string("quadrature:deep-1d-weight-formula:") + IO::getRuleString(rule), J().i("level", level).i("point", point).num("x", x).num("weight", w).num("closed_form", (double) ref).obj());
            return; }
    }
    c.sig(std::string("deep1d|") + IO::getRuleString(rule) + "|" + std::to_string(level));
}

void mon_c02(CaseCtx &c, Rng &rng){
    if (c.index % 50 == 37){ check_deep_chebyshev_formulas(c, rng); return; }
    GenOpts go; go.families = (1u << fam_global) | (1u << fam_sequence) | (1u << fam_fourier); go.max_points = c.thorough ? 1500 : 600;
    go.max_dims = c.thorough ? 4 : 3; go.min_outs = rng.coin(0.7) ? 1 : 0; go.max_outs = 1; go.custom = true; go.conformal = false; go.max_depth = 12;
    Cfg cfg = gen_cfg(rng, go);
    if (cfg.family == fam_fourier && rng.coin(0.6)){ cfg.family = fam_global; cfg.rule = rng.coin(0.6) ? rng.pick(nonnested_global_rules()) : rng.pick(nested_global_rules()); // the rule tables are the subject
        if (uses_alpha(cfg.rule)){ cfg.alpha = rng.coin(0.25) ? (double) rng.range(0, 2) : rng.uni(-0.9, 3.0); cfg.beta = rng.coin(0.25) ? (double) rng.range(0, 2) : rng.uni(-0.9, 3.0); }
        if (!cfg.ta.empty() && is_unbounded(cfg.rule)) for(auto &v : cfg.tb) v = std::exp(rng.uni(-2.0, 2.0)); }
    // the last tabulated level of a hard-coded table is reached only by deep 1-D (or strongly anisotropic) grids
    if (cfg.family == fam_global && !cfg.custom && cfg.rule == rule_gausspatterson && rng.coin(0.5)){ cfg.dims = 1; cfg.type = type_level; cfg.depth = 8; cfg.aw.clear(); cfg.limits.clear(); if (!cfg.ta.empty()){ cfg.ta.resize(1); cfg.tb.resize(1); } }
    TasmanianSparseGrid g;
    std::string err;
    if (!make_grid(g, cfg, go.max_points, &err) || g.getNumPoints() == 0){ emit_begin(c, cfg.json()); c.inconc("make-failed"); return; }
    emit_begin(c, cfg.json());
    try{
        if (g.isFourier()) check_fourier_grid(g, c); else check_polynomial_grid(g, cfg, c, rng);
        // integrate() equals the weighted sum of the loaded values
        if (c.nviol == 0 && g.getNumOutputs() > 0){
            std::vector<double> p = g.getNeededPoints();
            std::vector<double> v = model_values(p, cfg.dims, cfg.outs, 1, 1);
            g.loadNeededValues(v);
            std::vector<double> qw = g.getQuadratureWeights(), q = g.integrate();
            const double *lv = g.getLoadedValues();
            double s = 0, a = 0; for(int i=0; i<g.getNumLoaded(); i++){ s += qw[(size_t) i] * lv[i]; a += std::fabs(qw[(size_t) i] * lv[i]); }
            if (!(std::fabs(q[0] - s) <= 1e4 * EPS2 * (a + std::fabs(s)))) c.viol("quadrature:integrate-differs-from-weighted-sum:" + std::string(fam_name(cfg.family)), J().num("integrate", q[0]).num("weighted_sum", s).obj());
            // the same after an overwriting reload (cached coefficients must follow the values)
            if (c.nviol == 0){
                std::vector<double> p2 = g.getLoadedPoints();
                g.loadNeededValues(model_values(p2, cfg.dims, cfg.outs, 2, 0));
                std::vector<double> q2 = g.integrate(); const double *lv2 = g.getLoadedValues();
                double s2 = 0, a2 = 0; for(int i=0; i<g.getNumLoaded(); i++){ s2 += qw[(size_t) i] * lv2[i]; a2 += std::fabs(qw[(size_t) i] * lv2[i]); }
                if (!(std::fabs(q2[0] - s2) <= 1e4 * EPS2 * (a2 + std::fabs(s2)))) c.viol("quadrature:integrate-differs-from-weighted-sum-after-reload:" + std::string(fam_name(cfg.family)), J().num("integrate", q2[0]).num("weighted_sum", s2).obj());
            }
        }
        // several outputs, and copies of a sub-range of the outputs: integrate() of every object equals ITS weights times ITS loaded values
        if (c.nviol == 0 && g.getNumOutputs() > 0 && g.getNumPoints() <= 400 && rng.coin(0.35)){
            Cfg c3 = cfg; c3.outs = 3;
            TasmanianSparseGrid g3;
            if (make_grid(g3, c3, go.max_points, &err) && g3.getNumPoints() > 0){
                std::vector<double> p3 = g3.getNeededPoints();
                g3.loadNeededValues(model_values(p3, cfg.dims, 3, 3, 1));
                int b = rng.range(0, 2), e = rng.range(b + 1, 3);
                TasmanianSparseGrid sub; sub.copyGrid(&g3, b, e);
                for(TasmanianSparseGrid const *obj : {(TasmanianSparseGrid const*) &g3, (TasmanianSparseGrid const*) &sub}){
                    int mo = obj->getNumOutputs(), nl = obj->getNumLoaded();
                    std::vector<double> qw = obj->getQuadratureWeights(), q = obj->integrate();
                    const double *lv = obj->getLoadedValues();
                    for(int k=0; k<mo; k++){
                        double sm = 0, ab = 0; for(int i=0; i<nl; i++){ double t = qw[(size_t) i] * lv[(size_t) i * (size_t) mo + (size_t) k]; sm += t; ab += std::fabs(t); }
                        if (!(std::fabs(q[(size_t) k] - sm) <= 1e4 * EPS2 * (ab + std::fabs(sm)))){
                            c.viol(std::string("quadrature:integrate-differs-from-weighted-sum:") + ((obj == &sub) ? "output-subrange-copy:" : "multi-output:") + fam_name(cfg.family),
                                   J().i("output", k).i("range_begin", b).i("range_end", e).num("integrate", q[(size_t) k]).num("weighted_sum", sm).obj());
                            break; }
                    }
                    c.count((obj == &sub) ? "subrange_copies_integrated" : "multi_output_grids_integrated");
                    if (c.nviol) break;
                }
            }
        }
    }catch(std::exception &e){ c.viol("quadrature:exception:" + exception_class(e), J().str("what", e.what()).obj()); return; }
    c.sig(cfg.sig() + "|" + std::to_string(cfg.depth) + (uses_alpha(cfg.rule) && cfg.family == fam_global ? "|ab" : ""));
}

} // namespace vf
