// C03 - interpolation is exact on the function space spanned by the grid's basis
// C05 - differentiate() returns the gradient of the surrogate (exact on the reproduced space, finite differences otherwise, chain rule)
#include "monitors.hpp"

namespace vf{

static const double EPS3 = std::numeric_limits<double>::epsilon();

// Chebyshev polynomials T_0..T_n and their derivatives at t (well conditioned test functions of exact degree k)
static void cheb(int n, double t, std::vector<double> &T, std::vector<double> &dT){
    T.assign((size_t) n + 1, 1.0); dT.assign((size_t) n + 1, 0.0);
    if (n == 0) return;
    T[1] = t; dT[1] = 1.0;
    for(int k=1; k<n; k++){
        T[(size_t) k + 1] = 2.0 * t * T[(size_t) k] - T[(size_t) k - 1];
        dT[(size_t) k + 1] = 2.0 * T[(size_t) k] + 2.0 * t * dT[(size_t) k] - dT[(size_t) k - 1];
    }
}
// documented pull-back of the linear domain transform: t_j = g_j(x_j) and dt/dx
struct Pull{
    int d; std::vector<double> rate, shift; // t = rate * x - shift
    Pull(TasmanianSparseGrid const &g){
        d = g.getNumDimensions(); rate.assign((size_t) d, 1.0); shift.assign((size_t) d, 0.0);
        if (!g.isSetDomainTransfrom()) return;
        std::vector<double> a, b; g.getDomainTransform(a, b);
        TypeOneDRule r = g.getRule();
        for(int j=0; j<d; j++){
            double aj = a[(size_t) j], bj = b[(size_t) j];
            if (is_laguerre(r)){ rate[(size_t) j] = bj; shift[(size_t) j] = bj * aj; }
            else if (is_hermite(r)){ rate[(size_t) j] = std::sqrt(bj); shift[(size_t) j] = std::sqrt(bj) * aj; }
            else if (r == rule_fourier){ rate[(size_t) j] = 1.0 / (bj - aj); shift[(size_t) j] = aj / (bj - aj); }
            else{ rate[(size_t) j] = 2.0 / (bj - aj); shift[(size_t) j] = (bj + aj) / (bj - aj); }
        }
    }
    double t(int j, double x) const{ return rate[(size_t) j] * x - shift[(size_t) j]; }
};

// a test function: value and gradient at x
struct TestFn{
    std::function<double(const double*)> f;
    std::function<void(const double*, double*)> grad;
    std::string name;
};

// compares evaluate / interpolation weights (C03) and differentiate / differentiation weights (C05) with the exact function on probe points
static bool check_exact_member(TasmanianSparseGrid &g, TestFn const &fn, std::vector<double> const &probes, CaseCtx &c, bool do_c03, bool do_c05,
                               std::string const &cls, bool load_route){
    int d = g.getNumDimensions(), n = g.getNumPoints();
    std::vector<double> pts = g.getPoints();
    std::vector<double> fv((size_t) n);
    double fmaxv = 0.0;
    for(int i=0; i<n; i++){ fv[(size_t) i] = fn.f(&pts[(size_t) i * (size_t) d]); fmaxv = std::max(fmaxv, std::fabs(fv[(size_t) i])); }
    if (load_route && g.getNumOutputs() == 1){
        if (g.getNumNeeded() > 0 || g.getNumLoaded() > 0) g.loadNeededValues(fv);
    }
    bool conformal = g.isSetConformalTransformASIN();
    std::vector<double> tlo, thi; domain_box(g, tlo, thi);
    size_t np = probes.size() / (size_t) d;
    for(size_t q=0; q<np; q++){
        const double *x = &probes[q * (size_t) d];
        double exact = fn.f(x);
        std::vector<double> w = g.getInterpolationWeights(x);
        double s = 0, a = 0, ws = 0;
        for(int i=0; i<n; i++){ double t = w[(size_t) i] * fv[(size_t) i]; s += t; a += std::fabs(t); ws += std::fabs(w[(size_t) i]); }
        double tol = 4e3 * EPS3 * (a + ws * fmaxv + std::fabs(exact)) * (double)(d + 1);
        if (g.isWavelet() || conformal) tol += 1e-8 * (a + std::fabs(exact) + 1e-300);
        // the test function itself is evaluated through the pull-back of the domain transform: its sensitivity to the rounding of that map
        // (relative coordinate error eps * (|a|+|b|)/(b-a)) is measured and allowed for, at the probe and (scaled by sum|w|) at the nodes
        double sens = 0.0;
        if (g.isSetDomainTransfrom()){
            std::vector<double> xx(x, x + d);
            for(int j=0; j<d; j++){
                double dx = 16.0 * EPS3 * (std::fabs(tlo[(size_t) j]) + std::fabs(thi[(size_t) j]));
                xx[(size_t) j] = x[j] + dx; sens += std::fabs(fn.f(xx.data()) - exact); xx[(size_t) j] = x[j];
            }
        }
        tol += 4.0 * sens * (1.0 + ws);
        if (do_c03){
            c.count("c03_weight_probes");
            if (!(std::fabs(s - exact) <= tol)){
                c.viol("interpolation-weights:inexact:" + cls, J().str("function", fn.name).vec("x", std::vector<double>(x, x + d)).num("weights_times_f", s).num("exact", exact).num("tol", tol).obj());
                return false;
            }
            if (load_route && g.getNumOutputs() == 1 && g.getNumLoaded() == n){
                double y = 0; g.evaluate(x, &y);
                if (!(std::fabs(y - exact) <= tol)){
                    c.viol("evaluate:inexact:" + cls, J().str("function", fn.name).vec("x", std::vector<double>(x, x + d)).num("evaluate", y).num("exact", exact).num("tol", tol).obj());
                    return false;
                }
                c.count("c03_evaluate_probes");
            }
        }
        if (do_c05 && !conformal && fn.grad){
            std::vector<double> ge((size_t) d); fn.grad(x, ge.data());
            std::vector<double> dw = g.getDifferentiationWeights(x);
            for(int j=0; j<d; j++){
                double sd = 0, ad = 0, wd = 0;
                for(int i=0; i<n; i++){ double t = dw[(size_t) i * (size_t) d + (size_t) j] * fv[(size_t) i]; sd += t; ad += std::fabs(t); wd += std::fabs(dw[(size_t) i * (size_t) d + (size_t) j]); }
                double tolj = 4e3 * EPS3 * (ad + wd * fmaxv + std::fabs(ge[(size_t) j])) * (double)(d + 1);
                if (g.isWavelet()) tolj += 1e-7 * (ad + std::fabs(ge[(size_t) j]) + 1e-300);
                if (g.isFourier()) tolj += 1e-6 * (ad + 1e-300);
                tolj += 4e3 * EPS3 * fmaxv * (double) n / (thi[(size_t) j] - tlo[(size_t) j]) + 4.0 * sens * (1.0 + wd) / (thi[(size_t) j] - tlo[(size_t) j]) * 1e3; // weights that vanish in exact arithmetic carry noise
                c.count("c05_exact_gradient_probes");
                if (!(std::fabs(sd - ge[(size_t) j]) <= tolj)){
                    c.viol("differentiation-weights:inexact-on-reproduced-space:" + cls, J().str("function", fn.name).vec("x", std::vector<double>(x, x + d)).i("dir", j).num("weights_times_f", sd).num("exact", ge[(size_t) j]).num("tol", tolj).obj());
                    return false;
                }
                if (load_route && g.getNumOutputs() == 1 && g.getNumLoaded() == n){
                    std::vector<double> jac((size_t) d, poison()); g.differentiate(x, jac.data());
                    if (!(std::fabs(jac[(size_t) j] - ge[(size_t) j]) <= tolj)){
                        c.viol("differentiate:inexact-on-reproduced-space:" + cls, J().str("function", fn.name).vec("x", std::vector<double>(x, x + d)).i("dir", j).num("differentiate", jac[(size_t) j]).num("exact", ge[(size_t) j]).num("tol", tolj).obj());
                        return false;
                    }
                }
            }
        }
    }
    return true;
}

// probe points: interior, grid nodes, corners/faces (bounded domains); for derivative checks points are kept away from cell boundaries of local bases
static std::vector<double> c03_probes(TasmanianSparseGrid const &g, Rng &rng, bool for_derivatives){
    int d = g.getNumDimensions();
    std::vector<double> lo, hi; domain_box(g, lo, hi);
    std::vector<double> x;
    int nint = 6;
    if (g.isFourier()){
        std::vector<int> N((size_t) d, 1); const int *idx = g.getPointsIndexes();
        for(size_t q=0; q<(size_t) g.getNumPoints() * (size_t) d; q++){ int &t = N[q % (size_t) d]; while (t <= idx[q]) t *= 3; }
        for(int i=0; i<nint; i++) for(int j=0; j<d; j++){
            double t = ((double) rng.range(0, N[(size_t) j] - 1) + rng.uni(0.25, 0.75)) / (double) N[(size_t) j];
            x.push_back(lo[(size_t) j] + t * (hi[(size_t) j] - lo[(size_t) j]));
        }
    }else if (for_derivatives && (g.isLocalPolynomial() || g.isWavelet())){
        // keep a distance from the dyadic / triadic cell boundaries: place probes at irrational offsets inside fine cells
        for(int i=0; i<nint; i++) for(int j=0; j<d; j++){
            int cells = 3 * 2048; // common refinement of dyadic and triadic levels used by the generated grids
            double t = ((double) rng.range(0, cells - 1) + rng.uni(0.3, 0.7)) / (double) cells;
            x.push_back(lo[(size_t) j] + t * (hi[(size_t) j] - lo[(size_t) j]));
        }
    }else{
        x = probe_points(g, nint, rng.next());
    }
    if (!for_derivatives){
        std::vector<double> pts = g.getPoints(); int n = g.getNumPoints();
        for(int i=0; i<3; i++){ int k = rng.range(0, n - 1); x.insert(x.end(), pts.begin() + (long)((size_t) k * (size_t) d), pts.begin() + (long)((size_t)(k + 1) * (size_t) d)); }
        if (!is_unbounded(g.getRule())){
            for(int i=0; i<2; i++) for(int j=0; j<d; j++) x.push_back(rng.coin() ? lo[(size_t) j] : (rng.coin() ? hi[(size_t) j] : 0.5 * (lo[(size_t) j] + hi[(size_t) j])));
            x = interior_nudged(g, x);
        }
    }
    return x;
}

static void run_exactness(CaseCtx &c, Rng &rng, bool do_c03, bool do_c05){
    GenOpts go; go.max_points = c.thorough ? 800 : 260; go.max_dims = c.thorough ? 4 : 3; go.min_outs = 0; go.max_outs = 1; go.custom = true; go.max_depth = 10;
    if (do_c05 && !do_c03) go.conformal = false;
    Cfg cfg = gen_cfg(rng, go);
    TasmanianSparseGrid g;
    std::string err;
    if (!make_grid(g, cfg, go.max_points, &err) || g.getNumPoints() == 0){ emit_begin(c, cfg.json()); c.inconc("make-failed"); return; }
    emit_begin(c, cfg.json());
    // One configuration in four (decided by a hash of the configuration, the random stream is not touched) reaches its final tensor set the other
    // way: it is made one or two depth units smaller, gets values, and is enlarged by update*Grid() + loadNeededValues() - the path on which the
    // 1-D rule wrapper is rebuilt while loaded values are kept.  The statement holds for the resulting grid like for any other.
    if ((g.isGlobal() || g.isSequence() || g.isFourier()) && cfg.depth >= 1 && (std::hash<std::string>{}(cfg.json()) >> 5) % 4 == 0){
        try{
            Cfg lo = cfg; lo.depth = std::max(0, cfg.depth - 1 - (int)((std::hash<std::string>{}(cfg.json()) >> 9) % 2));
            TasmanianSparseGrid h;
            std::string e2;
            if (make_grid(h, lo, go.max_points, &e2) && h.getNumPoints() > 0 && h.getNumPoints() < g.getNumPoints()){
                // the values supplied in the two stages are those of one low-degree member of the SMALL grid's space (hence of the final one)
                std::vector<int> kk((size_t) cfg.dims, 0);
                bool poly = (h.isGlobal() || h.isSequence()) && !h.isSetConformalTransformASIN() && !(h.isGlobal() && !cfg.custom && h.getRule() == rule_clenshawcurtis0);
                if (poly){
                    std::vector<int> sp = h.getGlobalPolynomialSpace(true);
                    for(size_t i=0; i<sp.size() / (size_t) cfg.dims; i++){
                        int deg = 0; for(int j=0; j<cfg.dims; j++) deg += sp[i * (size_t) cfg.dims + (size_t) j];
                        if (deg >= 1 && deg <= 2){ kk.assign(sp.begin() + (long)(i * (size_t) cfg.dims), sp.begin() + (long)((i + 1) * (size_t) cfg.dims)); if ((std::hash<std::string>{}(cfg.json()) >> 13) % 3 != 0) break; }
                    }
                }
                Pull ph(h);
                auto member = [&](const double *x)->double{ double v = 1.5; for(int j=0; j<cfg.dims; j++) for(int q=0; q<kk[(size_t) j]; q++) v *= ph.t(j, x[j]); return v; };
                auto member_values = [&](std::vector<double> const &p)->std::vector<double>{
                    std::vector<double> v; for(size_t i=0; i<p.size() / (size_t) cfg.dims; i++) v.push_back(member(&p[i * (size_t) cfg.dims])); return v; };
                if (cfg.outs > 0){ std::vector<double> p = h.getNeededPoints(); h.loadNeededValues(member_values(p)); }
                if (h.isGlobal()) h.updateGlobalGrid(cfg.depth, cfg.type, cfg.aw, cfg.limits);
                else if (h.isSequence()) h.updateSequenceGrid(cfg.depth, cfg.type, cfg.aw, cfg.limits);
                else h.updateFourierGrid(cfg.depth, cfg.type, cfg.aw, cfg.limits);
                if (cfg.outs > 0 && h.getNumNeeded() > 0){ std::vector<double> p = h.getNeededPoints(); h.loadNeededValues(member_values(p)); }
                bool cc0_rule = (h.isGlobal() && !cfg.custom && h.getRule() == rule_clenshawcurtis0); // spans (1-t^2) P: constants are not members (F-cc0)
                if (cfg.outs > 0 && h.getNumLoaded() > 0 && !h.isSetConformalTransformASIN() && !cc0_rule){
                    // the surrogate assembled from the two deliveries reproduces the member (conditioning from the library's own weights)
                    Rng r2((uint64_t) std::hash<std::string>{}(cfg.json())); std::vector<double> pr = c03_probes(h, r2, false);
                    std::vector<double> nodes = h.getLoadedPoints(); double fmax = 0; for(size_t i=0; i<nodes.size() / (size_t) cfg.dims; i++) fmax = std::max(fmax, std::fabs(member(&nodes[i * (size_t) cfg.dims])));
                    for(size_t q=0; q<pr.size() / (size_t) cfg.dims && q < 8; q++){
                        std::vector<double> x(pr.begin() + (long)(q * (size_t) cfg.dims), pr.begin() + (long)((q + 1) * (size_t) cfg.dims)), y;
                        h.evaluate(x, y);
                        std::vector<double> w = h.getInterpolationWeights(x); double lam = 0; for(double t : w) lam += std::fabs(t);
                        if (!std::isfinite(lam) || lam > 1e8) continue;
                        double exact = member(x.data());
                        c.count("update_path_member_probes");
                        if (!(std::fabs(y[0] - exact) <= 1e4 * std::numeric_limits<double>::epsilon() * (lam + 1.0) * (fmax + std::fabs(exact)))){
                            c.viol("update-path:member-of-the-space-not-reproduced-after-update-and-load:" + std::string(fam_name(cfg.family)) + ":" + (cfg.custom ? std::string("custom-tabulated") : rname(h.getRule())),
                                   J().vec("x", x).num("evaluate", y[0]).num("exact", exact).num("lebesgue", lam).obj()); return; }
                    }
                }
                if (h.getNumPoints() == g.getNumPoints()){ g = std::move(h); c.count("grids_grown_by_update"); }
            }
        }catch(std::exception &e){ c.viol("update-path:exception:" + exception_class(e), J().str("what", e.what()).obj()); return; }
    }
    int d = cfg.dims;
    std::string rn = cfg.custom ? std::string("custom-tabulated") : rname(g.getRule());
    std::string cls = std::string(fam_name(cfg.family)) + ":" + rn;
    Pull pull(g);
    bool load_route = rng.coin(0.7);
    try{
        std::vector<double> probes = c03_probes(g, rng, do_c05 && !do_c03);
        std::vector<double> probes_d = do_c05 ? c03_probes(g, rng, true) : std::vector<double>();
        int members = 0;
        auto run_member = [&](TestFn const &fn)->bool{
            members++;
            if (do_c03 && !check_exact_member(g, fn, probes, c, true, false, cls, load_route)) return false;
            if (do_c05 && !check_exact_member(g, fn, probes_d, c, false, true, cls, load_route)) return false;
            return true;
        };
        if (g.isGlobal() || g.isSequence()){
            if (g.isSetConformalTransformASIN()){ c.inconc("conformal-map:polynomial-space-is-in-mapped-coordinates"); return; }
            std::vector<int> space = g.getGlobalPolynomialSpace(true);
            size_t ns = space.size() / (size_t) d;
            int maxdeg = *std::max_element(space.begin(), space.end());
            if (maxdeg > 120){ c.count("skipped:degree-above-120"); c.inconc("degree-too-high"); return; }
            bool cc0 = (!cfg.custom && g.getRule() == rule_clenshawcurtis0);
            std::set<std::vector<int>> sset;
            for(size_t i=0; i<ns; i++) sset.insert(std::vector<int>(space.begin() + (long)(i * (size_t) d), space.begin() + (long)((i + 1) * (size_t) d)));
            int budget = c.thorough ? 60 : 30;
            for(size_t i=0; i<ns; i++){
                std::vector<int> k(space.begin() + (long)(i * (size_t) d), space.begin() + (long)((i + 1) * (size_t) d));
                bool maximal = true;
                for(int j=0; j<d && maximal; j++){ k[(size_t) j]++; if (sset.count(k)) maximal = false; k[(size_t) j]--; }
                if (!(maximal || rng.coin((double) budget / (double) ns))) continue;
                if (maximal && members > 3 * budget) continue;
                // zero-boundary Clenshaw-Curtis with n = 2^(l+1)-1 nodes: the span is (1 - t^2) q(t), deg q <= n - 1 = listed degree - 3 (known finding F-cc0 for the listed monomials)
                TestFn fn;
                if (cc0){
                    fn.name = "cc0-span:(1-t^2)T_k"; for(int j=0; j<d; j++) fn.name += (j ? "," : " k=") + std::to_string(std::max(k[(size_t) j] - 3, 0));
                    fn.f = [=](const double *x)->double{ double v = 1.0; std::vector<double> T, dT; for(int j=0; j<d; j++){ double t = pull.t(j, x[j]); cheb(std::max(k[(size_t) j] - 3, 0), t, T, dT); v *= (1.0 - t * t) * T.back(); } return v; };
                    fn.grad = [=](const double *x, double *gr){
                        std::vector<double> val((size_t) d), der((size_t) d), T, dT;
                        for(int j=0; j<d; j++){ double t = pull.t(j, x[j]); cheb(std::max(k[(size_t) j] - 3, 0), t, T, dT); val[(size_t) j] = (1.0 - t * t) * T.back(); der[(size_t) j] = (-2.0 * t * T.back() + (1.0 - t * t) * dT.back()) * pull.rate[(size_t) j]; }
                        for(int j=0; j<d; j++){ double v = der[(size_t) j]; for(int i=0; i<d; i++) if (i != j) v *= val[(size_t) i]; gr[j] = v; }
                    };
                }else{
                    fn.name = "T_k"; for(int j=0; j<d; j++) fn.name += (j ? "," : " k=") + std::to_string(k[(size_t) j]);
                    fn.f = [=](const double *x)->double{ double v = 1.0; std::vector<double> T, dT; for(int j=0; j<d; j++){ cheb(k[(size_t) j], pull.t(j, x[j]), T, dT); v *= T.back(); } return v; };
                    fn.grad = [=](const double *x, double *gr){
                        std::vector<double> val((size_t) d), der((size_t) d), T, dT;
                        for(int j=0; j<d; j++){ cheb(k[(size_t) j], pull.t(j, x[j]), T, dT); val[(size_t) j] = T.back(); der[(size_t) j] = dT.back() * pull.rate[(size_t) j]; }
                        for(int j=0; j<d; j++){ double v = der[(size_t) j]; for(int i=0; i<d; i++) if (i != j) v *= val[(size_t) i]; gr[j] = v; }
                    };
                }
                if (!run_member(fn)) return;
            }
            if (cc0 && do_c03){
                // the listed monomial of the largest total degree: expected to FAIL (recorded finding); reported so that the finding stays visible
                TestFn fn; std::vector<int> k(space.end() - d, space.end());
                fn.name = "listed-monomial";
                fn.f = [=](const double *x)->double{ double v = 1.0; std::vector<double> T, dT; for(int j=0; j<d; j++){ cheb(k[(size_t) j], pull.t(j, x[j]), T, dT); v *= T.back(); } return v; };
                std::vector<double> pr(probes.begin(), probes.begin() + (long) d);
                CaseCtx scratch = c; scratch.nviol = 0;
                std::vector<double> pts = g.getPoints(); std::vector<double> w = g.getInterpolationWeights(pr.data());
                double s = 0; for(int i=0; i<g.getNumPoints(); i++) s += w[(size_t) i] * fn.f(&pts[(size_t) i * (size_t) d]);
                if (std::fabs(s - fn.f(pr.data())) > 1e-8) c.viol("interpolation-weights:inexact-on-declared-space:clenshaw-curtis-zero", J().str("note", "listed monomials are not in the span of the zero-boundary rule").num("weights_times_f", s).num("exact", fn.f(pr.data())).obj());
            }
        }else if (g.isFourier()){
            const int *idx = g.getPointsIndexes(); int n = g.getNumPoints();
            int budget = c.thorough ? 40 : 20;
            for(int p=0; p<n; p++){
                if (!(p < 3 || rng.coin((double) budget / (double) n))) continue;
                std::vector<int> k((size_t) d);
                for(int j=0; j<d; j++){ int i = idx[(size_t) p * (size_t) d + (size_t) j]; k[(size_t) j] = (i % 2 == 1) ? (i + 1) / 2 : -(i / 2); }
                for(int part=0; part<2; part++){
                    TestFn fn; fn.name = part ? "sin(2pi k.t)" : "cos(2pi k.t)";
                    for(int j=0; j<d; j++) fn.name += (j ? "," : " k=") + std::to_string(k[(size_t) j]);
                    fn.f = [=](const double *x)->double{ double ph = 0; for(int j=0; j<d; j++) ph += 2.0 * M_PI * k[(size_t) j] * pull.t(j, x[j]); return part ? std::sin(ph) : std::cos(ph); };
                    fn.grad = [=](const double *x, double *gr){ double ph = 0; for(int j=0; j<d; j++) ph += 2.0 * M_PI * k[(size_t) j] * pull.t(j, x[j]);
                        for(int j=0; j<d; j++) gr[j] = (part ? std::cos(ph) : -std::sin(ph)) * 2.0 * M_PI * k[(size_t) j] * pull.rate[(size_t) j]; };
                    if (!run_member(fn)) return;
                }
            }
        }else{
            // Wavelet grids and LocalPolynomial grids of order != 0 with boundary-including rules and depth >= 1 reproduce affine functions
            bool applies = g.isWavelet() || (g.isLocalPolynomial() && g.getOrder() != 0 && g.getRule() != rule_localp0 && cfg.depth >= 1);
            // level limits of zero can remove the level-1 nodes that the affine part needs in that direction
            for(int l : cfg.limits) if (l == 0 && g.isLocalPolynomial() && g.getRule() != rule_localpb) applies = false;
            if (!applies){ c.inconc("no-exact-space-claimed"); return; }
            if (g.isSetConformalTransformASIN()){ c.inconc("conformal-map:affine-functions-are-in-mapped-coordinates"); return; }
            for(int m=0; m<4; m++){
                std::vector<double> coef((size_t) d + 1); for(auto &v : coef) v = rng.uni(-2.0, 2.0);
                if (m == 0){ std::fill(coef.begin(), coef.end(), 0.0); coef[0] = 1.0; }
                TestFn fn; fn.name = (m == 0) ? "constant" : "affine";
                fn.f = [=](const double *x)->double{ double v = coef[0]; for(int j=0; j<d; j++) v += coef[(size_t) j + 1] * x[j]; return v; };
                fn.grad = [=](const double*, double *gr){ for(int j=0; j<d; j++) gr[j] = coef[(size_t) j + 1]; };
                if (!run_member(fn)) return;
            }
        }
        if (members == 0){ c.inconc("no-member-tested"); return; }
        c.count("members_tested", members);
        // corollary: the interpolation weights sum to one (constants are reproduced)
        if (do_c03 && !(g.isGlobal() && !cfg.custom && g.getRule() == rule_clenshawcurtis0) && !(g.isLocalPolynomial() && g.getRule() == rule_localp0)){
            for(size_t q=0; q<probes.size() / (size_t) d; q++){
                std::vector<double> w = g.getInterpolationWeights(&probes[q * (size_t) d]);
                double s = 0, a = 0; for(double v : w){ s += v; a += std::fabs(v); }
                double tol = 4e3 * EPS3 * (a + 1.0) * (double)(d + 1) + ((g.isWavelet() || g.isSetConformalTransformASIN()) ? 1e-8 * a : 0.0);
                if (g.isFourier()) tol += 64.0 * EPS3 * (double) g.getNumPoints() * a; // closed-form weights next to a node lose digits in proportion to the number of modes (3.9e-12 seen with 729 points)
                if (g.isLocalPolynomial() && (g.getOrder() == 0)) continue; // piecewise constants: covered by the affine clause only for order != 0
                if (g.isLocalPolynomial()){ bool lim0 = false; for(int l : cfg.limits) if (l == 0 && g.getRule() != rule_localpb) lim0 = true; if (lim0 && false) continue; }
                if (!(std::fabs(s - 1.0) <= tol)){
                    c.viol("interpolation-weights:do-not-sum-to-one:" + cls, J().vec("x", std::vector<double>(probes.begin() + (long)(q * (size_t) d), probes.begin() + (long)((q + 1) * (size_t) d))).num("sum", s).num("tol", tol).obj());
                    return;
                }
            }
        }
    }catch(std::exception &e){ c.viol("exception:" + exception_class(e), J().str("what", e.what()).obj()); return; }
    c.sig(cfg.sig() + "|" + std::to_string(cfg.depth) + (load_route ? "|L" : "|W"));
}

void mon_c03(CaseCtx &c, Rng &rng){ run_exactness(c, rng, true, false); }

// ---------------------------------------------------------------------------------------------------------------------------------------
// C05: exact gradients on the reproduced space (above) + finite differences of generic surrogates + chain rule against the canonical twin
// ---------------------------------------------------------------------------------------------------------------------------------------
static bool fd_check(TasmanianSparseGrid const &g, CaseCtx &c, Rng &rng, std::string const &cls){
    int d = g.getNumDimensions(), m = g.getNumOutputs();
    std::vector<double> lo, hi; domain_box(g, lo, hi);
    std::vector<double> probes = c03_probes(g, rng, true);
    size_t np = probes.size() / (size_t) d;
    const double *v = g.getLoadedValues(); double vmax = 0; for(size_t i=0; i<(size_t) g.getNumLoaded() * (size_t) m; i++) vmax = std::max(vmax, std::fabs(v[i]));
    for(size_t q=0; q<np; q++){
        std::vector<double> x(probes.begin() + (long)(q * (size_t) d), probes.begin() + (long)((q + 1) * (size_t) d));
        std::vector<double> jac; g.differentiate(x, jac);
        {   // the Jacobian does not depend on what the output buffer held before the call (raw array, and a vector that is used again)
            std::vector<double> jraw((size_t) m * (size_t) d, 777.0); g.differentiate(x.data(), jraw.data());
            std::vector<double> jre((size_t) m * (size_t) d, -3.5); g.differentiate(x, jre);
            for(size_t t=0; t<jac.size(); t++) if (!same_bits(jac[t], jraw[t]) || !same_bits(jac[t], jre[t])){
                c.viol("differentiate:depends-on-previous-content-of-output-buffer:" + cls, J().vec("x", x).i("entry", (long long) t).num("fresh_vector", jac[t]).num("prefilled_raw_array", jraw[t]).num("reused_vector", jre[t]).obj()); return false; }
        }
        for(int j=0; j<d; j++){
            double width = hi[(size_t) j] - lo[(size_t) j];
            // 6th order central differences with two step sizes; the step stays inside a fine cell of the local bases (probes sit in the middle 40% of 1/6144 cells)
            auto fd = [&](double h, std::vector<double> &out){
                static const double cf[3] = {3.0 / 4.0, -3.0 / 20.0, 1.0 / 60.0};
                out.assign((size_t) m, 0.0);
                for(int s=1; s<=3; s++){
                    std::vector<double> xp = x, xm = x, yp, ym; xp[(size_t) j] += s * h; xm[(size_t) j] -= s * h;
                    g.evaluate(xp, yp); g.evaluate(xm, ym);
                    for(int k=0; k<m; k++) out[(size_t) k] += cf[s - 1] * (yp[(size_t) k] - ym[(size_t) k]) / h;
                }
            };
            double h1 = width / 6144.0 * 0.04, h2 = 0.5 * h1;
            std::vector<double> d1, d2; fd(h1, d1); fd(h2, d2);
            for(int k=0; k<m; k++){
                double ref = d2[(size_t) k], got = jac[(size_t) k * (size_t) d + (size_t) j];
                double scale = std::fabs(ref) + vmax / width;
                if (std::fabs(d1[(size_t) k] - d2[(size_t) k]) > 1e-7 * scale){ c.count("c05_fd_inconclusive"); continue; } // the two estimates disagree: not trustworthy
                c.count("c05_fd_probes");
                if (!(std::fabs(got - ref) <= 2e-6 * scale)){
                    c.viol("differentiate:differs-from-finite-differences:" + cls, J().vec("x", x).i("dir", j).i("output", k).num("differentiate", got).num("finite_difference", ref).num("scale", scale).obj());
                    return false;
                }
            }
        }
    }
    return true;
}

void mon_c05(CaseCtx &c, Rng &rng){
    int mode = rng.range(0, 2);
    if (mode == 0){ run_exactness(c, rng, false, true); return; }
    GenOpts go; go.max_points = c.thorough ? 500 : 200; go.max_dims = 3; go.min_outs = 1; go.max_outs = 3; go.conformal = false; go.custom = true; go.max_depth = 8;
    Cfg cfg = gen_cfg(rng, go);
    if (mode == 2 && cfg.ta.empty()){ // the chain rule needs a transform
        cfg.ta.resize((size_t) cfg.dims); cfg.tb.resize((size_t) cfg.dims);
        for(int j=0; j<cfg.dims; j++){
            if (cfg.family == fam_global && is_unbounded(cfg.rule)){ cfg.ta[(size_t) j] = rng.uni(-3.0, 3.0); cfg.tb[(size_t) j] = std::exp(rng.uni(-2.0, 2.0)); }
            else{ double ce = rng.uni(-5.0, 5.0), hf = std::exp(rng.uni(-3.0, 3.0)); cfg.ta[(size_t) j] = ce - hf; cfg.tb[(size_t) j] = ce + hf; }
        }
    }
    TasmanianSparseGrid g;
    std::string err;
    if (!make_grid(g, cfg, go.max_points, &err) || g.getNumPoints() == 0){ emit_begin(c, cfg.json()); c.inconc("make-failed"); return; }
    emit_begin(c, J().kv("cfg", cfg.json()).str("mode", mode == 1 ? "finite-differences" : "chain-rule").obj());
    int d = cfg.dims, m = cfg.outs;
    std::string cls = std::string(fam_name(cfg.family)) + ":" + (cfg.custom ? std::string("custom-tabulated") : rname(g.getRule())) + ((cfg.family == fam_localp || cfg.family == fam_wavelet) ? ":o" + std::to_string(cfg.order) : "");
    try{
        std::vector<double> p = g.getNeededPoints();
        int vmode = rng.coin() ? 0 : 1;
        // values as a function of the CANONICAL coordinates so that a transformed grid and its canonical twin hold the same data
        Pull pull(g);
        std::vector<double> tcan = p; for(size_t q=0; q<p.size(); q++) tcan[q] = pull.t((int)(q % (size_t) d), p[q]);
        std::vector<double> vals = model_values(tcan, d, m, 1, vmode);
        // smooth data for global bases (finite differences of an oscillating high-degree interpolant are not trustworthy), tagged noise for local ones
        if (g.isGlobal() || g.isSequence() || g.isFourier()) vals = model_values(tcan, d, m, 1, 1);
        g.loadNeededValues(vals);
        if (mode == 1){
            if (!fd_check(g, c, rng, cls)) return;
        }else{
            if (!g.isSetDomainTransfrom()){ c.inconc("no-transform"); return; }
            Cfg c2 = cfg; c2.ta.clear(); c2.tb.clear();
            TasmanianSparseGrid t; std::string e2;
            if (!make_grid(t, c2, 1000000, &e2)){ c.inconc("twin-make-failed"); return; }
            if (t.getNumPoints() != g.getNumPoints()){ c.viol("chain-rule:twin-has-other-points:" + cls, "{}"); return; }
            t.loadNeededValues(vals);
            std::vector<double> probes = c03_probes(g, rng, true);
            size_t np = probes.size() / (size_t) d;
            for(size_t q=0; q<np; q++){
                std::vector<double> x(probes.begin() + (long)(q * (size_t) d), probes.begin() + (long)((q + 1) * (size_t) d)), tc((size_t) d);
                for(int j=0; j<d; j++) tc[(size_t) j] = pull.t(j, x[(size_t) j]);
                std::vector<double> jg, jt, yg, yt; g.differentiate(x, jg); t.differentiate(tc, jt); g.evaluate(x, yg); t.evaluate(tc, yt);
                for(int k=0; k<m; k++){
                    double sens = 0; for(int j=0; j<d; j++) sens += std::fabs(jt[(size_t) k * (size_t) d + (size_t) j]);
                    double tolv = 1e-9 * (std::fabs(yt[(size_t) k]) + sens + 1e-300);
                    if (!(std::fabs(yg[(size_t) k] - yt[(size_t) k]) <= tolv)){ c.viol("chain-rule:evaluate-differs-from-canonical-twin:" + cls, J().vec("x", x).num("transformed", yg[(size_t) k]).num("canonical", yt[(size_t) k]).obj()); return; }
                    for(int j=0; j<d; j++){
                        double expect = jt[(size_t) k * (size_t) d + (size_t) j] * pull.rate[(size_t) j];
                        double got = jg[(size_t) k * (size_t) d + (size_t) j];
                        c.count("c05_chain_rule_probes");
                        if (!(std::fabs(got - expect) <= 1e-7 * (std::fabs(expect) + sens * std::fabs(pull.rate[(size_t) j]) + 1e-300))){
                            c.viol("chain-rule:jacobian-differs-from-canonical-twin:" + cls, J().vec("x", x).i("dir", j).num("transformed", got).num("canonical_times_rate", expect).obj()); return; }
                    }
                }
            }
        }
    }catch(std::exception &e){ c.viol("exception:" + exception_class(e), J().str("what", e.what()).obj()); return; }
    c.sig(cfg.sig() + "|" + std::to_string(mode) + "|" + std::to_string(cfg.order));
}

} // namespace vf
