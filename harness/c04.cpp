// C04 - all documented routes to the same quantity agree
#include "monitors.hpp"
#include <map>
#include <set>

namespace vf{

static const double EPS = std::numeric_limits<double>::epsilon();
static std::vector<double> g_c04_last_probe; // the point of the last interpolation-weight query (used to classify wavelet solver failures)
// order 0 (piece-wise constant, ternary tree: parent p/3, one step-parent for the outer kids of interior nodes): are all parents / step-parents present?
static bool pwc_parents_loaded(TasmanianSparseGrid const &g){
    int d = g.getNumDimensions(), n = g.getNumPoints();
    const int *idx = g.getPointsIndexes();
    std::set<std::vector<int>> have;
    for(int i=0; i<n; i++) have.insert(std::vector<int>(idx + (size_t) i * (size_t) d, idx + (size_t)(i + 1) * (size_t) d));
    auto pow3_above = [](int i)->int{ int r = 1; while(i >= 1){ i /= 3; r *= 3; } return r; };
    for(int i=0; i<n; i++){
        std::vector<int> p(idx + (size_t) i * (size_t) d, idx + (size_t)(i + 1) * (size_t) d);
        for(int j=0; j<d; j++){
            int pt = p[(size_t) j];
            if (pt == 0) continue;
            p[(size_t) j] = pt / 3; if (!have.count(p)) return false;
            int t = pow3_above(pt), sp = -1;
            if (pt != t / 3 && pt != t - 1){ if (pt % 3 == 2 && pt % 2 == 0) sp = pt / 3 + 1; else if (pt % 3 == 0 && pt % 2 == 1) sp = pt / 3 - 1; }
            if (sp >= 0){ p[(size_t) j] = sp; if (!have.count(p)) return false; }
            p[(size_t) j] = pt;
        }
    }
    return true;
}
// single-parent rules only (localp, localp0 with order != 0); everything else counts as not closed
static bool hierarchy_closed_under_nearest_ancestors(TasmanianSparseGrid const &g){
    TypeOneDRule rule = g.getRule(); int order = g.getOrder();
    if (!(rule == rule_localp || rule == rule_localp0) || order == 0) return false;
    int d = g.getNumDimensions(), n = g.getNumPoints();
    if (n == 0 || n > 1500 || g.isSetConformalTransformASIN()) return false;
    const int *idx = g.getPointsIndexes();
    std::map<std::vector<int>, int> slot;
    for(int i=0; i<n; i++) slot[std::vector<int>(idx + (size_t) i * (size_t) d, idx + (size_t)(i + 1) * (size_t) d)] = i;
    // nearest present ancestor links
    std::vector<std::vector<int>> up((size_t) n);
    for(int i=0; i<n; i++){
        std::vector<int> p(idx + (size_t) i * (size_t) d, idx + (size_t)(i + 1) * (size_t) d);
        for(int j=0; j<d; j++){
            int save = p[(size_t) j], cur = save;
            while(true){
                int pa = hier::parent(rule, order, cur);
                if (pa < 0) break;
                p[(size_t) j] = pa;
                auto it = slot.find(p);
                if (it != slot.end()){ up[(size_t) i].push_back(it->second); break; }
                cur = pa;
            }
            p[(size_t) j] = save;
        }
    }
    // basis functions that are non-zero at the nodes (from the library's basis evaluation, a different route than surpluses / trees)
    std::vector<double> x = g.getPoints(), M;
    g.evaluateHierarchicalFunctions(x, M);
    if (M.size() != (size_t) n * (size_t) n) return false;
    std::vector<char> reach((size_t) n);
    for(int i=0; i<n; i++){
        std::fill(reach.begin(), reach.end(), 0);
        std::vector<int> stack = up[(size_t) i];
        while(!stack.empty()){ int q = stack.back(); stack.pop_back(); if (reach[(size_t) q]) continue; reach[(size_t) q] = 1; for(int r : up[(size_t) q]) if (!reach[(size_t) r]) stack.push_back(r); }
        for(int j=0; j<n; j++) if (j != i && M[(size_t) i * (size_t) n + (size_t) j] != 0.0 && !reach[(size_t) j]) return false;
    }
    return true;
}
static std::string famname(TasmanianSparseGrid const &g){
    // Local polynomial grids whose hierarchy has missing parents (classic refinement, construction in progress) get their own key class:
    // there the surplus computation and the transposed transform behind the weight routes are not transposes of each other (recorded finding)
    // The finding is narrowed structurally: the library links every point to its NEAREST PRESENT ancestor in each direction, so the forward sweep sees
    // the set A(i) of points reachable upwards through those links.  When A(i) contains every basis function that is non-zero at node i (for all i)
    // the sweep is the exact triangular solve and all routes must agree although parents are missing: such grids ("closed") keep the plain key.
    if (g.isLocalPolynomial()){
        if (g.getOrder() == 0) return pwc_parents_loaded(g) ? "localp" : "localp:incomplete-hierarchy";
        if (all_parents_loaded(g) != 0) return "localp";
        return hierarchy_closed_under_nearest_ancestors(g) ? "localp" : "localp:incomplete-hierarchy";
    }
    return g.isGlobal() ? "global" : g.isSequence() ? "sequence" : g.isWavelet() ? "wavelet" : "fourier";
}

// probe points: random interior points, grid nodes, and (local bases) points just inside / outside the reported supports
// Fourier grids: the closed-form (differentiation) weights divide by powers of |1 - exp(2 pi i (x - node))| and lose digits next to a node;
// random probes are therefore placed at least 0.2 of the finest node spacing away from every node (exact nodes are probed separately)
static std::vector<double> fourier_probes(TasmanianSparseGrid const &g, Rng &rng, int n){
    int d = g.getNumDimensions();
    std::vector<double> lo, hi; domain_box(g, lo, hi);
    std::vector<int> N((size_t) d, 1);
    const int *idx = g.getPointsIndexes();
    for(size_t q=0; q<(size_t) g.getNumPoints() * (size_t) d; q++){ int &t = N[q % (size_t) d]; while (t <= idx[q]) t *= 3; }
    std::vector<double> x((size_t) n * (size_t) d);
    for(int i=0; i<n; i++) for(int j=0; j<d; j++){
        double t = ((double) rng.range(0, N[(size_t) j] - 1) + rng.uni(0.2, 0.8)) / (double) N[(size_t) j];
        x[(size_t) i * (size_t) d + (size_t) j] = lo[(size_t) j] + t * (hi[(size_t) j] - lo[(size_t) j]);
    }
    return x;
}
static std::vector<double> c04_probes(TasmanianSparseGrid const &g, Rng &rng, int nrand, int nnodes){
    int d = g.getNumDimensions();
    std::vector<double> x = (g.isFourier() && g.getNumPoints() > 0) ? fourier_probes(g, rng, nrand) : probe_points(g, nrand, rng.next());
    std::vector<double> pts = g.getPoints();
    int np = g.getNumPoints();
    for(int i=0; i<nnodes && np > 0; i++){
        int k = rng.range(0, np - 1);
        x.insert(x.end(), pts.begin() + (long)((size_t) k * (size_t) d), pts.begin() + (long)((size_t)(k + 1) * (size_t) d));
    }
    return x;
}

// ---- clause: evaluate == weights*values == coefficients*basis == batch row == evaluateFast ----
static bool check_eval_routes(TasmanianSparseGrid const &g, CaseCtx &c, Rng &rng, std::string const &after){
    int d = g.getNumDimensions(), m = g.getNumOutputs(), n = g.getNumLoaded();
    if (m == 0 || n == 0) return true;
    std::string fam = famname(g);
    std::vector<double> x = c04_probes(g, rng, 5, 3);
    int nx = (int)(x.size() / (size_t) d);
    const double *v = g.getLoadedValues();
    const double *cf = g.getHierarchicalCoefficients();
    double vmx = 0; for(size_t q=0; q<(size_t) n * (size_t) m; q++) vmx = std::max(vmx, std::fabs(v[q]));
    std::vector<double> yb; g.evaluateBatch(x, yb);
    std::vector<double> hb = g.evaluateHierarchicalFunctions(x);
    size_t hstride = (size_t) n * (g.isFourier() ? 2 : 1);
    if (hb.size() != hstride * (size_t) nx){ c.viol("routes:hierarchical-size:" + fam, J().str("after", after).obj()); return false; }
    for(int i=0; i<nx; i++){
        std::vector<double> xi(x.begin() + (long)((size_t) i * (size_t) d), x.begin() + (long)((size_t)(i + 1) * (size_t) d));
        std::vector<double> y1((size_t) m, poison()), yf((size_t) m, poison());
        g.evaluate(xi.data(), y1.data());
        g.evaluateFast(xi.data(), yf.data());
        g_c04_last_probe = xi;
        std::vector<double> w = g.getInterpolationWeights(xi);
        if ((int) w.size() != n){ c.viol("routes:weights-size:" + fam, J().str("after", after).obj()); return false; }
        for(int k=0; k<m; k++){
            double sw = 0.0, aw = 0.0, sh = 0.0, ah = 0.0;
            for(int j=0; j<n; j++){ double t = w[(size_t) j] * v[(size_t) j * (size_t) m + (size_t) k]; sw += t; aw += std::fabs(t); }
            if (g.isFourier()){
                const double *cr = cf, *ci = cf + (size_t) n * (size_t) m;
                for(int j=0; j<n; j++){
                    double br = hb[(size_t) i * hstride + 2 * (size_t) j], bi = hb[(size_t) i * hstride + 2 * (size_t) j + 1];
                    double t1 = cr[(size_t) j * (size_t) m + (size_t) k] * br, t2 = ci[(size_t) j * (size_t) m + (size_t) k] * bi;
                    sh += t1 - t2; ah += std::fabs(t1) + std::fabs(t2);
                }
            }else{
                for(int j=0; j<n; j++){ double t = cf[(size_t) j * (size_t) m + (size_t) k] * hb[(size_t) i * hstride + (size_t) j]; sh += t; ah += std::fabs(t); }
            }
            double ye = y1[(size_t) k];
            if (is_poison(ye) || is_poison(yf[(size_t) k])){ c.viol("routes:output-not-written:" + fam, J().str("after", after).i("output", k).obj()); return false; }
            // evaluate() itself goes through the hierarchical representation (cancellation scale ah), the weights route through the nodal one (aw);
            // weights/basis values that vanish in exact arithmetic carry noise of order eps, hence the floor proportional to max|v|
            double floor_v = 2e3 * EPS * vmx * std::sqrt((double) n);
            double tolw = 2e3 * EPS * (aw + ah + std::fabs(ye)) + floor_v + 1e-290, tolh = tolw;
            if (g.isWavelet()){ tolw += 1e-8 * (aw + 1e-300); tolh += 1e-8 * (aw + ah); } // iterative solves stopped at a residual of 1e-12, matrices of refined grids have condition 1e3..1e4 (5.9e-9 relative seen once in 20000 thorough cases)
            if (g.isFourier()){ tolw += 1e-9 * (aw + 1e-300); tolh += 1e-9 * (aw + ah); } // the closed-form weights divide by 1 - exp(2 pi i (x - node)): digits are lost near nodes // FFT based coefficients versus closed-form weights: different summation orders over 3^l terms // weights of wavelets come from an iterative transposed solve (tol 1e-12)
            if (!(std::fabs(ye - sw) <= tolw)){
                c.viol("routes:evaluate-vs-interpolation-weights:" + fam, J().str("after", after).vec("x", xi).i("output", k).num("evaluate", ye).num("weights_times_values", sw).num("tol", tolw).obj()); return false; }
            if (!(std::fabs(ye - sh) <= tolh)){
                c.viol("routes:evaluate-vs-hierarchical-product:" + fam, J().str("after", after).vec("x", xi).i("output", k).num("evaluate", ye).num("coeff_times_basis", sh).num("tol", tolh).obj()); return false; }
            if (!(std::fabs(ye - yb[(size_t) i * (size_t) m + (size_t) k]) <= tolw)){
                c.viol("routes:evaluate-vs-batch-row:" + fam, J().str("after", after).vec("x", xi).i("output", k).num("evaluate", ye).num("batch", yb[(size_t) i * (size_t) m + (size_t) k]).obj()); return false; }
            if (!(std::fabs(ye - yf[(size_t) k]) <= tolw)){
                c.viol("routes:evaluate-vs-evaluateFast:" + fam, J().str("after", after).vec("x", xi).i("output", k).num("evaluate", ye).num("fast", yf[(size_t) k]).obj()); return false; }
            c.count("route_comparisons", 4);
        }
    }
    return true;
}

// ---- clause: sparse hierarchical matrix == dense, entry by entry (local polynomial and wavelet grids) ----
static bool check_sparse_dense(TasmanianSparseGrid const &g, CaseCtx &c, Rng &rng, std::string const &after){
    if (!g.isLocalPolynomial() && !g.isWavelet()) return true;
    int d = g.getNumDimensions(), n = g.getNumPoints();
    if (n == 0) return true;
    std::string fam = famname(g);
    static const int sizes[] = {1, 31, 32, 33, 65, 7};
    int nx = sizes[rng.range(0, 5)];
    std::vector<double> x = c04_probes(g, rng, std::max(1, nx - nx / 3), nx / 3);
    nx = (int)(x.size() / (size_t) d);
    std::vector<double> dense = g.evaluateHierarchicalFunctions(x);
    std::vector<int> pntr, indx; std::vector<double> vals;
    g.evaluateSparseHierarchicalFunctions(x, pntr, indx, vals);
    if ((int) pntr.size() != nx + 1 || pntr[0] != 0 || pntr.back() != (int) indx.size() || indx.size() != vals.size()){
        c.viol("sparse:malformed-csr:" + fam, J().str("after", after).i("nx", nx).obj()); return false; }
    int nz = g.evaluateSparseHierarchicalFunctionsGetNZ(x.data(), nx);
    if (nz != (int) indx.size()){ c.viol("sparse:getnz-mismatch:" + fam, J().str("after", after).i("getnz", nz).i("nnz", (long long) indx.size()).obj()); return false; }
    std::vector<int> sp((size_t) nx + 1, -7), si((size_t) nz + 1, -7); std::vector<double> sv((size_t) nz + 1, poison());
    g.evaluateSparseHierarchicalFunctionsStatic(x.data(), nx, sp.data(), si.data(), sv.data());
    for(int i=0; i<=nx; i++) if (sp[(size_t) i] != pntr[(size_t) i]){ c.viol("sparse:static-vs-vector:" + fam, J().str("after", after).obj()); return false; }
    for(int q=0; q<nz; q++) if (si[(size_t) q] != indx[(size_t) q] || !same_bits(sv[(size_t) q], vals[(size_t) q])){ c.viol("sparse:static-vs-vector:" + fam, J().str("after", after).obj()); return false; }
    for(int i=0; i<nx; i++){
        std::vector<double> row((size_t) n, 0.0);
        if (pntr[(size_t) i + 1] < pntr[(size_t) i]){ c.viol("sparse:malformed-csr:" + fam, J().str("after", after).obj()); return false; }
        for(int q=pntr[(size_t) i]; q<pntr[(size_t) i + 1]; q++){
            if (indx[(size_t) q] < 0 || indx[(size_t) q] >= n){ c.viol("sparse:index-out-of-range:" + fam, J().str("after", after).obj()); return false; }
            row[(size_t) indx[(size_t) q]] += vals[(size_t) q];
        }
        for(int j=0; j<n; j++){
            double a = row[(size_t) j], b = dense[(size_t) i * (size_t) n + (size_t) j];
            if (!(std::fabs(a - b) <= 64 * EPS * std::max(std::fabs(a), std::fabs(b)))){
                c.viol("sparse:entry-differs-from-dense:" + fam, J().str("after", after).i("batch", nx).i("row", i).i("basis", j).num("sparse", a).num("dense", b)
                       .vec("x", std::vector<double>(x.begin() + (long)((size_t) i * (size_t) d), x.begin() + (long)((size_t)(i + 1) * (size_t) d))).obj());
                return false;
            }
        }
    }
    c.count("sparse_dense_entries", (long long) nx * n);
    return true;
}

// ---- clause: reported supports ----
static bool check_support(TasmanianSparseGrid const &g, CaseCtx &c, Rng &rng, std::string const &after){
    int d = g.getNumDimensions(), n = g.getNumPoints();
    if (n == 0) return true;
    std::string fam = famname(g);
    if (g.isSetConformalTransformASIN()) return true; // radii are reported for the linear geometry; a nonlinear map has no hypercube supports
    std::vector<double> sup = g.getHierarchicalSupport();
    if (sup.size() != (size_t) n * (size_t) d){ c.viol("support:size:" + fam, J().str("after", after).obj()); return false; }
    std::vector<double> pts = g.getPoints();
    std::vector<double> lo, hi; domain_box(g, lo, hi);
    bool unbounded = is_unbounded(g.getRule());
    // probes: for a sample of basis functions, points displaced from the node by support*(1 +- 1e-9) in one direction, plus random points
    std::vector<double> x = probe_points(g, 4, rng.next());
    std::vector<int> which;
    int nb = std::min(n, 6);
    for(int s=0; s<nb; s++){
        int j = rng.range(0, n - 1);
        for(int dir=0; dir<d; dir++) for(int sgn=-1; sgn<=1; sgn+=2) for(int io=0; io<2; io++){
            std::vector<double> p(pts.begin() + (long)((size_t) j * (size_t) d), pts.begin() + (long)((size_t)(j + 1) * (size_t) d));
            double r = sup[(size_t) j * (size_t) d + (size_t) dir];
            p[(size_t) dir] += sgn * r * (io ? (1.0 + 1e-9) : (1.0 - 1e-9));
            if (!unbounded && (p[(size_t) dir] < lo[(size_t) dir] || p[(size_t) dir] > hi[(size_t) dir])) continue; // outside the domain
            x.insert(x.end(), p.begin(), p.end());
        }
    }
    int nx = (int)(x.size() / (size_t) d);
    std::vector<double> hb = g.evaluateHierarchicalFunctions(x);
    size_t stride = (size_t) n * (g.isFourier() ? 2 : 1);
    for(int i=0; i<nx; i++) for(int j=0; j<n; j++){
        bool outside = false;
        for(int k=0; k<d; k++){
            double dist = std::fabs(x[(size_t) i * (size_t) d + (size_t) k] - pts[(size_t) j * (size_t) d + (size_t) k]);
            double r = sup[(size_t) j * (size_t) d + (size_t) k];
            if (dist > r * (1.0 + 1e-12) + 1e-300) outside = true;
        }
        if (!outside) continue;
        double val = g.isFourier() ? std::hypot(hb[(size_t) i * stride + 2 * (size_t) j], hb[(size_t) i * stride + 2 * (size_t) j + 1]) : hb[(size_t) i * stride + (size_t) j];
        c.count("support_outside_pairs");
        if (val != 0.0){
            std::string cls = (g.isLocalPolynomial() || g.isWavelet()) ? fam : (unbounded ? "global-unbounded-rule" : fam);
            c.viol("support:basis-nonzero-outside-reported-support:" + cls, J().str("after", after).i("basis", j).num("value", val)
                   .vec("x", std::vector<double>(x.begin() + (long)((size_t) i * (size_t) d), x.begin() + (long)((size_t)(i + 1) * (size_t) d)))
                   .vec("node", std::vector<double>(pts.begin() + (long)((size_t) j * (size_t) d), pts.begin() + (long)((size_t)(j + 1) * (size_t) d)))
                   .vec("support", std::vector<double>(sup.begin() + (long)((size_t) j * (size_t) d), sup.begin() + (long)((size_t)(j + 1) * (size_t) d))).obj());
            return (cls == "global-unbounded-rule"); // recorded finding: keep checking the other clauses of this case
        }
    }
    return true;
}

// ---- clause: integrate == quadrature weights * values == coefficients * basis integrals ----
static bool check_integrals(TasmanianSparseGrid const &g, CaseCtx &c, std::string const &after){
    int m = g.getNumOutputs(), n = g.getNumLoaded();
    if (m == 0 || n == 0) return true;
    std::string fam = famname(g);
    std::vector<double> q((size_t) m, poison());
    g.integrate(q.data());
    std::vector<double> q2 = g.integrate();
    std::vector<double> w = g.getQuadratureWeights();
    std::vector<double> bi = g.integrateHierarchicalFunctions();
    if ((int) w.size() != n || (int) bi.size() != n){ c.viol("integrate:sizes:" + fam, J().str("after", after).obj()); return false; }
    const double *v = g.getLoadedValues();
    const double *cf = g.getHierarchicalCoefficients();
    for(int k=0; k<m; k++){
        if (is_poison(q[(size_t) k])){ c.viol("integrate:output-not-written:" + fam, J().str("after", after).obj()); return false; }
        double s1 = 0, a1 = 0, s2 = 0, a2 = 0;
        for(int j=0; j<n; j++){
            double t = w[(size_t) j] * v[(size_t) j * (size_t) m + (size_t) k]; s1 += t; a1 += std::fabs(t);
            double u = cf[(size_t) j * (size_t) m + (size_t) k] * bi[(size_t) j]; s2 += u; a2 += std::fabs(u); // Fourier: real parts come first, the integrals of the imaginary parts vanish
        }
        double tol1 = 4e3 * EPS * (a1 + std::fabs(q[(size_t) k])) + 1e-290, tol2 = 4e3 * EPS * (a1 + a2 + std::fabs(q[(size_t) k])) + 1e-290;
        if (g.isWavelet()){ tol1 += 1e-9 * a1; tol2 += 1e-9 * (a1 + a2); }
        if (!same_bits(q[(size_t) k], q2[(size_t) k])){ c.viol("integrate:overloads-differ:" + fam, J().str("after", after).obj()); return false; }
        if (!(std::fabs(q[(size_t) k] - s1) <= tol1)){
            c.viol("integrate:vs-quadrature-weights:" + fam, J().str("after", after).i("output", k).num("integrate", q[(size_t) k]).num("weights_times_values", s1).num("tol", tol1).obj()); return false; }
        // under a conformal map integrate() is itself a quadrature approximation of the mapped integrand: no identity with the basis integrals
        if (!g.isSetConformalTransformASIN() && !(std::fabs(q[(size_t) k] - s2) <= tol2)){
            c.viol("integrate:vs-basis-integrals:" + fam, J().str("after", after).i("output", k).num("integrate", q[(size_t) k]).num("coeff_times_integrals", s2).num("tol", tol2).obj()); return false; }
        c.count("integral_comparisons", 2);
    }
    return true;
}

// ---- clause: differentiate == differentiation weights * values (vector and raw-array overloads) ----
static bool check_derivatives(TasmanianSparseGrid const &g, CaseCtx &c, Rng &rng, std::string const &after){
    int d = g.getNumDimensions(), m = g.getNumOutputs(), n = g.getNumLoaded();
    if (m == 0 || n == 0) return true;
    if (g.isSetConformalTransformASIN()) return true; // documented: derivatives are not available under conformal maps
    std::string fam = famname(g);
    std::vector<double> x = g.isFourier() ? fourier_probes(g, rng, 3) : probe_points(g, 3, rng.next());
    const double *v = g.getLoadedValues();
    std::vector<double> stale; // a buffer that is re-used between calls, as a user would
    for(int i=0; i<3; i++){
        std::vector<double> xi(x.begin() + (long)((size_t) i * (size_t) d), x.begin() + (long)((size_t)(i + 1) * (size_t) d));
        std::vector<double> jac; g.differentiate(xi, jac);
        std::vector<double> jraw((size_t) m * (size_t) d, poison()); g.differentiate(xi.data(), jraw.data());
        if (jac.size() != (size_t) m * (size_t) d){ c.viol("diff:jacobian-size:" + fam, J().str("after", after).obj()); return false; }
        // three ways of asking for the weights
        std::vector<double> w1 = g.getDifferentiationWeights(xi);
        std::vector<double> w2((size_t) n * (size_t) d, poison()); g.getDifferentiationWeights(xi.data(), w2.data());
        if (stale.empty()) stale.assign((size_t) n * (size_t) d, 777.0);
        g.getDifferentiationWeights(xi, stale);
        if (w1.size() != (size_t) n * (size_t) d || stale.size() != w1.size()){ c.viol("diff:weights-size:" + fam, J().str("after", after).obj()); return false; }
        for(size_t q=0; q<w1.size(); q++){
            if (is_poison(w2[q])){ c.viol("diff:raw-weights-not-written:" + fam, J().str("after", after).i("entry", (long long) q).i("num_points", n).i("dims", d).obj()); return false; }
            if (!same_bits(w1[q], w2[q])){ c.viol("diff:raw-weights-differ-from-vector-overload:" + fam, J().str("after", after).i("entry", (long long) q).num("vector", w1[q]).num("raw", w2[q]).obj()); return false; }
            if (!same_bits(w1[q], stale[q])){ c.viol("diff:reused-vector-weights-differ:" + fam, J().str("after", after).i("entry", (long long) q).num("fresh", w1[q]).num("reused", stale[q]).obj()); return false; }
        }
        double vmx = 0; for(size_t q=0; q<(size_t) n * (size_t) m; q++) vmx = std::max(vmx, std::fabs(v[q]));
        std::vector<double> aw_v((size_t) d, 0.0);
        for(int j=0; j<n; j++) for(int dir=0; dir<d; dir++) aw_v[(size_t) dir] += std::fabs(w1[(size_t) j * (size_t) d + (size_t) dir]) * vmx;
        for(int k=0; k<m; k++) for(int dir=0; dir<d; dir++){
            double s = 0, a = 0;
            for(int j=0; j<n; j++){ double t = w1[(size_t) j * (size_t) d + (size_t) dir] * v[(size_t) j * (size_t) m + (size_t) k]; s += t; a += std::fabs(t); }
            double got = jac[(size_t) k * (size_t) d + (size_t) dir];
            if (is_poison(jraw[(size_t) k * (size_t) d + (size_t) dir])){ c.viol("diff:raw-jacobian-not-written:" + fam, J().str("after", after).obj()); return false; }
            double tol = 4e3 * EPS * (aw_v[(size_t) dir] + std::fabs(got)) + 1e-290; // sum |w_j| max|v| : the natural rounding scale of the weighted sum
            if (g.isFourier()) tol += 1e-6 * aw_v[(size_t) dir]; // closed-form derivative weights divide by |1 - exp(2 pi i (x - node))|^4
            tol += 4e3 * EPS * vmx; // weights that are zero in exact arithmetic carry rounding noise of the order eps
            if (g.isWavelet()) tol += 1e-8 * (aw_v[(size_t) dir] + 1e-300);
            (void) a;
            if (!(std::fabs(got - s) <= tol)){
                c.viol("diff:differentiate-vs-weights:" + fam, J().str("after", after).vec("x", xi).i("output", k).i("dir", dir).num("differentiate", got).num("weights_times_values", s).num("tol", tol).obj()); return false; }
            if (!(std::fabs(got - jraw[(size_t) k * (size_t) d + (size_t) dir]) <= tol)){
                c.viol("diff:overloads-differ:" + fam, J().str("after", after).obj()); return false; }
            c.count("derivative_comparisons");
        }
    }
    return true;
}

// ---- clause: setHierarchicalCoefficients / getHierarchicalCoefficients (on a copy) ----
static bool check_set_coeffs(TasmanianSparseGrid const &src, CaseCtx &c, Rng &rng, std::string const &after){
    int m = src.getNumOutputs();
    if (m == 0 || src.getNumPoints() == 0 || src.isUsingConstruction()) return true;
    std::string fam = famname(src);
    TasmanianSparseGrid g = src;
    int np = g.getNumPoints();
    size_t nc = (size_t) np * (size_t) m * (g.isFourier() ? 2 : 1);
    std::vector<double> cf(nc);
    for(auto &t : cf) t = rng.uni(-1.0, 1.0);
    if (g.isFourier()){
        if (g.getNumLoaded() == 0) return true;
        const double *old = g.getHierarchicalCoefficients();
        for(size_t i=0; i<nc; i++) cf[i] = 0.75 * old[i];
    }
    try{ g.setHierarchicalCoefficients(cf); }
    catch(std::exception &e){ c.viol("setcoeff:exception:" + fam, J().str("after", after).str("what", e.what()).obj()); return false; }
    if (g.getNumLoaded() != np || g.getNumNeeded() != 0){ c.viol("setcoeff:points-not-loaded:" + fam, J().str("after", after).i("loaded", g.getNumLoaded()).i("expected", np).obj()); return false; }
    const double *back = g.getHierarchicalCoefficients();
    for(size_t i=0; i<nc; i++) if (!same_bits(back[i], cf[i])){
        c.viol("setcoeff:get-differs-from-set:" + fam, J().str("after", after).i("entry", (long long) i).num("set", cf[i]).num("get", back[i]).obj()); return false; }
    if (!g.isGlobal()){
        std::vector<double> x = interior_nudged(g, g.getLoadedPoints());
        std::vector<double> y; g.evaluateBatch(x, y);
        const double *v = g.getLoadedValues();
        double vmax = 0; for(size_t i=0; i<y.size(); i++) vmax = std::max(vmax, std::fabs(y[i]));
        std::vector<double> hb; double amax = 1.0;
        for(size_t i=0; i<y.size(); i++){
            double tol = 1e5 * EPS * (vmax * amax + 1e-300) * (double)(g.getNumDimensions() + 1) + (g.isSetConformalTransformASIN() ? 1e-7 * vmax : 0.0) + (g.isSetDomainTransfrom() ? 1e-9 * vmax : 0.0);
            if (!(std::fabs(y[i] - v[i]) <= tol)){
                c.viol("setcoeff:values-not-surrogate-at-nodes:" + fam, J().str("after", after).i("entry", (long long) i).num("value", v[i]).num("surrogate", y[i]).num("tol", tol)
                       .vec("x", std::vector<double>(x.begin() + (long)((i / (size_t) m) * (size_t) g.getNumDimensions()), x.begin() + (long)((i / (size_t) m + 1) * (size_t) g.getNumDimensions()))).obj()); return false; }
        }
    }
    c.count("setcoeff_roundtrips");
    return true;
}

void mon_c04(CaseCtx &c, Rng &rng){
    GenOpts go; go.min_outs = 0; go.max_points = c.thorough ? 600 : 220; go.max_dims = c.thorough ? 4 : 3; go.custom = true;
    HState h;
    if (!init_history(h, rng, go, c)){ emit_begin(c, h.cfg.json()); return; }
    emit_begin(c, h.cfg.json());
    HOpts ho; ho.max_points = go.max_points;
    int nsteps = rng.range(1, c.thorough ? 8 : 5);
    int checked_states = 0;
    // a disagreement of routes on a wavelet grid whose coefficients do not solve the collocation system is the solver finding of C01 seen through
    // another route: it is classified with the same dense LU and reported under its own key class (everything else keeps the plain key)
    c.key_filter = [&](std::string const &key)->std::string{
        if (!h.g.isWavelet() || h.g.getNumLoaded() == 0 || h.g.getNumOutputs() == 0 || key.find(":wavelet") == std::string::npos) return key;
        std::string cls = wavelet_failure_class(h.g);
        if (cls.empty() && key.find("interpolation-weights") != std::string::npos && (int) g_c04_last_probe.size() == h.g.getNumDimensions())
            cls = wavelet_weights_failure_class(h.g, g_c04_last_probe); // the transposed solve behind the weights
        return cls.empty() ? key : "wavelet-solver:" + cls + ":" + key;
    };
    auto check_state = [&](std::string const &after)->bool{
        TasmanianSparseGrid const &g = h.g;
        if (g.getNumPoints() == 0) return true;
        // the interpolation machinery of a Lagrange basis on several hundred nodes in one direction over/underflows: not a rounding-level statement
        if (g.isGlobal() || g.isSequence()){
            const int *idx = g.getPointsIndexes(); int mx = 0;
            for(size_t q=0; q<(size_t) g.getNumPoints() * (size_t) g.getNumDimensions(); q++) mx = std::max(mx, idx[q]);
            if (mx > 200){ c.count("skipped:ill-conditioned-basis"); return true; }
        }
        bool ok = check_eval_routes(g, c, rng, after) && check_sparse_dense(g, c, rng, after) && check_support(g, c, rng, after)
               && check_integrals(g, c, after) && check_derivatives(g, c, rng, after) && check_set_coeffs(g, c, rng, after);
        checked_states++;
        return ok;
    };
    if (!check_state("make")) return;
    for(int i=0; i<nsteps; i++){
        Step s = choose_step(h, rng, ho);
        if (s.kind == Step::none) break;
        if (s.kind == Step::surplus_loc && s.scale_mode) s.scale_mode = 0;
        std::string err = apply_step(h.g, s, &h);
        if (!err.empty()){ c.viol("step-exception:" + s.name() + ":" + err.substr(0, err.find(':')), J().str("what", err).kv("step", s.json()).obj()); return; }
        if (h.g.getNumPoints() > 3 * go.max_points) break;
        if (!check_state(s.name())) return;
        // a merge zeroes the values, which hides stale caches: follow it with a coefficient overwrite on the real object (not a copy) and look again
        if (s.kind == Step::merge_ref && h.g.getNumOutputs() > 0 && rng.coin(0.8)){
            Step s2; s2.kind = Step::set_coeffs; s2.subseed = rng.next();
            std::string e2 = apply_step(h.g, s2, &h);
            if (!e2.empty()){ c.viol("step-exception:set_coeffs:" + e2.substr(0, e2.find(':')), J().str("what", e2).obj()); return; }
            if (!check_state("merge_ref+set_coeffs")) return;
        }
    }
    c.count("states_checked", checked_states);
    std::string tr; for(auto const &t : h.trace) tr += t.substr(0, 3) + ".";
    c.sig(h.cfg.sig() + "|" + tr);
}

} // namespace vf
