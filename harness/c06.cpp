// C06 - write() then read() restores the complete observable state of a grid
#include "monitors.hpp"
#include <fstream>
#include <cstdio>

namespace vf{

static std::string wr(TasmanianSparseGrid const &g, bool binary){
    std::ostringstream os(std::ios::out | std::ios::binary);
    g.write(os, binary);
    return os.str();
}
static void rd(TasmanianSparseGrid &g, std::string const &bytes, bool binary){
    std::istringstream is(bytes, std::ios::in | std::ios::binary);
    g.read(is, binary);
}
static std::string state_class(TasmanianSparseGrid const &g){
    if (g.empty()) return "empty";
    std::string s = g.isGlobal() ? "global" : g.isSequence() ? "sequence" : g.isLocalPolynomial() ? "localp" : g.isWavelet() ? "wavelet" : "fourier";
    if (g.isUsingConstruction()) s += "+construction";
    else if (g.getNumNeeded() > 0 && g.getNumLoaded() > 0) s += "+pending";
    else if (g.getNumLoaded() == 0) s += "+fresh";
    return s;
}

void mon_c06(CaseCtx &c, Rng &rng){
    GenOpts go; go.min_outs = 0; go.max_points = c.thorough ? 500 : 160; go.max_dims = c.thorough ? 4 : 3; go.custom = true;
    HState h;
    bool empty_case = rng.coin(0.02);
    if (empty_case){ emit_begin(c, "{\"state\":\"empty\"}"); }
    else{
        if (!random_state(h, rng, c, go, c.thorough ? 7 : 5)){ emit_begin(c, h.cfg.json()); return; }
        std::string tr; for(auto const &t : h.trace) tr += t + ",";
        emit_begin(c, J().kv("cfg", h.cfg.json()).str("history", tr).obj());
    }
    TasmanianSparseGrid &S = h.g;
    std::string cls = state_class(S);
    std::string B, A;
    try{ B = wr(S, true); A = wr(S, false); }
    catch(std::exception &e){ c.viol("write:exception:" + cls, J().str("what", e.what()).obj()); return; }
    TasmanianSparseGrid Sb, Sa, Sfb, Sfa;
    // restore onto non-empty grids half of the time (read must replace whatever was there)
    if (rng.coin()){ Sb.makeLocalPolynomialGrid(2, 1, 2); Sa.makeGlobalGrid(1, 2, 3, type_level, rule_clenshawcurtis); }
    const char *tmp = getenv("VF_TMPDIR"); if (!tmp) tmp = "/var/tmp";
    std::string fb = std::string(tmp) + "/vf_c06_" + std::to_string((long long) getpid()) + "_b.tsg", fa = std::string(tmp) + "/vf_c06_" + std::to_string((long long) getpid()) + "_a.tsg";
    try{
        rd(Sb, B, true); rd(Sa, A, false);
        S.write(fb.c_str(), true); S.write(fa.c_str(), false);
        Sfb.read(fb.c_str()); Sfa.read(fa.c_str());
        // the files must hold the same bytes as the streams
        auto slurp = [](std::string const &f){ std::ifstream is(f, std::ios::binary); std::ostringstream os; os << is.rdbuf(); return os.str(); };
        if (slurp(fb) != B){ c.viol("write:file-differs-from-stream:binary:" + cls, "{}"); }
        if (slurp(fa) != A){ c.viol("write:file-differs-from-stream:ascii:" + cls, "{}"); }
    }catch(std::exception &e){
        std::remove(fb.c_str()); std::remove(fa.c_str());
        c.viol("read:exception:" + cls, J().str("what", e.what()).obj()); return;
    }
    std::remove(fb.c_str()); std::remove(fa.c_str());
    if (c.nviol) return;
    ObsOpts oo;
    Obs o = observe(S, oo);
    struct Tw{ const char *name; TasmanianSparseGrid *g; } tw[] = {{"binary-stream", &Sb}, {"ascii-stream", &Sa}, {"binary-file", &Sfb}, {"ascii-file", &Sfa}};
    for(auto &t : tw){
        std::string df = obs_diff_state(o, observe(*t.g, oo));
        if (!df.empty()){ c.viol(std::string("restore:") + t.name + ":" + df + ":" + cls, J().str("field", df).obj()); return; }
    }
    // re-writing the restored grids reproduces the original bytes, also across formats
    if (wr(Sb, true) != B){ c.viol("rewrite:binary-bytes-differ:" + cls, "{}"); return; }
    if (wr(Sa, false) != A){ c.viol("rewrite:ascii-bytes-differ:" + cls, "{}"); return; }
    if (wr(Sa, true) != B){ c.viol("rewrite:ascii-restored-writes-other-binary:" + cls, "{}"); return; }
    if (wr(Sb, false) != A){ c.viol("rewrite:binary-restored-writes-other-ascii:" + cls, "{}"); return; }
    c.count("roundtrips", 4);
    c.count("bytes_binary", (long long) B.size());
    // continuation in lock-step: a dropped optional section shows up as soon as it is needed
    if (!S.empty()){
        HOpts ho; ho.max_points = go.max_points;
        std::string detail;
        std::string df = lockstep(h, {&Sb, &Sa}, rng, c.thorough ? 5 : 4, ho, detail);
        if (!df.empty()){ c.viol("continuation:" + df + ":" + cls, detail); return; }
        // and the continued grids still round-trip
        std::string B2 = wr(S, true);
        if (wr(Sb, true) != B2 || wr(Sa, true) != B2){ c.viol("continuation:bytes-differ-after-continuation:" + cls, "{}"); return; }
    }
    std::string sections = cls;
    if (!S.empty()){
        if (S.isSetDomainTransfrom()) sections += "/T";
        if (S.isSetConformalTransformASIN()) sections += "/C";
        if (!S.getLevelLimits().empty()) sections += "/L";
        if (h.cfg.custom) sections += "/custom";
        if (S.getNumOutputs() == 0) sections += "/0out";
    }
    c.count("state:" + cls);
    std::string tr; for(auto const &t : h.trace) tr += t.substr(0, 3) + ".";
    c.sig(sections + "|" + (S.empty() ? std::string("") : h.cfg.sig()) + "|" + tr);
}

} // namespace vf
