// C07 - refinement never loses or mis-associates data and selects what it documents
#include "monitors.hpp"

namespace vf{

struct Snap{
    std::vector<double> loaded, needed, values, probes_y;
    int nl = 0, nn = 0;
};
static Snap take_snap(TasmanianSparseGrid const &g, std::vector<double> const &probes){
    Snap s; s.nl = g.getNumLoaded(); s.nn = g.getNumNeeded();
    s.loaded = g.getLoadedPoints(); s.needed = g.getNeededPoints();
    int m = g.getNumOutputs();
    if (m > 0 && s.nl > 0){
        const double *v = g.getLoadedValues(); s.values.assign(v, v + (size_t) s.nl * (size_t) m);
        g.evaluateBatch(probes, s.probes_y);
    }
    return s;
}
static std::set<PKey> keyset(std::vector<double> const &pts, int d){
    std::set<PKey> s; size_t n = pts.size() / (size_t) d;
    for(size_t i=0; i<n; i++) s.insert(pkey(&pts[i * (size_t) d], d));
    return s;
}
static bool bitwise_equal(std::vector<double> const &a, std::vector<double> const &b){
    if (a.size() != b.size()) return false;
    for(size_t i=0; i<a.size(); i++) if (!same_bits(a[i], b[i])) return false;
    return true;
}

// independent selection oracle for the classic criterion (local polynomial order != 0 and wavelet grids)
// returns 1 agree, 0 disagree (witness filled), -1 inconclusive (tie at the tolerance)
static int selection_oracle(TasmanianSparseGrid const &g, Step const &s, std::vector<int> const &limits_in_force, std::vector<double> const &scale,
                            std::vector<double> const &coeff_before, std::vector<double> const &values_before, std::vector<int> const &idx_before,
                            std::string &witness){
    int d = g.getNumDimensions(), m = g.getNumOutputs();
    int n = (int)(idx_before.size() / (size_t) d);
    bool wav = g.isWavelet();
    TypeOneDRule rule = g.getRule(); int order = g.getOrder();
    std::vector<double> norm((size_t) m, 0.0);
    for(int i=0; i<n; i++) for(int k=0; k<m; k++) norm[(size_t) k] = std::max(norm[(size_t) k], std::fabs(values_before[(size_t) i * (size_t) m + (size_t) k]));
    std::set<std::vector<int>> have;
    for(int i=0; i<n; i++) have.insert(std::vector<int>(idx_before.begin() + (long)((size_t) i * (size_t) d), idx_before.begin() + (long)((size_t)(i + 1) * (size_t) d)));
    std::set<std::vector<int>> expect;
    int active = (s.output == -1) ? m : 1;
    for(int i=0; i<n; i++){
        bool flagged = (s.tol == 0.0);
        if (!flagged){
            for(int a=0; a<active; a++){
                int k = (s.output == -1) ? a : s.output;
                double sc = scale.empty() ? 1.0 : scale[(size_t) i * (size_t) active + (size_t) a];
                if (!(norm[(size_t) k] > 0.0)) continue; // 0/0 is never above the tolerance
                double ratio = sc * std::fabs(coeff_before[(size_t) i * (size_t) m + (size_t) k]) / norm[(size_t) k];
                if (std::fabs(ratio - s.tol) <= 1e-12 * std::max(ratio, s.tol)) return -1; // tie
                if (ratio > s.tol) flagged = true;
            }
        }
        if (!flagged) continue;
        std::vector<int> p(idx_before.begin() + (long)((size_t) i * (size_t) d), idx_before.begin() + (long)((size_t)(i + 1) * (size_t) d));
        for(int j=0; j<d; j++){
            int save = p[(size_t) j];
            int k1, k2;
            if (wav) hier::wkids(order, save, k1, k2);
            else{ k1 = hier::kid_left(rule, order, save); k2 = hier::kid_right(rule, order, save); }
            for(int kid : {k1, k2}){
                if (kid < 0) continue;
                int lvl = wav ? hier::wlevel(order, kid) : hier::level(rule, order, kid);
                if (!limits_in_force.empty() && limits_in_force[(size_t) j] >= 0 && lvl > limits_in_force[(size_t) j]) continue;
                p[(size_t) j] = kid;
                if (!have.count(p)) expect.insert(p);
            }
            p[(size_t) j] = save;
        }
    }
    std::set<std::vector<int>> got;
    int nn = g.getNumNeeded();
    if (nn > 0 && g.isLocalPolynomial()){
        const int *ni = g.getNeededIndexes();
        for(int i=0; i<nn; i++) got.insert(std::vector<int>(ni + (size_t) i * (size_t) d, ni + (size_t)(i + 1) * (size_t) d));
    }else if (nn > 0){
        // the needed indexes of a wavelet grid are not exposed: load dummy values into a copy and read the indexes of the points that became loaded
        TasmanianSparseGrid cp = g;
        cp.loadNeededValues(std::vector<double>((size_t) nn * (size_t) m, 0.0));
        const int *ai = cp.getPointsIndexes();
        for(int i=0; i<cp.getNumLoaded(); i++){
            std::vector<int> p(ai + (size_t) i * (size_t) d, ai + (size_t)(i + 1) * (size_t) d);
            if (!have.count(p)) got.insert(p);
        }
    }
    if (got == expect) return 1;
    std::vector<int> missing, extra;
    for(auto const &e : expect) if (!got.count(e)){ missing = e; break; }
    for(auto const &e : got) if (!expect.count(e)){ extra = e; break; }
    witness = J().i("expected", (long long) expect.size()).i("proposed", (long long) got.size()).vec("missing_index", missing).vec("unexpected_index", extra).obj();
    return 0;
}

void mon_c07(CaseCtx &c, Rng &rng){
    GenOpts go; go.min_outs = 1; go.max_points = c.thorough ? 500 : 200; go.max_dims = c.thorough ? 4 : 3; go.custom = true;
    if (rng.coin(0.45)) go.families = (1u << fam_localp) | (1u << fam_wavelet); // the selection clause is about these two
    HState h;
    if (!init_history(h, rng, go, c)){ emit_begin(c, h.cfg.json()); return; }
    emit_begin(c, h.cfg.json());
    HOpts ho; ho.max_points = go.max_points; ho.construction = false; // construction is C09's subject
    int nsteps = rng.range(3, c.thorough ? 10 : 7);
    int d = h.g.getNumDimensions(), m = h.g.getNumOutputs();
    std::vector<double> probes = probe_points(h.g, 5, rng.next());
    int checked = 0, sel_checked = 0;
    // consistency of the oracle's index <-> node map with the library's points (canonical grids only)
    if ((h.g.isLocalPolynomial() && h.g.getOrder() != 0) || h.g.isWavelet()){
        if (!h.g.isSetDomainTransfrom() && !h.g.isSetConformalTransformASIN() && h.g.getNumPoints() > 0){
            std::vector<double> pts = h.g.getPoints(); const int *idx = h.g.getPointsIndexes();
            for(size_t q=0; q<pts.size(); q++){
                double nd = h.g.isWavelet() ? hier::wnode(h.g.getOrder(), idx[q]) : hier::node(h.g.getRule(), h.g.getOrder(), idx[q]);
                if (std::fabs(nd - pts[q]) > 1e-14){ c.viol("points:index-node-mismatch", J().i("index", idx[q]).num("library_node", pts[q]).num("documented_node", nd).obj()); return; }
            }
        }
    }
    for(int i=0; i<nsteps; i++){
        Step s = choose_step(h, rng, ho);
        if (s.kind == Step::none) break;
        TasmanianSparseGrid &g = h.g;
        Snap before = take_snap(g, probes);
        std::vector<double> coeff_before, scale;
        std::vector<int> idx_before;
        bool selection_applies = (s.kind == Step::surplus_loc && s.crit == refine_classic && ((g.isLocalPolynomial() && g.getOrder() != 0) || g.isWavelet()));
        if (s.kind == Step::surplus_loc && g.isWavelet()) s.scale_mode = 0; // wavelets take no scale correction
        if (selection_applies){
            const double *cf = g.getHierarchicalCoefficients(); coeff_before.assign(cf, cf + (size_t) before.nl * (size_t) m);
            const int *ix = g.getPointsIndexes(); idx_before.assign(ix, ix + (size_t) before.nl * (size_t) d);
            if (s.scale_mode) scale = history_scale(g, s.output, s.subseed);
            if (rng.coin(0.15) && before.nl > 0){ // tolerance above the largest ratio: nothing may be proposed
                s.tol = 1e9;
            }
        }
        std::string err = apply_step(g, s, &h);
        if (!err.empty()){
            std::string cls = err.substr(0, err.find(':'));
            if (s.kind == Step::surplus_loc && s.scale_mode == 1 && cls == "invalid_argument")
                c.viol("scale-correction:documented-size-rejected", J().str("what", err).kv("step", s.json()).i("loaded", before.nl).i("outputs", m).obj());
            else
                c.viol("step-exception:" + s.name() + ":" + cls, J().str("what", err).kv("step", s.json()).obj());
            return;
        }
        if (!check_shadow(h, c, "shadow", s.name())) return;
        Snap after = take_snap(g, probes);
        std::set<PKey> lb = keyset(before.loaded, d), nb = keyset(before.needed, d), la = keyset(after.loaded, d);
        switch(s.kind){
            case Step::load:{
                std::set<PKey> exp = lb; exp.insert(nb.begin(), nb.end());
                if (la != exp){ c.viol("load:loaded-set-is-not-old-loaded-plus-needed", J().i("before", (long long) lb.size()).i("needed", (long long) nb.size()).i("after", (long long) la.size()).obj()); return; }
                if (after.nn != 0){ c.viol("load:needed-not-cleared", J().i("needed_after", after.nn).obj()); return; }
                break; }
            case Step::reload:
                if (la != lb){ c.viol("reload:point-set-changed", "{}"); return; }
                break;
            case Step::merge_ref:{
                std::set<PKey> exp = lb; exp.insert(nb.begin(), nb.end());
                if (la != exp || after.nn != 0){ c.viol("merge:point-set-wrong", J().i("after", (long long) la.size()).i("expected", (long long) exp.size()).obj()); return; }
                for(double v : after.values) if (v != 0.0){ c.viol("merge:values-not-zero", J().num("value", v).obj()); return; }
                break; }
            case Step::clear_ref:
                if (after.nn != 0){ c.viol("clear:needed-not-empty", J().i("needed_after", after.nn).obj()); return; }
                // fall through: loaded data must be untouched
            case Step::aniso: case Step::surplus_seq: case Step::surplus_loc: case Step::update: case Step::clear_limits:
                if (before.nl > 0){
                    if (!bitwise_equal(before.loaded, after.loaded)){ c.viol("refine:loaded-points-changed:" + s.name(), J().kv("step", s.json()).obj()); return; }
                    if (!bitwise_equal(before.values, after.values)){ c.viol("refine:values-changed:" + s.name(), J().kv("step", s.json()).obj()); return; }
                    if (!bitwise_equal(before.probes_y, after.probes_y)){ c.viol("refine:surrogate-changed:" + s.name(), J().kv("step", s.json()).obj()); return; }
                }
                break;
            default: break;
        }
        checked++;
        if (selection_applies){
            std::string witness;
            std::vector<int> lim = g.getLevelLimits();
            int r = selection_oracle(g, s, lim, scale, coeff_before, before.values, idx_before, witness);
            if (r == -1) c.count("selection:inconclusive-tie");
            else if (r == 0){
                c.viol(std::string("selection:classic:") + (g.isWavelet() ? "wavelet" : "localp") + (s.tol == 0.0 ? ":tol0" : (s.tol >= 1e9 ? ":huge-tol" : "")) + (scale.empty() ? "" : ":scaled"),
                       J().kv("step", s.json()).kv("diff", witness).vec("limits", lim).obj());
                return;
            }else{
                sel_checked++;
                c.count(s.tol == 0.0 ? "selection:tol0" : (s.tol >= 1e9 ? "selection:huge-tol" : "selection:mid-tol"));
                if (!scale.empty()) c.count(s.raw_overload ? "selection:scaled-raw" : "selection:scaled-vector");
                if (after.nn > 0 && after.nn < 2 * d * before.nl) c.count("selection:strict-subset");
            }
        }
        if (h.g.getNumPoints() > 3 * go.max_points) break;
    }
    if (checked == 0){ c.inconc("no-step"); return; }
    c.count("steps_checked", checked); c.count("selections_checked", sel_checked);
    std::string tr; for(auto const &t : h.trace) tr += t.substr(0, 3) + (t.size() > 12 ? t.substr(12, 2) : "") + ".";
    c.sig(h.cfg.sig() + "|" + tr);
}

} // namespace vf
