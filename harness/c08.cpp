// C08 - level limits bound every point a grid ever contains or proposes; no non-termination when nothing is admissible
#include "monitors.hpp"

namespace vf{

static thread_local long g_ticks = 0;
static void tick_handler(const char *tag, long, long){
    if (std::strcmp(tag, "aniso-grow-tick") == 0){
        if (++g_ticks > 100000) throw std::runtime_error("verif-tick-limit");
    }
}

// admissible 1-D coordinates for dimension j under limit L: the nodes of the 1-D grids of the same family / rule / order with depth 0..L
struct Admissible{
    Cfg cfg;
    std::map<std::pair<int,int>, std::vector<double>> cache;
    std::vector<double> const& get(int j, int L){
        auto key = std::make_pair(j, L);
        auto it = cache.find(key);
        if (it != cache.end()) return it->second;
        std::vector<double> all;
        bool nonnested = (cfg.family == fam_global) && (cfg.custom || OneDimensionalMeta::isNonNested(cfg.rule));
        for(int l = nonnested ? 0 : L; l <= L; l++){
            Cfg c1 = cfg; c1.dims = 1; c1.outs = 0; c1.depth = l; c1.type = type_level; c1.aw.clear(); c1.limits.clear();
            if (!cfg.ta.empty()){ c1.ta = {cfg.ta[(size_t) j]}; c1.tb = {cfg.tb[(size_t) j]}; }
            if (!cfg.conformal.empty()) c1.conformal = {cfg.conformal[(size_t) j]};
            TasmanianSparseGrid r;
            switch(c1.family){
                case fam_global:
                    if (c1.custom == 1) r.makeGlobalGrid(1, 0, l, type_level, rule_customtabulated, {}, 0.0, 0.0, c1.custom_file.c_str());
                    else if (c1.custom == 2) r.makeGlobalGrid(1, 0, l, type_level, make_custom_rule(8, true));
                    else r.makeGlobalGrid(1, 0, l, type_level, c1.rule, {}, c1.alpha, c1.beta);
                    break;
                case fam_sequence: r.makeSequenceGrid(1, 0, l, type_level, c1.rule); break;
                case fam_localp: r.makeLocalPolynomialGrid(1, 0, l, c1.order, c1.rule); break;
                case fam_wavelet: r.makeWaveletGrid(1, 0, l, c1.order); break;
                default: r.makeFourierGrid(1, 0, l, type_level); break;
            }
            apply_transforms(r, c1);
            std::vector<double> p = r.getPoints();
            all.insert(all.end(), p.begin(), p.end());
        }
        std::sort(all.begin(), all.end());
        return cache[key] = all;
    }
    // returns -1 when every coordinate is admissible, otherwise the index of the first offending point
    long check(std::vector<double> const &pts, int d, std::vector<int> const &limits, int &bad_dim){
        if (limits.empty()) return -1;
        size_t n = pts.size() / (size_t) d;
        for(int j=0; j<d; j++){
            int L = limits[(size_t) j];
            if (L < 0) continue;
            std::vector<double> const &adm = get(j, L);
            double scale = 1e-300; for(double a : adm) scale = std::max(scale, std::fabs(a));
            for(size_t i=0; i<n; i++){
                double x = pts[i * (size_t) d + (size_t) j];
                auto it = std::lower_bound(adm.begin(), adm.end(), x);
                double best = 1e300;
                if (it != adm.end()) best = std::min(best, std::fabs(*it - x));
                if (it != adm.begin()) best = std::min(best, std::fabs(*(it - 1) - x));
                if (best > 1e-11 * scale + 1e-13){ bad_dim = j; return (long) i; }
            }
        }
        return -1;
    }
};

// smallest level per dimension that holds every coordinate of pts (nodes of nested rules appear first at their own level)
static std::vector<int> min_levels(Admissible &adm, std::vector<double> const &pts, int d, int cap){
    std::vector<int> r((size_t) d, 0);
    for(int j=0; j<d; j++){
        std::vector<int> lim((size_t) d, -1);
        int L = 0;
        for(; L<=cap; L++){
            lim[(size_t) j] = L; int bd;
            if (adm.check(pts, d, lim, bd) < 0) break;
        }
        r[(size_t) j] = L;
    }
    return r;
}

static bool check_limits_state(HState &h, Admissible &adm, CaseCtx &c, std::string const &after, bool check_all_points){
    TasmanianSparseGrid &g = h.g;
    int d = g.getNumDimensions();
    std::vector<int> lim = g.getLevelLimits();
    if (lim != h.expected_limits){
        c.viol("limits:not-persistent-or-not-replaced:" + after.substr(0, after.find(':')), J().str("after", after).vec("reported", lim).vec("expected", h.expected_limits).obj());
        return false;
    }
    int bad_dim = -1;
    std::vector<double> nd = g.getNeededPoints();
    long bad = adm.check(nd, d, lim, bad_dim);
    if (bad >= 0){
        c.viol("limits:needed-point-above-limit:" + after.substr(0, after.find(':')) + ":" + fam_name(h.cfg.family), J().str("after", after).vec("limits", lim).i("dim", bad_dim)
               .vec("x", std::vector<double>(nd.begin() + bad * d, nd.begin() + (bad + 1) * d)).obj());
        return false;
    }
    c.count("needed_points_checked", (long long)(nd.size() / (size_t) d));
    if (check_all_points){
        std::vector<double> lp = g.getLoadedPoints();
        bad = adm.check(lp, d, lim, bad_dim);
        if (bad >= 0){
            c.viol("limits:point-above-limit:" + after.substr(0, after.find(':')) + ":" + fam_name(h.cfg.family), J().str("after", after).vec("limits", lim).i("dim", bad_dim)
                   .vec("x", std::vector<double>(lp.begin() + bad * d, lp.begin() + (bad + 1) * d)).obj());
            return false;
        }
        c.count("loaded_points_checked", (long long)(lp.size() / (size_t) d));
    }
    return true;
}

// number of points of the full limited box (product of the 1-D admissible node counts)
static long long box_points(Admissible &adm, int d, std::vector<int> const &lim){
    long long t = 1;
    for(int j=0; j<d; j++) t *= (long long) adm.get(j, lim[(size_t) j]).size();
    return t;
}

static void saturated_case(CaseCtx &c, Rng &rng){
    // a grid that already fills its limited box: every refinement / update / candidate request must return with nothing
    GenOpts go; go.min_outs = 1; go.max_outs = 2; go.max_dims = 3; go.nonnested = false; go.conformal = false; go.limits = false; go.max_points = 100000;
    Cfg cfg = gen_cfg(rng, go);
    cfg.limits.resize((size_t) cfg.dims);
    int budget = (cfg.family == fam_fourier) ? 2 : 3;
    for(auto &l : cfg.limits) l = rng.range(0, std::max(0, budget - (cfg.dims > 2 ? 1 : 0)));
    if (cfg.family == fam_global && cfg.rule == rule_gausspatterson) for(auto &l : cfg.limits) l = std::min(l, 2);
    cfg.depth = 40; cfg.type = rng.coin() ? type_level : type_tensor; cfg.aw.clear();
    if (cfg.family == fam_localp || cfg.family == fam_wavelet) cfg.depth = 12; // local grids: depth is the level sum, limits cap each direction
    {   // keep the full box small (wavelet solves and Lagrange caches grow quickly): shrink the largest limit until the box has <= 1200 points
        Admissible pre; pre.cfg = cfg;
        while (box_points(pre, cfg.dims, cfg.limits) > 1200){
            auto it = std::max_element(cfg.limits.begin(), cfg.limits.end());
            if (*it == 0) break;
            (*it)--;
        }
    }
    emit_begin(c, J().str("scenario", "saturated").kv("cfg", cfg.json()).obj());
    HState h; h.cfg = cfg;
    TasmanianSparseGrid &g = h.g;
    try{
        switch(cfg.family){
            case fam_global: g.makeGlobalGrid(cfg.dims, cfg.outs, cfg.depth, cfg.type, cfg.rule, cfg.aw, cfg.alpha, cfg.beta, nullptr, cfg.limits); break;
            case fam_sequence: g.makeSequenceGrid(cfg.dims, cfg.outs, cfg.depth, cfg.type, cfg.rule, cfg.aw, cfg.limits); break;
            case fam_localp: g.makeLocalPolynomialGrid(cfg.dims, cfg.outs, cfg.depth, cfg.order, cfg.rule, cfg.limits); break;
            case fam_wavelet: g.makeWaveletGrid(cfg.dims, cfg.outs, cfg.depth, cfg.order, cfg.limits); break;
            default: g.makeFourierGrid(cfg.dims, cfg.outs, cfg.depth, cfg.type, cfg.aw, cfg.limits); break;
        }
        apply_transforms(g, cfg);
    }catch(std::exception &e){ c.inconc("make-failed"); return; }
    Admissible adm; adm.cfg = cfg;
    h.expected_limits = cfg.limits;
    long long full = box_points(adm, cfg.dims, cfg.limits);
    if (g.getNumPoints() != full){
        // the box is not full (e.g. local grids cap the level sum): not the saturated scenario
        c.inconc("box-not-full"); return;
    }
    if (!check_limits_state(h, adm, c, "make", true)) return;
    std::vector<double> pts = g.getNeededPoints();
    g.loadNeededValues(model_values(pts, cfg.dims, cfg.outs, 1, 1));
    int ncalls = 0;
    auto expect_nothing = [&](std::string const &what, std::function<void()> call)->bool{
        g_ticks = 0;
        try{ call(); }
        catch(std::runtime_error &e){
            if (std::string(e.what()) == "verif-tick-limit"){
                c.viol("termination:grow-loop-does-not-terminate:" + what, J().str("call", what).i("ticks", g_ticks).vec("limits", cfg.limits).i("points", g.getNumPoints()).i("box", full).obj());
                return false;
            }
            c.viol("termination:exception:" + what, J().str("call", what).str("what", e.what()).obj()); return false;
        }
        catch(std::exception &e){ c.viol("termination:exception:" + what, J().str("call", what).str("what", e.what()).obj()); return false; }
        if (g.getNumNeeded() != 0){
            c.viol("termination:points-proposed-in-full-box:" + what, J().str("call", what).i("needed", g.getNumNeeded()).vec("limits", cfg.limits).obj());
            return false;
        }
        ncalls++;
        return true;
    };
    int fam = cfg.family, outs = cfg.outs;
    bool seq_rule = (fam == fam_sequence) || (fam == fam_global && OneDimensionalMeta::isSequence(cfg.rule));
    for(int rep=0; rep<4; rep++){
        if (fam == fam_global || fam == fam_sequence || fam == fam_fourier){
            TypeDepth t = rng.pick(depth_types());
            if (t == type_tensor || t == type_iptensor || t == type_qptensor) t = type_iptotal;
            int mg = rng.range(1, 50), out = rng.range(0, outs - 1);
            bool raw = rng.coin(0.3), pass = rng.coin(0.4);
            if (!expect_nothing("setAnisotropicRefinement:" + tname(t), [&](){
                    if (raw) g.setAnisotropicRefinement(t, mg, out, pass ? cfg.limits.data() : nullptr);
                    else g.setAnisotropicRefinement(t, mg, out, pass ? cfg.limits : std::vector<int>()); })) return;
            TypeDepth tu = rng.pick(depth_types());
            int dep = rng.range(1, 30);
            if (!expect_nothing("updateGrid:" + tname(tu), [&](){ g.updateGrid(dep, tu, std::vector<int>(), std::vector<int>()); })) return;
        }
        if (seq_rule){
            double tol = rng.coin() ? 1e-14 : 1e-3; int out = rng.range(0, outs - 1);
            if (!expect_nothing("setSurplusRefinement(seq)", [&](){ g.setSurplusRefinement(tol, out, std::vector<int>()); })) return;
        }
        if (fam == fam_localp || fam == fam_wavelet){
            static const TypeRefinement crits[] = {refine_classic, refine_parents_first, refine_direction_selective, refine_fds, refine_stable};
            TypeRefinement cr = crits[rng.range(0, 4)];
            double tol = rng.coin() ? 0.0 : 1e-6; int out = rng.coin() ? -1 : rng.range(0, outs - 1);
            if (!expect_nothing("setSurplusRefinement:" + refname(cr), [&](){ g.setSurplusRefinement(tol, cr, out, std::vector<int>()); })) return;
        }
    }
    // construction candidates in the full box
    try{
        g.beginConstruction();
        std::vector<double> cand;
        if (fam == fam_localp || fam == fam_wavelet) cand = g.getCandidateConstructionPoints(0.0, refine_classic, -1);
        else{
            cand = g.getCandidateConstructionPoints(type_level, std::vector<int>((size_t) cfg.dims, 1));
            std::vector<double> c2 = g.getCandidateConstructionPoints(type_iptotal, 0);
            cand.insert(cand.end(), c2.begin(), c2.end());
        }
        if (!cand.empty()){ c.viol("termination:candidates-in-full-box", J().i("candidates", (long long)(cand.size() / (size_t) cfg.dims)).vec("limits", cfg.limits).obj()); return; }
        g.finishConstruction();
        ncalls++;
    }catch(std::exception &e){ c.viol("termination:exception:candidates", J().str("what", e.what()).obj()); return; }
    c.count("saturated_calls_returned_empty", ncalls);
    c.sig("saturated|" + cfg.sig());
}

void mon_c08(CaseCtx &c, Rng &rng){
    g_hook_handler.store(&tick_handler);
    struct Reset{ ~Reset(){ g_hook_handler.store(nullptr); } } reset;
    if (rng.coin(0.25)){ saturated_case(c, rng); return; }
    GenOpts go; go.min_outs = 1; go.max_points = c.thorough ? 400 : 180; go.max_dims = c.thorough ? 4 : 3; go.custom = true;
    HState h;
    Rng r2 = rng.fork();
    h.cfg = gen_cfg(r2, go);
    // limits are the subject: always set them at make time (with -1 and 0 entries) unless the coin says "set them later"
    if (h.cfg.limits.empty() && rng.coin(0.7)){
        h.cfg.limits.resize((size_t) h.cfg.dims);
        for(auto &l : h.cfg.limits){ l = rng.range(-1, std::max(1, std::min(h.cfg.depth, 4))); if (rng.coin(0.15)) l = 0; }
    }
    std::string err;
    if (!make_grid(h.g, h.cfg, go.max_points, &err)){ emit_begin(c, h.cfg.json()); c.inconc("make-failed"); return; }
    emit_begin(c, h.cfg.json());
    h.expected_limits = h.cfg.limits; h.vmode = rng.coin() ? 0 : 1;
    Admissible adm; adm.cfg = h.cfg;
    if (!check_limits_state(h, adm, c, "make", true)) return;
    HOpts ho; ho.max_points = go.max_points; ho.set_coeffs = false;
    int d = h.g.getNumDimensions();
    bool cand_ok = true;
    std::vector<double> offered; // every candidate ever returned (they stay candidates in the global/sequence/fourier constructors)
    h.on_candidates = [&](std::vector<double> const &cand){
        offered.insert(offered.end(), cand.begin(), cand.end());
        int bad_dim = -1;
        long bad = adm.check(cand, d, h.g.getLevelLimits(), bad_dim);
        c.count("candidate_points_checked", (long long)(cand.size() / (size_t) d));
        if (bad >= 0 && cand_ok){
            cand_ok = false;
            c.viol(std::string("limits:candidate-above-limit:") + fam_name(h.cfg.family), J().vec("limits", h.g.getLevelLimits()).i("dim", bad_dim)
                   .vec("x", std::vector<double>(cand.begin() + bad * d, cand.begin() + (bad + 1) * d)).obj());
        }
    };
    int nsteps = rng.range(3, c.thorough ? 10 : 7), limited_steps = 0;
    for(int i=0; i<nsteps; i++){
        Step s = choose_step(h, rng, ho);
        if (s.kind == Step::none) break;
        if (s.kind == Step::surplus_loc) s.scale_mode = 0;
        // pass limits more often than the default histories do
        bool takes_limits = (s.kind == Step::aniso || s.kind == Step::surplus_seq || s.kind == Step::surplus_loc || s.kind == Step::update || s.kind == Step::cand_load);
        if (takes_limits && s.limits.empty() && rng.coin(0.35)){
            s.limits.resize((size_t) d);
            for(auto &l : s.limits){ l = rng.range(-1, std::max(1, std::min(h.cfg.depth + 1, 5))); if (rng.coin(0.15)) l = 0; }
            if (s.kind == Step::aniso && (s.type == type_hyperbolic || s.type == type_iphyperbolic || s.type == type_qphyperbolic)) s.type = type_iptotal;
        }
        if (s.kind == Step::aniso && is_curved(s.type) && !s.limits.empty() && rng.coin(0.6))
            s.limits[(size_t) rng.range(0, d - 1)] = -1; // curved (possibly non-lower) selections with an unlimited direction
        // generator limit (10.3): a curved selection with an unlimited direction can ask for level ~20 in that direction; Fourier rules have 3^l points
        // (int overflow in pow3) and the greedy sequences cost a nested optimisation per node beyond their tables - those keep finite limits
        if (s.kind == Step::aniso && is_curved(s.type) && !s.limits.empty() && (h.g.isFourier() || ((h.g.isSequence() || h.g.isGlobal()) && is_optimized_sequence(h.g.getRule()))))
            for(auto &l : s.limits) if (l < 0) l = h.g.isFourier() ? 4 : 5;
        if (s.kind == Step::begin_c){ std::vector<double> nd = h.g.getNeededPoints(); offered.insert(offered.end(), nd.begin(), nd.end()); } // they become the initial candidates
        if (!s.limits.empty()){
            // New limits never fall below the levels that are already present (loaded, needed or previously offered candidates): tightening
            // below existing points makes children inherit coordinates above the limit, which the statement does not rule on.
            std::vector<double> all = h.g.getLoadedPoints(); std::vector<double> nd = h.g.getNeededPoints();
            all.insert(all.end(), nd.begin(), nd.end()); all.insert(all.end(), offered.begin(), offered.end());
            std::vector<int> lmin = min_levels(adm, all, d, 40);
            for(int j=0; j<d; j++) if (s.limits[(size_t) j] >= 0) s.limits[(size_t) j] = std::max(s.limits[(size_t) j], lmin[(size_t) j]);
        }
        g_ticks = 0;
        std::string e = apply_step(h.g, s, &h);
        if (!e.empty()){
            if (e.find("verif-tick-limit") != std::string::npos)
                c.viol("termination:grow-loop-does-not-terminate:history:" + s.name(), J().kv("step", s.json()).vec("limits", h.g.getLevelLimits()).obj());
            else c.viol("step-exception:" + s.name() + ":" + e.substr(0, e.find(':')), J().str("what", e).kv("step", s.json()).obj());
            return;
        }
        if (!cand_ok) return;
        bool generates = (s.kind == Step::aniso || s.kind == Step::surplus_seq || s.kind == Step::surplus_loc || s.kind == Step::update);
        if (generates || s.kind == Step::clear_limits || s.kind == Step::begin_c || s.kind == Step::cand_load || s.kind == Step::finish_c || s.kind == Step::load){
            // needed points are checked right after the call that generated them, against the limits in force for that call
            bool only_limits_meta = !generates;
            if (only_limits_meta){
                std::vector<int> lim = h.g.getLevelLimits();
                if (lim != h.expected_limits){ c.viol("limits:not-persistent-or-not-replaced:" + s.name(), J().str("after", s.name()).vec("reported", lim).vec("expected", h.expected_limits).obj()); return; }
            }else{
                if (!check_limits_state(h, adm, c, s.name(), true)) return;
                if (!h.g.getLevelLimits().empty()) limited_steps++;
            }
        }
        if (h.g.getNumPoints() > 3 * go.max_points) break;
    }
    c.count("limited_generating_steps", limited_steps);
    std::string tr; for(auto const &t : h.trace) tr += t.substr(0, 3) + ".";
    c.sig(h.cfg.sig() + "|" + tr);
}

} // namespace vf
