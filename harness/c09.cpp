// C09 - dynamic construction does not depend on arrival order or batching of samples
#include "monitors.hpp"

namespace vf{

static const double EPS9 = std::numeric_limits<double>::epsilon();

// sum of 1-D "levels" of a point, used for the children-before-parents delivery order (index magnitude is monotone in the level for every rule)
static long level_proxy(const int *idx, int d){ long s = 0; for(int j=0; j<d; j++) s += idx[j]; return s; }

void mon_c09(CaseCtx &c, Rng &rng){
    GenOpts go; go.min_outs = 1; go.max_outs = 2; go.max_dims = 3; go.nonnested = false; go.conformal = false; go.max_points = c.thorough ? 220 : 90; go.max_depth = 6;
    go.limits = false;
    Cfg cfg = gen_cfg(rng, go);
    // reference grid R: its point set is the target T (lower-complete / hierarchy-complete by construction)
    TasmanianSparseGrid R;
    std::string err;
    if (!make_grid(R, cfg, go.max_points, &err) || R.getNumPoints() < 2){ emit_begin(c, cfg.json()); c.inconc("make-failed-or-trivial"); return; }
    int d = cfg.dims, m = cfg.outs;
    int vmode = rng.coin(0.6) ? 0 : 1;
    // optionally grow T by one refinement round of R (keeps completeness: stable strategy / anisotropic / surplus refinement of lower sets)
    std::string grown = "";
    {
        std::vector<double> p0 = R.getNeededPoints();
        R.loadNeededValues(model_values(p0, d, m, 1, vmode));
        if (rng.coin(0.4) && R.getNumPoints() < go.max_points / 2){
            try{
                if (R.isLocalPolynomial() || R.isWavelet()){ R.setSurplusRefinement(rng.coin() ? 0.0 : 0.05, refine_stable, -1, std::vector<int>()); grown = "+stable"; }
                else if (R.isSequence() || (R.isGlobal() && OneDimensionalMeta::isSequence(R.getRule()))){ R.setSurplusRefinement(0.05, rng.range(0, m - 1), std::vector<int>()); grown = "+surplus"; }
                else{ R.setAnisotropicRefinement(type_iptotal, rng.range(2, 10), R.isGlobal() ? 0 : -1, std::vector<int>()); grown = "+aniso"; }
                if (R.getNumNeeded() > 0 && R.getNumPoints() + R.getNumNeeded() <= 2 * go.max_points){
                    std::vector<double> p1 = R.getNeededPoints();
                    R.loadNeededValues(model_values(p1, d, m, 1, vmode));
                }else{ R.clearRefinement(); grown = ""; }
            }catch(std::exception &e){ c.viol("reference:exception", J().str("what", e.what()).obj()); emit_begin(c, cfg.json()); return; }
        }
    }
    emit_begin(c, J().kv("cfg", cfg.json()).str("target", std::to_string(R.getNumLoaded()) + " points" + grown).i("vmode", vmode).obj());
    std::string fam = fam_name(cfg.family);
    int n = R.getNumLoaded();
    std::vector<double> T = R.getLoadedPoints();
    std::vector<double> TV(R.getLoadedValues(), R.getLoadedValues() + (size_t) n * (size_t) m);
    std::vector<int> TI(R.getPointsIndexes(), R.getPointsIndexes() + (size_t) n * (size_t) d);
    std::set<PKey> Tset; for(int i=0; i<n; i++) Tset.insert(pkey(&T[(size_t) i * (size_t) d], d));
    std::vector<double> probes = probe_points(R, 6, rng.next());
    std::vector<double> yref; R.evaluateBatch(probes, yref);
    // tolerance of the surrogate comparison: conditioning estimate from the reference's interpolation weights
    std::vector<double> tol(yref.size(), 0.0);
    {
        double vmax = vmaxabs(TV);
        for(int i=0; i<6; i++){
            std::vector<double> w = R.getInterpolationWeights(&probes[(size_t) i * (size_t) d]);
            double s = 0; for(double t : w) s += std::fabs(t);
            for(int k=0; k<m; k++) tol[(size_t) i * (size_t) m + (size_t) k] = (R.isWavelet() ? 1e-8 : 1e4 * EPS9) * (s + 1.0) * (double)(d + 1) * (vmax + 1e-300);
        }
    }
    int K = c.thorough ? 10 : 6;
    int deliveries_ok = 0;
    for(int k=0; k<K; k++){
        // delivery order
        std::vector<int> ord((size_t) n); for(int i=0; i<n; i++) ord[(size_t) i] = i;
        std::string oname;
        switch(k){
            case 0: oname = "grid-order"; break;
            case 1: oname = "reverse"; std::reverse(ord.begin(), ord.end()); break;
            case 2: oname = "children-first";
                std::stable_sort(ord.begin(), ord.end(), [&](int a, int b){ return level_proxy(&TI[(size_t) a * (size_t) d], d) > level_proxy(&TI[(size_t) b * (size_t) d], d); }); break;
            default: oname = "random"; for(int i=n; i>1; i--) std::swap(ord[(size_t) i - 1], ord[(size_t) rng.range(0, i - 1)]); break;
        }
        // the last two streams are candidate driven (as constructSurrogate does it): candidates are requested between the deliveries and only
        // points that were offered are delivered; in the other streams the order is arbitrary and no candidate request interferes
        bool candidate_driven = (k >= K - 2);
        if (candidate_driven) oname = "candidate-driven";
        int bmode = (k == 0) ? 1 : (k == 1) ? 0 : rng.range(0, 2); // 0 one at a time, 1 all at once, 2 random batches
        const char *bname[] = {"single", "all", "batches"};
        std::string dname = oname + "/" + bname[bmode];
        // fresh grid: a small initial grid of the same configuration, then beginConstruction
        TasmanianSparseGrid g;
        Cfg c0 = cfg; c0.depth = rng.coin(0.5) ? 0 : std::min(cfg.depth, 1);
        std::string e2;
        if (!make_grid(g, c0, 100000, &e2)){ c.inconc("fresh-make-failed"); continue; }
        try{
            g.beginConstruction();
            int pos = 0, last_loaded = 0;
            std::set<PKey> delivered;
            std::map<PKey, int> tindex; for(int i=0; i<n; i++) tindex[pkey(&T[(size_t) i * (size_t) d], d)] = i;
            bool exhausted = false;
            while(pos < n && !exhausted){
                int b = (bmode == 0) ? 1 : (bmode == 1) ? n : rng.range(1, std::max(1, n / 3));
                b = std::min(b, n - pos);
                if (candidate_driven){
                    // rebuild the tail of the order from the current candidate list (restricted to the target and to undelivered points)
                    std::vector<double> cand;
                    if (g.isLocalPolynomial() || g.isWavelet()) cand = g.getCandidateConstructionPoints(0.0, refine_classic, -1);
                    else cand = g.getCandidateConstructionPoints(type_level, std::vector<int>((size_t) d, 1));
                    std::vector<double> lp = g.getLoadedPoints(); std::set<PKey> lset;
                    for(int i=0; i<g.getNumLoaded(); i++) lset.insert(pkey(&lp[(size_t) i * (size_t) d], d));
                    std::vector<int> offered;
                    size_t nc = cand.size() / (size_t) d;
                    for(size_t i=0; i<nc; i++){
                        PKey key = pkey(&cand[i * (size_t) d], d);
                        if (lset.count(key)){
                            c.viol("construction:candidate-already-loaded:" + fam, J().str("delivery", dname).i("loaded", g.getNumLoaded())
                                   .vec("x", std::vector<double>(cand.begin() + (long)(i * (size_t) d), cand.begin() + (long)((i + 1) * (size_t) d))).obj());
                            return;
                        }
                        auto it = tindex.find(key);
                        if (it != tindex.end() && !delivered.count(key)) offered.push_back(it->second);
                    }
                    c.count("candidate_lists_checked"); c.count("candidates_checked", (long long) nc);
                    if (offered.empty()){ exhausted = true; break; }
                    for(size_t i=offered.size(); i>1; i--) std::swap(offered[i - 1], offered[(size_t) rng.range(0, (int) i - 1)]);
                    b = std::min<int>(b, (int) offered.size());
                    if (rng.coin(0.5)) b = (int) offered.size();
                    for(int q=0; q<b; q++) ord[(size_t)(pos + q)] = offered[(size_t) q];
                }
                std::vector<double> x, y;
                for(int q=pos; q<pos+b; q++){
                    int i = ord[(size_t) q];
                    x.insert(x.end(), T.begin() + (long)((size_t) i * (size_t) d), T.begin() + (long)((size_t)(i + 1) * (size_t) d));
                    y.insert(y.end(), TV.begin() + (long)((size_t) i * (size_t) m), TV.begin() + (long)((size_t)(i + 1) * (size_t) m));
                    delivered.insert(pkey(&T[(size_t) i * (size_t) d], d));
                }
                if (b == 1 && rng.coin()) g.loadConstructedPoints(x.data(), 1, y.data()); else g.loadConstructedPoints(x, y);
                pos += b;
                int nl = g.getNumLoaded();
                if (nl < last_loaded){ c.viol("construction:loaded-count-decreased:" + fam, J().str("delivery", dname).i("before", last_loaded).i("after", nl).obj()); return; }
                last_loaded = nl;
                // occasionally look at the state in the middle of the stream
                if (!candidate_driven && rng.coin(bmode == 0 ? 0.08 : 0.5)){
                    std::vector<double> lp = g.getLoadedPoints();
                    std::set<PKey> lset;
                    for(int i=0; i<nl; i++){
                        PKey key = pkey(&lp[(size_t) i * (size_t) d], d);
                        lset.insert(key);
                        if (!delivered.count(key)){ c.viol("construction:loaded-point-not-delivered:" + fam, J().str("delivery", dname).obj()); return; }
                    }
                    c.count("midstream_looks");
                }
            }
            // after the last delivery (construction still active): exactly the target set, with the supplied values
            std::vector<double> lp = g.getLoadedPoints();
            int nl = g.getNumLoaded();
            std::set<PKey> lset; for(int i=0; i<nl; i++) lset.insert(pkey(&lp[(size_t) i * (size_t) d], d));
            if (candidate_driven && pos < n){
                // the candidate frontier never offered the rest of the target (e.g. tolerance-driven local refinement): every delivered sample was an
                // offered candidate, so all of them must be loaded; the comparison with the full reference does not apply
                for(auto const &kk : delivered) if (!lset.count(kk)){ c.viol("construction:offered-candidate-delivered-but-not-loaded:" + fam, J().str("delivery", dname).i("delivered", (long long) delivered.size()).i("loaded", nl).obj()); return; }
                c.count("candidate_driven_partial");
                continue;
            }
            if (lset != Tset || nl != n){
                size_t missing = 0; for(auto const &kk : Tset) if (!lset.count(kk)) missing++;
                c.viol("construction:final-point-set-differs:" + fam, J().str("delivery", dname).i("target", n).i("loaded", nl).i("missing", (long long) missing).obj());
                return;
            }
            const double *v = g.getLoadedValues();
            std::map<PKey, int> tpos; for(int i=0; i<n; i++) tpos[pkey(&T[(size_t) i * (size_t) d], d)] = i;
            for(int i=0; i<nl; i++){
                int ti = tpos[pkey(&lp[(size_t) i * (size_t) d], d)];
                for(int q=0; q<m; q++) if (!same_bits(v[(size_t) i * (size_t) m + (size_t) q], TV[(size_t) ti * (size_t) m + (size_t) q])){
                    c.viol("construction:value-misassociated:" + fam, J().str("delivery", dname).i("point", i).num("stored", v[(size_t) i * (size_t) m + (size_t) q]).num("supplied", TV[(size_t) ti * (size_t) m + (size_t) q]).obj());
                    return;
                }
            }
            std::vector<double> y; g.evaluateBatch(probes, y);
            for(size_t q=0; q<y.size(); q++) if (!(std::fabs(y[q] - yref[q]) <= tol[q])){
                c.viol("construction:surrogate-differs-from-one-batch-load:" + fam, J().str("delivery", dname).num("constructed", y[q]).num("reference", yref[q]).num("tol", tol[q]).i("probe", (long long)(q / (size_t) m)).obj());
                return;
            }
            g.finishConstruction();
            std::vector<double> y2; g.evaluateBatch(probes, y2);
            for(size_t q=0; q<y.size(); q++) if (!same_bits(y[q], y2[q])){ c.viol("construction:finish-changes-surrogate:" + fam, J().str("delivery", dname).obj()); return; }
            if (g.getNumLoaded() != n){ c.viol("construction:finish-changes-points:" + fam, J().str("delivery", dname).obj()); return; }
            // the finished grid reproduces its values (C01 oracle)
            if (check_reproduction(g, c, rng, "construction:reproduce", dname) >= 1e300) return;
            deliveries_ok++;
            c.count("delivery:" + dname);
        }catch(std::exception &e){
            c.viol("construction:exception:" + fam + ":" + exception_class(e), J().str("delivery", dname).str("what", e.what()).obj());
            return;
        }
    }
    if (deliveries_ok == 0){ c.inconc("no-delivery-completed"); return; }
    c.count("deliveries_completed", deliveries_ok);
    c.count("samples_delivered", (long long) deliveries_ok * n);
    c.sig(cfg.sig() + "|" + std::to_string(n) + grown);
}

} // namespace vf
