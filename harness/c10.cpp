// C10 - domain transforms act as an exact change of variables
#include "monitors.hpp"
#include <unistd.h>
#include <fcntl.h>
#include <signal.h>
#include <sys/wait.h>

namespace vf{

static const double EPS10 = std::numeric_limits<double>::epsilon();

// documented maps canonical -> transformed, per rule family (written from the documentation of TypeOneDRule / setDomainTransform)
struct DocMap{
    int d; TypeOneDRule rule; std::vector<double> a, b; bool has_lin = false; std::vector<int> asin_terms;
    double fwd_lin(int j, double t) const{
        if (!has_lin) return t;
        double aj = a[(size_t) j], bj = b[(size_t) j];
        if (is_laguerre(rule)) return aj + t / bj;
        if (is_hermite(rule)) return aj + t / std::sqrt(bj);
        if (rule == rule_fourier) return aj + t * (bj - aj);
        return 0.5 * (bj + aj) + 0.5 * (bj - aj) * t;
    }
    double dxdt(int j) const{
        if (!has_lin) return 1.0;
        double aj = a[(size_t) j], bj = b[(size_t) j];
        if (is_laguerre(rule)) return 1.0 / bj;
        if (is_hermite(rule)) return 1.0 / std::sqrt(bj);
        if (rule == rule_fourier) return (bj - aj);
        return 0.5 * (bj - aj);
    }
    // truncated, normalised Maclaurin series of arcsin and its derivative
    double asin_series(int j, double t, double *deriv = nullptr) const{
        if (asin_terms.empty()){ if (deriv) *deriv = 1.0; return t; }
        int p = asin_terms[(size_t) j];
        double ck = 1.0, sum = 0.0, dsum = 0.0, norm = 0.0, t2k = 1.0; // ck = (2k)! / (4^k (k!)^2)
        for(int k=0; k<=p; k++){
            if (k > 0) ck *= (2.0 * k - 1.0) / (2.0 * k);
            sum += ck / (2.0 * k + 1.0) * t2k * t; dsum += ck * t2k; norm += ck / (2.0 * k + 1.0);
            t2k *= t * t;
        }
        if (deriv) *deriv = dsum / norm;
        return sum / norm;
    }
    double fwd(int j, double t) const{ return fwd_lin(j, asin_series(j, t)); }
    double quad_scale(double alpha, double beta) const{
        if (!has_lin) return 1.0;
        double s = 1.0;
        for(int j=0; j<d; j++){
            double aj = a[(size_t) j], bj = b[(size_t) j];
            switch(rule){
                case rule_gausschebyshev1: case rule_gausschebyshev1odd: s *= 1.0; break; // ((b-a)/2)^(-1/2-1/2+1)
                case rule_gausschebyshev2: case rule_gausschebyshev2odd: s *= std::pow(0.5 * (bj - aj), 2.0); break;
                case rule_gaussgegenbauer: case rule_gaussgegenbauerodd: s *= std::pow(0.5 * (bj - aj), 2.0 * alpha + 1.0); break;
                case rule_gaussjacobi: case rule_gaussjacobiodd: s *= std::pow(0.5 * (bj - aj), alpha + beta + 1.0); break;
                case rule_gausslaguerre: case rule_gausslaguerreodd: s *= std::pow(bj, -(1.0 + alpha)); break;
                case rule_gausshermite: case rule_gausshermiteodd: s *= std::pow(bj, -0.5 * (1.0 + alpha)); break;
                case rule_fourier: s *= (bj - aj); break;
                default: s *= 0.5 * (bj - aj); break;
            }
        }
        return s;
    }
};

void mon_c10(CaseCtx &c, Rng &rng){
    GenOpts go; go.max_points = c.thorough ? 500 : 200; go.max_dims = 3; go.min_outs = 0; go.max_outs = 2; go.custom = true; go.max_depth = 8;
    Cfg cfg = gen_cfg(rng, go);
    int d = cfg.dims;
    // always a transform of some kind: linear (70%), conformal (where defined), or both
    bool want_lin = rng.coin(0.75), want_conf = (cfg.family != fam_fourier && !(cfg.family == fam_global && is_unbounded(cfg.rule))) && rng.coin(0.35);
    if (!want_lin && !want_conf) want_lin = true;
    if (want_lin && cfg.ta.empty()){
        cfg.ta.resize((size_t) d); cfg.tb.resize((size_t) d);
        for(int j=0; j<d; j++){
            if (cfg.family == fam_global && is_unbounded(cfg.rule)){ cfg.ta[(size_t) j] = rng.uni(-3.0, 3.0); cfg.tb[(size_t) j] = std::exp(rng.uni(-3.0, 3.0)); }
            else{ double ce = rng.coin(0.2) ? 0.0 : rng.uni(-100.0, 100.0), hf = std::exp(rng.uni(-6.0, 6.0)); if (rng.coin(0.2)) ce = -ce; cfg.ta[(size_t) j] = ce - hf; cfg.tb[(size_t) j] = ce + hf; }
        }
    }
    if (!want_lin){ cfg.ta.clear(); cfg.tb.clear(); }
    if (want_conf && cfg.conformal.empty()){ cfg.conformal.resize((size_t) d); for(auto &t : cfg.conformal) t = rng.range(1, 6); }
    if (!want_conf) cfg.conformal.clear();
    TasmanianSparseGrid T, C;
    std::string err;
    if (!make_grid(T, cfg, go.max_points, &err) || T.getNumPoints() == 0){ emit_begin(c, cfg.json()); c.inconc("make-failed"); return; }
    Cfg ccan = cfg; ccan.ta.clear(); ccan.tb.clear(); ccan.conformal.clear();
    if (!make_grid(C, ccan, 10000000, &err)){ emit_begin(c, cfg.json()); c.inconc("twin-make-failed"); return; }
    emit_begin(c, cfg.json());
    std::string cls = std::string(fam_name(cfg.family)) + ":" + (cfg.custom ? std::string("custom-tabulated") : rname(T.getRule())) + (want_conf ? "+conformal" : "") + (want_lin ? "+linear" : "");
    try{
        int n = T.getNumPoints(), m = cfg.outs;
        if (C.getNumPoints() != n){ c.viol("twin:point-count-differs:" + cls, J().i("transformed", n).i("canonical", C.getNumPoints()).obj()); return; }
        DocMap map; map.d = d; map.rule = T.getRule(); map.has_lin = want_lin; map.a = cfg.ta; map.b = cfg.tb; map.asin_terms = cfg.conformal;
        std::vector<double> xt = T.getPoints(), xc = C.getPoints();
        std::vector<double> scale_x((size_t) d, 1.0);
        for(int j=0; j<d; j++) scale_x[(size_t) j] = want_lin ? (std::fabs(cfg.ta[(size_t) j]) + std::fabs(cfg.tb[(size_t) j]) + std::fabs(map.dxdt(j))) : 1.0;
        // 1. points are the mapped canonical points, in the same order
        for(int i=0; i<n; i++) for(int j=0; j<d; j++){
            double expect = map.fwd(j, xc[(size_t) i * (size_t) d + (size_t) j]);
            double got = xt[(size_t) i * (size_t) d + (size_t) j];
            double tol = 64 * EPS10 * (scale_x[(size_t) j] + std::fabs(expect)) + (want_conf ? 1e-13 * scale_x[(size_t) j] : 0.0);
            if (!(std::fabs(got - expect) <= tol)){
                c.viol("points:not-the-documented-map-of-canonical-points:" + cls, J().i("point", i).i("dim", j).num("library", got).num("documented_map", expect).num("canonical", xc[(size_t) i * (size_t) d + (size_t) j]).obj()); return; }
        }
        c.count("points_compared", n);
        // 2. quadrature weights and basis integrals scale by the documented factor (conformal: times the derivative of the series at the canonical node)
        {
            std::vector<double> wt = T.getQuadratureWeights(), wc = C.getQuadratureWeights();
            double qs = map.quad_scale(cfg.alpha, cfg.beta);
            double wmax = 0; for(double v : wc) wmax = std::max(wmax, std::fabs(v));
            for(int i=0; i<n; i++){
                double expect = wc[(size_t) i] * qs;
                for(int j=0; j<d; j++){ double dv; map.asin_series(j, xc[(size_t) i * (size_t) d + (size_t) j], &dv); expect *= dv; }
                double tol = 1e3 * EPS10 * (std::fabs(expect) + wmax * std::fabs(qs)) * (double)(d + 1);
                if (!(std::fabs(wt[(size_t) i] - expect) <= tol)){
                    c.viol("quadrature-weights:wrong-transform-factor:" + cls, J().i("point", i).num("library", wt[(size_t) i]).num("canonical_times_documented_factor", expect).num("factor", qs).num("alpha", cfg.alpha).num("beta", cfg.beta).obj()); return; }
            }
            if (!want_conf){
                std::vector<double> bt = T.integrateHierarchicalFunctions(), bc = C.integrateHierarchicalFunctions();
                double bmax = 0; for(double v : bc) bmax = std::max(bmax, std::fabs(v));
                for(int i=0; i<n; i++) if (!(std::fabs(bt[(size_t) i] - bc[(size_t) i] * qs) <= 1e3 * EPS10 * (std::fabs(bc[(size_t) i]) + bmax) * std::fabs(qs))){
                    c.viol("basis-integrals:wrong-transform-factor:" + cls, J().i("basis", i).num("library", bt[(size_t) i]).num("expected", bc[(size_t) i] * qs).obj()); return; }
            }
            c.count("weights_compared", n);
        }
        // 3. supports scale by the Jacobian of the linear map
        if (!want_conf){
            std::vector<double> st = T.getHierarchicalSupport(), sc = C.getHierarchicalSupport();
            bool local = T.isLocalPolynomial() || T.isWavelet();
            for(int i=0; i<n && local; i++) for(int j=0; j<d; j++){
                double expect = sc[(size_t) i * (size_t) d + (size_t) j] * std::fabs(map.dxdt(j));
                if (!(std::fabs(st[(size_t) i * (size_t) d + (size_t) j] - expect) <= 16 * EPS10 * std::fabs(expect))){
                    c.viol("support:not-scaled-by-jacobian:" + cls, J().i("basis", i).i("dim", j).num("library", st[(size_t) i * (size_t) d + (size_t) j]).num("expected", expect).obj()); return; }
            }
        }
        // 4. the surrogate and its derivatives (same data on both grids)
        if (m > 0){
            std::vector<double> vals = model_values(xc, d, m, 1, (T.isLocalPolynomial() || T.isWavelet()) ? (rng.coin() ? 0 : 1) : 1);
            T.loadNeededValues(vals); C.loadNeededValues(vals);
            {   // integrate() carries the same factor as the weights: integrate_T = sum_i w_T,i v_i, and (linear maps) = factor * integrate_C
                std::vector<double> qt = T.integrate(), qc = C.integrate(), wt2 = T.getQuadratureWeights();
                const double *lv = T.getLoadedValues();
                double qs = map.quad_scale(cfg.alpha, cfg.beta);
                for(int k=0; k<m; k++){
                    double sw = 0, aw = 0; for(int i=0; i<n; i++){ double t = wt2[(size_t) i] * lv[(size_t) i * (size_t) m + (size_t) k]; sw += t; aw += std::fabs(t); }
                    double tol = 4e3 * EPS10 * (aw + std::fabs(sw)) + (T.isWavelet() ? 1e-9 * aw : 0.0);
                    if (!(std::fabs(qt[(size_t) k] - sw) <= tol)){
                        c.viol("integrate:not-the-transformed-weights-times-values:" + cls, J().i("output", k).num("integrate", qt[(size_t) k]).num("weights_times_values", sw).obj()); return; }
                    if (!want_conf && !(std::fabs(qt[(size_t) k] - qc[(size_t) k] * qs) <= tol + 4e3 * EPS10 * std::fabs(qc[(size_t) k] * qs))){
                        c.viol("integrate:wrong-transform-factor:" + cls, J().i("output", k).num("transformed", qt[(size_t) k]).num("canonical_times_factor", qc[(size_t) k] * qs).obj()); return; }
                }
            }
            std::vector<double> lo, hi; domain_box(C, lo, hi);
            double vmax = vmaxabs(vals);
            for(int q=0; q<8; q++){
                std::vector<double> tc((size_t) d), x((size_t) d);
                for(int j=0; j<d; j++){ tc[(size_t) j] = lo[(size_t) j] + rng.uni(0.03, 0.97) * (hi[(size_t) j] - lo[(size_t) j]); x[(size_t) j] = map.fwd(j, tc[(size_t) j]); }
                std::vector<double> yt, yc; T.evaluate(x, yt); C.evaluate(tc, yc);
                // sensitivity of the canonical surrogate to the rounding of the inverse map (conformal: Newton iteration stopped at 1e-12)
                std::vector<double> yp; std::vector<double> tp = tc;
                double sens = 0;
                for(int j=0; j<d; j++){
                    double dt = (want_conf ? 1e-10 : 0.0) + 64 * EPS10 * (1.0 + (want_lin ? scale_x[(size_t) j] / std::fabs(map.dxdt(j)) : 0.0)) * (hi[(size_t) j] - lo[(size_t) j]);
                    tp[(size_t) j] = tc[(size_t) j] + ((tc[(size_t) j] > 0.5 * (lo[(size_t) j] + hi[(size_t) j])) ? -dt : dt);
                    C.evaluate(tp, yp); for(int k=0; k<m; k++) sens = std::max(sens, std::fabs(yp[(size_t) k] - yc[(size_t) k])); tp[(size_t) j] = tc[(size_t) j];
                }
                for(int k=0; k<m; k++){
                    double tol = 1e3 * EPS10 * (std::fabs(yc[(size_t) k]) + vmax) * (double)(d + 1) + 8.0 * sens;
                    if (T.isWavelet()) tol += 1e-9 * vmax;
                    c.count("surrogate_probes");
                    if (!(std::fabs(yt[(size_t) k] - yc[(size_t) k]) <= tol)){
                        c.viol("evaluate:differs-from-canonical-surrogate-at-pulled-back-point:" + cls, J().vec("x", x).vec("canonical_x", tc).num("transformed", yt[(size_t) k]).num("canonical", yc[(size_t) k]).num("tol", tol).obj()); return; }
                }
                if (!want_conf){
                    std::vector<double> jt, jc; T.differentiate(x, jt); C.differentiate(tc, jc);
                    for(int k=0; k<m; k++) for(int j=0; j<d; j++){
                        double expect = jc[(size_t) k * (size_t) d + (size_t) j] / map.dxdt(j);
                        double jmax = 0; for(double v : jc) jmax = std::max(jmax, std::fabs(v));
                        double tol = 1e-7 * (std::fabs(expect) + jmax / std::fabs(map.dxdt(j)) + 1e-300);
                        if (!(std::fabs(jt[(size_t) k * (size_t) d + (size_t) j] - expect) <= tol)){
                            c.viol("differentiate:chain-rule-violated:" + cls, J().vec("x", x).i("dir", j).num("transformed", jt[(size_t) k * (size_t) d + (size_t) j]).num("canonical_over_dxdt", expect).obj()); return; }
                    }
                }
            }
            // forward o inverse = identity on the grid's own points: evaluating at the transformed nodes reproduces the loaded values (nested interpolatory grids)
            bool interpolatory = !(T.isGlobal() && (cfg.custom || OneDimensionalMeta::isNonNested(T.getRule())));
            if (T.isLocalPolynomial() && all_parents_loaded(T) == 0) interpolatory = false;
            if (interpolatory){ Rng r2 = rng.fork(); if (check_reproduction(T, c, r2, "nodes:forward-inverse-map", "load") >= 1e300) return; }
        }
        // 5. the domain predicate
        {
            auto inside = T.getDomainInside();
            for(int i=0; i<n; i++){
                std::vector<double> p(xt.begin() + (long)((size_t) i * (size_t) d), xt.begin() + (long)((size_t)(i + 1) * (size_t) d));
                // rounding at the boundary itself is exempt: nudge boundary nodes inwards before asking
                p = interior_nudged(T, p);
                if (!inside(p)){ c.viol("domain-inside:rejects-grid-point:" + cls, J().vec("x", p).obj()); return; }
            }
            std::vector<double> lo, hi; domain_box(T, lo, hi);
            bool herm = is_hermite(T.getRule()), lag = is_laguerre(T.getRule());
            for(int q=0; q<20; q++){
                std::vector<double> p((size_t) d);
                for(int j=0; j<d; j++) p[(size_t) j] = lo[(size_t) j] + rng.uni(0.001, 0.999) * (hi[(size_t) j] - lo[(size_t) j]);
                if (!inside(p)){ c.viol("domain-inside:rejects-interior-point:" + cls, J().vec("x", p).obj()); return; }
                int j = rng.range(0, d - 1); bool upper = rng.coin();
                double width = hi[(size_t) j] - lo[(size_t) j];
                double bound = upper ? hi[(size_t) j] : lo[(size_t) j];
                std::vector<double> o = p; o[(size_t) j] = bound + (upper ? 1.0 : -1.0) * 1e-6 * (width + std::fabs(bound));
                bool expect_reject = !(herm || (lag && upper));
                if (expect_reject && inside(o)){ c.viol("domain-inside:accepts-point-beyond-bound:" + cls, J().vec("x", o).i("dim", j).b("upper", upper).obj()); return; }
                if (!expect_reject && !inside(o)){ c.viol("domain-inside:rejects-point-of-unbounded-direction:" + cls, J().vec("x", o).obj()); return; }
                c.count("domain_probes", 2);
            }
        }
        // 6. dynamic construction under a linear map: candidates are the mapped canonical candidates, and samples delivered in ONE multi-point call
        //    (the batch overload canonicalizes the whole array) land on the same nodes with the same values as on the canonical twin
        bool nested_rule = !(T.isGlobal() && (cfg.custom || OneDimensionalMeta::isNonNested(T.getRule())));
        if (!want_conf && want_lin && m > 0 && nested_rule && rng.coin(0.6)){
            T.beginConstruction(); C.beginConstruction();
            for(int round=0; round<2; round++){
                std::vector<double> ct, cc;
                if (T.isLocalPolynomial() || T.isWavelet()){
                    ct = T.getCandidateConstructionPoints(0.0, refine_classic, -1);
                    cc = C.getCandidateConstructionPoints(0.0, refine_classic, -1);
                }else{
                    ct = T.getCandidateConstructionPoints(type_level, 0);
                    cc = C.getCandidateConstructionPoints(type_level, 0);
                }
                if (ct.size() != cc.size()){ c.viol("construction:candidate-count-differs-from-canonical-twin:" + cls, J().i("transformed", (long long) ct.size() / d).i("canonical", (long long) cc.size() / d).obj()); return; }
                size_t nc = cc.size() / (size_t) d;
                if (nc == 0) break;
                for(size_t i=0; i<nc; i++) for(int j=0; j<d; j++){
                    double expect = map.fwd(j, cc[i * (size_t) d + (size_t) j]), got = ct[i * (size_t) d + (size_t) j];
                    if (!(std::fabs(got - expect) <= 64 * EPS10 * (scale_x[(size_t) j] + std::fabs(expect)))){
                        c.viol("construction:candidate-not-the-documented-map-of-canonical-candidate:" + cls, J().i("candidate", (long long) i).i("dim", j).num("library", got).num("documented_map", expect).obj()); return; }
                }
                size_t take = std::min<size_t>(nc, (size_t) rng.range(2, 9));
                std::vector<double> bt(ct.begin(), ct.begin() + (long)(take * (size_t) d)), bc(cc.begin(), cc.begin() + (long)(take * (size_t) d));
                std::vector<double> y = model_values(bc, d, m, 2 + round, 1);
                {   // The library matches delivered coordinates to nodes with an absolute tolerance of 1e-12 in canonical coordinates and searches without
                    // bound; the rounding of the inverse map is ~ eps (|a|+|b|)/(b-a).  The delivery is therefore first tried in a forked child
                    // with a 3 s alarm, so that a delivery that does not return is an observation, not a watchdog event.
                    double kappa = 0.0;
                    for(int j=0; j<d; j++) kappa = std::max(kappa, (std::fabs(cfg.ta[(size_t) j]) + std::fabs(cfg.tb[(size_t) j])) / std::fabs(cfg.tb[(size_t) j] - cfg.ta[(size_t) j]));
                    fflush(stdout); fflush(stderr);
                    pid_t pid = fork();
                    if (pid == 0){
                        int dn = open("/dev/null", O_WRONLY); if (dn >= 0){ dup2(dn, 1); dup2(dn, 2); }
                        alarm(3);
                        try{ T.loadConstructedPoints(bt, y); }catch(...){ _exit(7); }
                        _exit(0);
                    }
                    int st = 0; if (pid > 0) waitpid(pid, &st, 0);
                    c.count("construction_deliveries_probed_in_child");
                    if (pid > 0 && !(WIFEXITED(st) && WEXITSTATUS(st) == 0)){
                        std::string how = WIFSIGNALED(st) ? ((WTERMSIG(st) == SIGALRM) ? "no-return-within-3s" : "killed-by-signal-" + std::to_string(WTERMSIG(st))) : "exit-" + std::to_string(WEXITSTATUS(st));
                        std::string fam = fam_name(cfg.family);
                        if (kappa > 7.0) c.viol("construction:own-candidates-not-matched-under-ill-conditioned-linear-map:" + fam, J().str("how", how).num("conditioning_(|a|+|b|)/(b-a)", kappa).vec("a", cfg.ta).vec("b", cfg.tb).obj());
                        else c.viol("construction:batch-delivery-of-own-candidates-does-not-return:" + cls, J().str("how", how).num("conditioning", kappa).obj());
                        return;
                    }
                }
                T.loadConstructedPoints(bt, y); C.loadConstructedPoints(bc, y);
                c.count("construction_batches_delivered_under_transform");
                if (T.getNumLoaded() != C.getNumLoaded()){ c.viol("construction:loaded-count-differs-from-canonical-twin:" + cls, J().i("transformed", T.getNumLoaded()).i("canonical", C.getNumLoaded()).obj()); return; }
                int nl = T.getNumLoaded();
                if (nl > 0){
                    std::vector<double> lt = T.getLoadedPoints(), lc = C.getLoadedPoints();
                    for(int i=0; i<nl; i++) for(int j=0; j<d; j++){
                        double expect = map.fwd(j, lc[(size_t) i * (size_t) d + (size_t) j]);
                        if (!(std::fabs(lt[(size_t) i * (size_t) d + (size_t) j] - expect) <= 64 * EPS10 * (scale_x[(size_t) j] + std::fabs(expect)))){
                            c.viol("construction:loaded-point-not-the-map-of-canonical-loaded-point:" + cls, J().i("point", i).i("dim", j).obj()); return; }
                    }
                    const double *vt = T.getLoadedValues(), *vc = C.getLoadedValues();
                    for(size_t i=0; i<(size_t) nl * (size_t) m; i++) if (!same_bits(vt[i], vc[i])){
                        c.viol("construction:value-attached-to-another-node-than-on-canonical-twin:" + cls, J().i("entry", (long long) i).num("transformed", vt[i]).num("canonical", vc[i]).obj()); return; }
                }
            }
            T.finishConstruction(); C.finishConstruction();
        }
    }catch(std::exception &e){ c.viol("exception:" + exception_class(e), J().str("what", e.what()).obj()); return; }
    c.sig(cfg.sig() + "|" + std::to_string(cfg.depth));
}

} // namespace vf
