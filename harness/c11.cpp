// C11 - copies are complete, equal to the source and independent of it
#include "monitors.hpp"
#include <memory>

namespace vf{

// restriction of an observation to the output range [b, e)
static Obs restrict_obs(Obs const &o, int d, int m, int b, int e){
    Obs r = o;
    int w = e - b;
    auto slice = [&](std::vector<double> const &v, size_t inner)->std::vector<double>{ // v = rows x m x inner
        std::vector<double> out;
        size_t rows = (m > 0 && inner > 0) ? v.size() / ((size_t) m * inner) : 0;
        for(size_t i=0; i<rows; i++) for(int k=b; k<e; k++) for(size_t q=0; q<inner; q++) out.push_back(v[(i * (size_t) m + (size_t) k) * inner + q]);
        return out;
    };
    for(auto &p : r.ints) if (p.first == "meta") p.second[1] = w;
    bool fourier = false;
    for(auto &p : r.ints) if (p.first == "family") fourier = (p.second[0] == 4);
    for(auto &p : r.num){
        if (p.first == "values" || p.first == "eval" || p.first == "integrate") p.second = slice(p.second, 1);
        else if (p.first == "jacobian") p.second = slice(p.second, (size_t) d);
        else if (p.first == "coeffs"){
            if (fourier){
                size_t half = p.second.size() / 2;
                std::vector<double> re(p.second.begin(), p.second.begin() + (long) half), im(p.second.begin() + (long) half, p.second.end());
                std::vector<double> a = slice(re, 1), c2 = slice(im, 1);
                a.insert(a.end(), c2.begin(), c2.end()); p.second = a;
            }else p.second = slice(p.second, 1);
        }
    }
    return r;
}

void mon_c11(CaseCtx &c, Rng &rng){
    GenOpts go; go.min_outs = 0; go.max_outs = 4; go.max_points = c.thorough ? 400 : 150; go.max_dims = c.thorough ? 4 : 3; go.custom = true;
    auto hp = std::make_unique<HState>();
    HState &h = *hp;
    if (!random_state(h, rng, c, go, c.thorough ? 7 : 5)){ emit_begin(c, h.cfg.json()); return; }
    std::string tr; for(auto const &t : h.trace) tr += t + ",";
    emit_begin(c, J().kv("cfg", h.cfg.json()).str("history", tr).obj());
    TasmanianSparseGrid &S = h.g;
    std::string cls = S.isGlobal() ? "global" : S.isSequence() ? "sequence" : S.isLocalPolynomial() ? "localp" : S.isWavelet() ? "wavelet" : "fourier";
    if (S.isUsingConstruction()) cls += "+construction"; else if (S.getNumNeeded() > 0 && S.getNumLoaded() > 0) cls += "+pending";
    ObsOpts oo;
    Obs o = observe(S, oo);
    int d = S.getNumDimensions(), m = S.getNumOutputs();
    // three ways of copying
    TasmanianSparseGrid C1(S);
    TasmanianSparseGrid C2; C2.makeSequenceGrid(2, 1, 3, type_level, rule_rleja); C2 = S;
    TasmanianSparseGrid C3; if (rng.coin()) C3.makeWaveletGrid(1, 1, 1, 1); C3.copyGrid(S);
    TasmanianSparseGrid C4 = TasGrid::copyGrid(S, 0, -1);
    struct Tw{ const char *name; TasmanianSparseGrid *g; } tw[] = {{"copy-constructor", &C1}, {"assignment", &C2}, {"copyGrid", &C3}, {"copyGrid-free-function", &C4}};
    for(auto &t : tw){
        std::string df = obs_diff_state(o, observe(*t.g, oo));
        if (!df.empty()){ c.viol(std::string("copy:") + t.name + ":" + df + ":" + cls, J().str("field", df).obj()); return; }
    }
    c.count("copies_compared", 4);
    // output sub-ranges
    if (m >= 2){
        int b = rng.range(0, m - 1), e = rng.range(b + 1, m);
        if (b == 0 && e == m) e = m - 1;
        TasmanianSparseGrid R; R.copyGrid(S, b, e);
        Obs ro = observe(R, oo);
        Obs expect = restrict_obs(o, d, m, b, e);
        std::string df = obs_diff_state(expect, ro);
        if (!df.empty()){ c.viol("subrange:" + df + ":" + cls, J().str("field", df).i("begin", b).i("end", e).i("outputs", m).obj()); return; }
        c.count("subranges_compared");
        {   // the restricted copy must also survive a write/read round trip as the grid it is (C06 oracle on the copy)
            std::ostringstream os(std::ios::out | std::ios::binary); R.write(os, true);
            TasmanianSparseGrid RR; std::istringstream is(os.str(), std::ios::in | std::ios::binary);
            try{ RR.read(is, true); }catch(std::exception &ex){ c.viol("subrange:copy-cannot-be-read-back:" + cls, J().str("what", ex.what()).obj()); return; }
            std::string df3 = obs_diff_state(ro, observe(RR, oo));
            if (!df3.empty()){ c.viol("subrange:copy-changes-in-write-read:" + df3 + ":" + cls, J().str("field", df3).i("begin", b).i("end", e).obj()); return; }
        }
        // one lock-step data delivery restricted to the range
        try{
            std::vector<double> x;
            if (S.isUsingConstruction()){
                if (S.isLocalPolynomial() || S.isWavelet()) x = S.getCandidateConstructionPoints(0.0, refine_classic, b);
                else x = S.getCandidateConstructionPoints(type_level, std::vector<int>((size_t) d, 1));
                std::vector<double> xr = (S.isLocalPolynomial() || S.isWavelet()) ? R.getCandidateConstructionPoints(0.0, refine_classic, 0)
                                                                                  : R.getCandidateConstructionPoints(type_level, std::vector<int>((size_t) d, 1));
                if (x.size() != xr.size()){ c.viol("subrange:candidates-differ:" + cls, J().i("source", (long long)(x.size() / (size_t) d)).i("copy", (long long)(xr.size() / (size_t) d)).obj()); return; }
                for(size_t q=0; q<x.size(); q++) if (!same_bits(x[q], xr[q])){ c.viol("subrange:candidates-differ:" + cls, "{}"); return; }
                if (x.size() > (size_t) d * 12) x.resize((size_t) d * 12);
            }else if (S.getNumNeeded() > 0) x = S.getNeededPoints();
            else if (S.getNumLoaded() > 0) x = S.getLoadedPoints();
            if (!x.empty()){
                std::vector<double> y = model_values(x, d, m, 9, 1), yr;
                size_t n = x.size() / (size_t) d;
                for(size_t i=0; i<n; i++) for(int k=b; k<e; k++) yr.push_back(y[i * (size_t) m + (size_t) k]);
                if (S.isUsingConstruction()){ S.loadConstructedPoints(x, y); R.loadConstructedPoints(x, yr); }
                else{ S.loadNeededValues(y); R.loadNeededValues(yr); }
                Obs o2 = observe(S, oo);
                std::string df2 = obs_diff_state(restrict_obs(o2, d, m, b, e), observe(R, oo));
                if (!df2.empty()){ c.viol("subrange:after-delivery:" + df2 + ":" + cls, J().str("field", df2).i("begin", b).i("end", e).obj()); return; }
                // bring the full copies to the same state for the independence checks below
                for(auto &t : tw){
                    if (S.isUsingConstruction()){
                        // candidate requests are not const (they register candidate tensors): issue the same request on the copies to stay in lock-step
                        if (S.isLocalPolynomial() || S.isWavelet()) (void) t.g->getCandidateConstructionPoints(0.0, refine_classic, b);
                        else (void) t.g->getCandidateConstructionPoints(type_level, std::vector<int>((size_t) d, 1));
                        t.g->loadConstructedPoints(x, y);
                    }else t.g->loadNeededValues(y);
                }
                o = o2;
                c.count("subrange_deliveries");
            }
        }catch(std::exception &ex){ c.viol("subrange:exception:" + cls, J().str("what", ex.what()).obj()); return; }
    }
    // independence: mutate C1 (lock-step harness state is S's, so swap roles through a scratch HState)
    {
        HState hc; hc.cfg = h.cfg; hc.g = C1; hc.shadow = h.shadow; hc.delivered = h.delivered; hc.expected_limits = h.expected_limits; hc.gen = h.gen + 20; hc.vmode = h.vmode;
        HOpts ho; ho.max_points = go.max_points;
        for(int i=0; i<3; i++){
            Step s = choose_step(hc, rng, ho);
            if (s.kind == Step::none) break;
            std::string er = apply_step(hc.g, s, &hc);
            if (!er.empty()){ c.viol("copy:mutation-exception:" + s.name() + ":" + cls, J().str("what", er).kv("step", s.json()).obj()); return; }
        }
        std::string df = obs_diff_state(o, observe(S, oo));
        if (!df.empty()){ c.viol("independence:source-changed-by-mutating-copy:" + df + ":" + cls, J().str("field", df).obj()); return; }
        df = obs_diff_state(o, observe(C2, oo));
        if (!df.empty()){ c.viol("independence:sibling-copy-changed:" + df + ":" + cls, J().str("field", df).obj()); return; }
    }
    // mutate the source, copies must not move
    {
        HOpts ho; ho.max_points = go.max_points;
        for(int i=0; i<3; i++){
            Step s = choose_step(h, rng, ho);
            if (s.kind == Step::none) break;
            std::string er = apply_step(h.g, s, &h);
            if (!er.empty()){ c.viol("copy:mutation-exception:" + s.name() + ":" + cls, J().str("what", er).kv("step", s.json()).obj()); return; }
        }
        std::string df = obs_diff_state(o, observe(C2, oo));
        if (!df.empty()){ c.viol("independence:copy-changed-by-mutating-source:" + df + ":" + cls, J().str("field", df).obj()); return; }
    }
    // destroy the source, then use the copies fully (ASan decides)
    hp.reset();
    {
        Obs o3 = observe(C3, oo);
        std::string df = obs_diff_state(o, o3);
        if (!df.empty()){ c.viol("independence:copy-changed-by-destroying-source:" + df + ":" + cls, J().str("field", df).obj()); return; }
        HState hc; hc.g = C3; hc.cfg.family = C3.isGlobal() ? fam_global : C3.isSequence() ? fam_sequence : C3.isLocalPolynomial() ? fam_localp : C3.isWavelet() ? fam_wavelet : fam_fourier;
        hc.cfg.dims = d; hc.cfg.outs = m; hc.cfg.depth = 3; hc.cfg.custom = (C3.getRule() == rule_customtabulated) ? 1 : 0; hc.gen = 50;
        HOpts ho; ho.max_points = go.max_points;
        for(int i=0; i<3; i++){
            Step s = choose_step(hc, rng, ho);
            if (s.kind == Step::none) break;
            std::string er = apply_step(hc.g, s, nullptr);
            if (!er.empty()){ c.viol("copy:use-after-source-destroyed:" + s.name() + ":" + cls, J().str("what", er).kv("step", s.json()).obj()); return; }
        }
        (void) observe(hc.g, oo);
    }
    c.count("state:" + cls);
    std::string t2; { std::istringstream is(tr); std::string tok; while (std::getline(is, tok, ',')) t2 += tok.substr(0, 3) + "."; }
    c.sig(cls + "|" + std::to_string(m) + "|" + t2 + "|" + std::to_string(d));
}

} // namespace vf
