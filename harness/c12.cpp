// C12 - const operations on one grid are safe to call concurrently (variant tsan; plain std::thread, no OpenMP)
//
// One case = one random reachable grid state.  Two identical fresh objects are derived from it in the same way (copy constructor, or
// write + read for the "read from file" states): T (reference twin) and S (shared object).  Every call of the pool is executed
// sequentially on T (twice: the reference itself must be deterministic), then 4-8 threads are released from a spin barrier and
// execute seeded random multisets of 20-60 const calls on `const TasmanianSparseGrid &S`; every result is compared bitwise with the
// reference.  The first concurrent call is the first call ever made on S, i.e. lazily built caches are cold (a fresh S is made for
// every repetition; a quarter of the repetitions re-use the warm S of the previous one).
//
// Keys:  result-differs:<call>:<family>            a concurrent call returned something else than the sequential call on the twin
//        state-changed-by-const-calls:<family>     write(S) after the concurrent phase differs from write(T)
// Data races are reported by ThreadSanitizer into <VF_TSAN_LOGDIR>/tsan.i<case>.r<rep>.t<threads>.<family>.<class>.<cold|warm>.<pid>;
// drivers/c12_driver.py turns the report blocks into violations  tsan:data-race:<fnA>|<fnB>.
//
// No mutex / condition variable / acquire-release operation is executed between the barrier and the join: the logical clock used for the
// overlap accounting is a relaxed atomic counter, which ThreadSanitizer does not treat as synchronisation.
#include "monitors.hpp"
#include <thread>
#include <atomic>
#include <memory>
#include <sched.h>

extern "C" void __sanitizer_set_report_path(const char *path) __attribute__((weak));

namespace vf{
namespace{

std::atomic<long> g_tsan_reports{0};

enum Kind{ k_eval_vec, k_eval_raw, k_fast, k_batch_vec, k_batch_raw, k_batch_float, k_callable, k_iw_vec, k_iw_raw, k_qw_vec, k_qw_raw, k_dw_vec, k_dw_raw,
           k_integrate, k_diff_vec, k_diff_raw, k_hdense, k_hsparse, k_hsparse_static, k_hint, k_hsupport, k_points, k_loaded_points, k_needed_points,
           k_indexes, k_needed_idx, k_values, k_coeffs, k_write_bin, k_write_ascii, k_printstats, k_domain, k_meta, k_polyspace, k_aniso, k_copy, k_copygrid };
const char* kind_name(int k){
    static const char * const n[] = {"evaluate", "evaluate-raw", "evaluateFast", "evaluateBatch", "evaluateBatch-raw", "evaluateBatch-float", "EvaluateCallable",
        "getInterpolationWeights", "getInterpolationWeights-raw", "getQuadratureWeights", "getQuadratureWeights-raw", "getDifferentiationWeights",
        "getDifferentiationWeights-raw", "integrate", "differentiate", "differentiate-raw", "evaluateHierarchicalFunctions", "evaluateSparseHierarchicalFunctions",
        "evaluateSparseHierarchicalFunctionsStatic", "integrateHierarchicalFunctions", "getHierarchicalSupport", "getPoints", "getLoadedPoints", "getNeededPoints",
        "getPointsIndexes", "getNeededIndexes", "getLoadedValues", "getHierarchicalCoefficients", "write-binary", "write-ascii", "printStats", "getDomainInside",
        "getters", "getGlobalPolynomialSpace", "estimateAnisotropicCoefficients", "copy-constructor", "copyGrid"};
    return n[k];
}

struct Call{
    int kind = 0;
    std::vector<double> x; int nx = 0;
    int ia = 0, ib = 0;
};
struct Res{
    std::vector<uint64_t> w;
    std::string bytes, thrown;
    void clear(){ w.clear(); bytes.clear(); thrown.clear(); }
    void d(double v){ uint64_t u; std::memcpy(&u, &v, 8); w.push_back(u); }
    void i(long long v){ w.push_back((uint64_t) v); }
    void dv(std::vector<double> const &v){ i((long long) v.size()); for(double a : v) d(a); }
    void dp(const double *p, size_t n){ i((long long) n); for(size_t j=0; j<n; j++) d(p[j]); }
    template<class T> void iv(std::vector<T> const &v){ i((long long) v.size()); for(auto a : v) i((long long) a); }
    bool same(Res const &o) const{ return w == o.w && bytes == o.bytes && thrown == o.thrown; }
};
// description of the first difference (for the witness)
std::string res_diff(Res const &ref, Res const &got){
    J j;
    if (ref.thrown != got.thrown) return j.str("what", "outcome").str("expected", ref.thrown.empty() ? "returns" : ref.thrown).str("got", got.thrown.empty() ? "returns" : got.thrown).obj();
    if (ref.bytes != got.bytes){
        size_t p = 0; while(p < ref.bytes.size() && p < got.bytes.size() && ref.bytes[p] == got.bytes[p]) p++;
        return j.str("what", "bytes").i("expected_size", (long long) ref.bytes.size()).i("got_size", (long long) got.bytes.size()).i("first_diff_offset", (long long) p).obj();
    }
    if (ref.w.size() != got.w.size()) return j.str("what", "size").i("expected_words", (long long) ref.w.size()).i("got_words", (long long) got.w.size()).obj();
    size_t nd = 0, first = 0;
    for(size_t p=0; p<ref.w.size(); p++) if (ref.w[p] != got.w[p]){ if (nd == 0) first = p; nd++; }
    double a, b; std::memcpy(&a, &ref.w[first], 8); std::memcpy(&b, &got.w[first], 8);
    char ha[24], hb[24]; snprintf(ha, sizeof(ha), "%016llx", (unsigned long long) ref.w[first]); snprintf(hb, sizeof(hb), "%016llx", (unsigned long long) got.w[first]);
    return j.str("what", "value").i("words", (long long) ref.w.size()).i("differing_words", (long long) nd).i("first_diff_word", (long long) first)
            .num("expected_as_double", a).num("got_as_double", b).str("expected_bits", ha).str("got_bits", hb).obj();
}

// the private stream is re-used by the calls of a thread: content and formatting state (write() and printStats() change precision and float
// format) are put back to the defaults before every use, otherwise the output would depend on the calls made before
void reset(std::ostringstream &os){
    os.str(std::string()); os.clear();
    os.flags(std::ios::skipws | std::ios::dec); os.precision(6); os.width(0); os.fill(' ');
}
// executes one const call; everything it touches besides g is private to the caller
void run_call(TasmanianSparseGrid const &g, Call const &q, Res &r, std::ostringstream &os){
    r.clear();
    int d = g.getNumDimensions(), m = g.getNumOutputs(), np = g.getNumPoints();
    try{
        switch(q.kind){
            case k_eval_vec:{ std::vector<double> y; g.evaluate(q.x, y); r.dv(y); break; }
            case k_eval_raw:{ std::vector<double> y((size_t) m, poison()); g.evaluate(q.x.data(), y.data()); r.dv(y); break; }
            case k_fast:{ std::vector<double> y; g.evaluateFast(q.x, y); r.dv(y); break; }
            case k_batch_vec:{ std::vector<double> y; g.evaluateBatch(q.x, y); r.dv(y); break; }
            case k_batch_raw:{ std::vector<double> y((size_t) m * (size_t) q.nx, poison()); g.evaluateBatch(q.x.data(), q.nx, y.data()); r.dv(y); break; }
            case k_batch_float:{
                std::vector<float> xf(q.x.begin(), q.x.end()), yf((size_t) m * (size_t) q.nx, 0.0f);
                g.evaluateBatch(xf.data(), q.nx, yf.data());
                for(float v : yf) r.d((double) v);
                break; }
            case k_callable:{ TasmanianSparseGrid::EvaluateCallable f = g; std::vector<double> y; f(q.x, y); r.dv(y); break; }
            case k_iw_vec:{ r.dv(g.getInterpolationWeights(q.x)); break; }
            case k_iw_raw:{ std::vector<double> w((size_t) np, poison()); g.getInterpolationWeights(q.x.data(), w.data()); r.dv(w); break; }
            case k_qw_vec:{ r.dv(g.getQuadratureWeights()); break; }
            case k_qw_raw:{ std::vector<double> w((size_t) np, poison()); g.getQuadratureWeights(w.data()); r.dv(w); break; }
            case k_dw_vec:{ r.dv(g.getDifferentiationWeights(q.x)); break; }
            case k_dw_raw:{ std::vector<double> w((size_t) np * (size_t) d, poison()); g.getDifferentiationWeights(q.x.data(), w.data()); r.dv(w); break; }
            case k_integrate:{ std::vector<double> v; g.integrate(v); r.dv(v); break; }
            case k_diff_vec:{ std::vector<double> jac; g.differentiate(q.x, jac); r.dv(jac); break; }
            case k_diff_raw:{ std::vector<double> jac((size_t) m * (size_t) d, poison()); g.differentiate(q.x.data(), jac.data()); r.dv(jac); break; }
            case k_hdense:{ r.dv(g.evaluateHierarchicalFunctions(q.x)); break; }
            case k_hsparse:{
                std::vector<int> pntr, indx; std::vector<double> vals;
                g.evaluateSparseHierarchicalFunctions(q.x, pntr, indx, vals);
                r.iv(pntr); r.iv(indx); r.dv(vals);
                break; }
            case k_hsparse_static:{
                int nz = g.evaluateSparseHierarchicalFunctionsGetNZ(q.x.data(), q.nx);
                std::vector<int> pntr((size_t) q.nx + 1, -7), indx((size_t) nz, -7); std::vector<double> vals((size_t) nz, poison());
                g.evaluateSparseHierarchicalFunctionsStatic(q.x.data(), q.nx, pntr.data(), indx.data(), vals.data());
                r.i(nz); r.iv(pntr); r.iv(indx); r.dv(vals);
                break; }
            case k_hint:{ r.dv(g.integrateHierarchicalFunctions()); break; }
            case k_hsupport:{ r.dv(g.getHierarchicalSupport()); break; }
            case k_points:{ r.dv(g.getPoints()); break; }
            case k_loaded_points:{ r.dv(g.getLoadedPoints()); break; }
            case k_needed_points:{ r.dv(g.getNeededPoints()); break; }
            case k_indexes:{ const int *p = g.getPointsIndexes(); r.iv(std::vector<int>(p, p + (size_t) np * (size_t) d)); break; }
            case k_needed_idx:{ const int *p = g.getNeededIndexes(); r.iv(std::vector<int>(p, p + (size_t) g.getNumNeeded() * (size_t) d)); break; }
            case k_values:{ r.dp(g.getLoadedValues(), (size_t) g.getNumLoaded() * (size_t) m); break; }
            case k_coeffs:{ r.dp(g.getHierarchicalCoefficients(), (size_t) g.getNumLoaded() * (size_t) m * (g.isFourier() ? 2 : 1)); break; }
            case k_write_bin: case k_write_ascii:{ reset(os); g.write(os, q.kind == k_write_bin); r.bytes = os.str(); break; }
            case k_printstats:{ reset(os); g.printStats(os); r.bytes = os.str(); break; }
            case k_domain:{
                auto inside = g.getDomainInside();
                for(int i=0; i<q.nx; i++) r.i(inside(std::vector<double>(q.x.begin() + (size_t) i * (size_t) d, q.x.begin() + (size_t)(i + 1) * (size_t) d)) ? 1 : 0);
                break; }
            case k_meta:{
                r.i(d); r.i(m); r.i(g.getNumLoaded()); r.i(g.getNumNeeded()); r.i(np); r.i((long long) g.getRule()); r.i(g.getOrder());
                r.d(g.getAlpha()); r.d(g.getBeta()); r.i(g.isUsingConstruction()); r.i((long long) g.getAccelerationType());
                r.i(g.isGlobal()); r.i(g.isSequence()); r.i(g.isLocalPolynomial()); r.i(g.isWavelet()); r.i(g.isFourier()); r.i(g.empty());
                const char *cd = g.getCustomRuleDescription(); r.bytes = cd ? cd : "";
                if (g.isSetDomainTransfrom()){ std::vector<double> a, b; g.getDomainTransform(a, b); r.dv(a); r.dv(b); }
                if (g.isSetConformalTransformASIN()) r.iv(g.getConformalTransformASIN());
                r.iv(g.getLevelLimits());
                break; }
            case k_polyspace:{ r.iv(g.getGlobalPolynomialSpace(q.ia != 0)); break; }
            case k_aniso:{ r.iv(g.estimateAnisotropicCoefficients((TypeDepth) q.ia, q.ib)); break; }
            case k_copy:{ TasmanianSparseGrid cp(g); reset(os); cp.write(os, true); r.bytes = os.str(); break; }
            case k_copygrid:{ TasmanianSparseGrid cp; cp.copyGrid(&g, q.ia, q.ib); reset(os); cp.write(os, true); r.bytes = os.str(); break; }
        }
    }catch(std::exception &e){
        r.clear(); r.thrown = exception_class(e);
    }
}

std::vector<double> pick_points(std::vector<double> const &all, int d, int n, Rng &rng){
    int na = (int)(all.size() / (size_t) d);
    std::vector<double> x;
    for(int i=0; i<n; i++){ int p = rng.range(0, na - 1); x.insert(x.end(), all.begin() + (size_t) p * (size_t) d, all.begin() + (size_t)(p + 1) * (size_t) d); }
    return x;
}

// pool of distinct calls that are legal in the state of g (preconditions as documented)
std::vector<Call> make_pool(TasmanianSparseGrid const &g, Rng &rng){
    std::vector<Call> pool;
    int d = g.getNumDimensions(), m = g.getNumOutputs(), np = g.getNumPoints(), nl = g.getNumLoaded();
    auto add = [&](int kind, std::vector<double> x = std::vector<double>(), int ia = 0, int ib = 0){
        Call q; q.kind = kind; q.nx = (int)(x.size() / (size_t) d); q.x = std::move(x); q.ia = ia; q.ib = ib; pool.push_back(std::move(q)); };
    // probe points: interior, grid nodes, a corner of the domain
    std::vector<double> all = probe_points(g, 40, rng.next());
    if (np > 0){
        std::vector<double> pts = g.getPoints();
        for(int i=0; i<4; i++){ int p = rng.range(0, np - 1); all.insert(all.end(), pts.begin() + (size_t) p * (size_t) d, pts.begin() + (size_t)(p + 1) * (size_t) d); }
    }
    if (!is_unbounded(g.getRule())){
        std::vector<double> lo, hi; domain_box(g, lo, hi);
        for(int j=0; j<d; j++) all.push_back((j % 2 == 0) ? lo[(size_t) j] : hi[(size_t) j]);
    }
    static const int batch_sizes[] = {1, 2, 7, 33};
    bool has_surrogate = (m > 0 && nl > 0);
    bool derivatives = !g.isSetConformalTransformASIN(); // documented: no derivatives under conformal maps
    if (has_surrogate){
        add(k_eval_vec, pick_points(all, d, 1, rng)); add(k_eval_raw, pick_points(all, d, 1, rng)); add(k_fast, pick_points(all, d, 1, rng));
        add(k_batch_vec, pick_points(all, d, batch_sizes[rng.range(0, 3)], rng)); add(k_batch_raw, pick_points(all, d, batch_sizes[rng.range(0, 3)], rng));
        add(k_callable, pick_points(all, d, batch_sizes[rng.range(0, 3)], rng));
        add(k_batch_float, pick_points(all, d, 2, rng)); // documented to throw without a GPU back-end: the outcome must be the same
        add(k_integrate);
        if (derivatives){ add(k_diff_vec, pick_points(all, d, 1, rng)); add(k_diff_raw, pick_points(all, d, 1, rng)); }
        add(k_values); add(k_coeffs);
        bool aniso_ok = g.isSequence() || g.isFourier() || (g.isGlobal() && !OneDimensionalMeta::isNonNested(g.getRule()) && g.getRule() != rule_customtabulated);
        if (aniso_ok){
            static const TypeDepth et[] = {type_level, type_curved, type_iptotal, type_ipcurved, type_qptotal, type_qpcurved, type_hyperbolic, type_iphyperbolic};
            add(k_aniso, {}, (int) et[rng.range(0, 7)], g.isGlobal() ? rng.range(0, m - 1) : rng.range(-1, m - 1));
        }
    }
    if (np > 0){
        add(k_qw_vec); add(k_qw_raw);
        add(k_iw_vec, pick_points(all, d, 1, rng)); add(k_iw_vec, pick_points(all, d, 1, rng)); add(k_iw_raw, pick_points(all, d, 1, rng));
        if (derivatives){ add(k_dw_vec, pick_points(all, d, 1, rng)); add(k_dw_raw, pick_points(all, d, 1, rng)); }
        add(k_hdense, pick_points(all, d, batch_sizes[rng.range(0, 3)], rng)); add(k_hdense, pick_points(all, d, 1, rng));
        if (g.isLocalPolynomial() || g.isWavelet()){
            add(k_hsparse, pick_points(all, d, batch_sizes[rng.range(0, 3)], rng)); add(k_hsparse_static, pick_points(all, d, batch_sizes[rng.range(0, 3)], rng));
        }
        add(k_hint); add(k_hsupport); add(k_points); add(k_loaded_points); add(k_needed_points); add(k_indexes);
        if (g.isLocalPolynomial() && g.getNumNeeded() > 0) add(k_needed_idx);
    }
    add(k_write_bin); add(k_write_ascii); add(k_printstats); add(k_meta); add(k_copy);
    if (m >= 2){ int b = rng.range(0, m - 1); add(k_copygrid, {}, b, rng.range(b + 1, m)); }
    {   // domain test at inside and outside points
        std::vector<double> x = pick_points(all, d, 4, rng);
        std::vector<double> lo, hi; domain_box(g, lo, hi);
        for(int i=0; i<3; i++) for(int j=0; j<d; j++) x.push_back(lo[(size_t) j] + rng.uni(-0.5, 1.5) * (hi[(size_t) j] - lo[(size_t) j]));
        add(k_domain, x);
    }
    if (g.isGlobal() || g.isSequence()){ add(k_polyspace, {}, 0); add(k_polyspace, {}, 1); }
    return pool;
}

struct Mismatch{ int call = 0, pos = 0; Res got; };
struct ThreadPlan{
    std::vector<int> calls;
    long skew = 0;
    long t_start = -1, t_first = -1, t_end = -1, done = 0;
    std::vector<Mismatch> mism; long nmism = 0;
    std::ostringstream os{std::ios::out | std::ios::binary};
    Res scratch;
    std::vector<Res> kept; // concurrent-first repetitions: every result is kept and compared once the sequential reference exists
};

std::string state_class(HState const &h){
    TasmanianSparseGrid const &g = h.g;
    bool coeffs = false, merged = false;
    for(auto const &t : h.trace){ if (t == "set_coeffs") coeffs = true; if (t == "merge_ref") merged = true; }
    if (g.getNumOutputs() == 0) return (g.getNumNeeded() > 0 && g.getNumLoaded() > 0) ? "0out-pending" : "0out";
    if (g.isUsingConstruction()) return (g.getNumLoaded() > 0) ? "construction" : "construction-empty";
    if (g.getNumLoaded() == 0) return "fresh";
    if (g.getNumNeeded() > 0) return "pending";
    if (coeffs) return "coeffs";
    if (merged) return "merged";
    return "loaded";
}

} // anonymous namespace
} // namespace vf

// ThreadSanitizer calls this for every report (weak default in the runtime); counted as a cross-check of the log parsing of the driver
extern "C" void __tsan_on_report(void *){ vf::g_tsan_reports.fetch_add(1, std::memory_order_relaxed); }

namespace vf{

void mon_c12(CaseCtx &c, Rng &rng){
    GenOpts go; go.min_outs = 0; go.max_outs = 3; go.max_points = c.thorough ? 260 : 140; go.max_dims = 3; go.custom = true;
    unsigned fam_mask = (unsigned) argi("families", 31);
    go.families = fam_mask;
    if (fam_mask == 31 && rng.coin(0.15)) go.families = 1u << fam_wavelet; // the only family with a lazily built CPU-side cache gets a larger share
    int reps = (int) argi("reps", c.thorough ? 12 : 6);
    const char *logdir = getenv("VF_TSAN_LOGDIR");
    HState h;
    if (!random_state(h, rng, c, go, c.thorough ? 7 : 5)){ emit_begin(c, h.cfg.json()); return; }
    std::string tr; for(auto const &t : h.trace) tr += t + ",";
    bool from_file = rng.coin(0.3); bool file_binary = rng.coin();
    std::string cls = state_class(h) + (from_file ? "+file" : "");
    std::string fam = fam_name(h.cfg.family);
    std::string desc = J().kv("cfg", h.cfg.json()).str("history", tr).str("state", cls).i("points", h.g.getNumPoints()).i("max_reps", reps).obj();
    emit_begin(c, desc);
    if (logdir){
        std::string f = std::string(logdir) + "/desc." + std::to_string(c.index) + ".json";
        if (FILE *fp = fopen(f.c_str(), "w")){ fputs(desc.c_str(), fp); fclose(fp); }
    }
    // identical fresh twins
    std::string bytes;
    if (from_file){ std::ostringstream os(std::ios::out | std::ios::binary); h.g.write(os, file_binary); bytes = os.str(); }
    auto fresh = [&]()->std::unique_ptr<TasmanianSparseGrid>{
        if (!from_file) return std::unique_ptr<TasmanianSparseGrid>(new TasmanianSparseGrid(h.g));
        std::unique_ptr<TasmanianSparseGrid> g(new TasmanianSparseGrid());
        std::istringstream is(bytes, std::ios::in | std::ios::binary); g->read(is, file_binary);
        return g;
    };
    std::unique_ptr<TasmanianSparseGrid> T = fresh();
    Rng prng = rng.fork();
    std::vector<Call> pool = make_pool(*T, prng);
    std::vector<Res> ref(pool.size());
    std::string ref_state;
    bool have_ref = false;
    auto compute_ref = [&]()->bool{
        std::ostringstream os(std::ios::out | std::ios::binary);
        Res again;
        for(size_t i=0; i<pool.size(); i++){
            run_call(*T, pool[i], ref[i], os);
            run_call(*T, pool[i], again, os);
            if (!again.same(ref[i])){ // the sequential reference is not a function of the state: nothing can be decided for this call
                c.inconc(std::string("sequential-reference-not-repeatable:") + kind_name(pool[i].kind));
                return false;
            }
        }
        std::ostringstream ws(std::ios::out | std::ios::binary); T->write(ws, true); ref_state = ws.str();
        have_ref = true;
        return true; };
    // Lazily built state that belongs to the PROCESS (function-local statics, global tables) rather than to the object is warmed by the sequential
    // reference itself: with the reference first, the concurrent calls below only ever read it.  Two cases in five therefore run their first (cold)
    // repetition BEFORE any of the pool's calls has been made in this case; the results are kept and judged once the reference exists.  A pure function
    // of the case index, no random draw (the other cases are unchanged).
    bool concurrent_first = (((unsigned long long) c.index * 2654435761ULL) >> 7) % 5 < 2;
    if (!concurrent_first && !compute_ref()) return;
    c.count("pool_calls", (long long) pool.size());
    c.count("state:" + fam + ":" + cls);

    // bounded work: weight queries of a wavelet grid solve a sparse system per call and build an N x N basis matrix per cold object, all other
    // calls are (near) linear in the number of points; large grids get shorter multisets and fewer repetitions (a function of the state only)
    int calls_hi = 60;
    {
        double heavy = (double) T->getNumPoints() / (T->isWavelet() ? 150.0 : 900.0);
        if (heavy > 1.0){ calls_hi = std::max(20, (int)(60.0 / heavy)); reps = std::max(3, (int)((double) reps / std::min(heavy, 4.0))); }
    }
    std::unique_ptr<TasmanianSparseGrid> Sown;
    long total_calls = 0;
    for(int rep=0; rep<reps; rep++){
        bool warm = (rep > 0 && Sown && rng.coin(0.25));
        if (!warm) Sown = fresh();
        TasmanianSparseGrid const &S = *Sown;
        int nthreads = rng.range(4, 8);
        if (logdir && __sanitizer_set_report_path){
            std::string p = std::string(logdir) + "/tsan.i" + std::to_string(c.index) + ".r" + std::to_string(rep) + ".t" + std::to_string(nthreads) + "." + fam + "." + cls
                          + (warm ? ".warm" : ".cold");
            __sanitizer_set_report_path(p.c_str());
        }
        long reports_before = g_tsan_reports.load(std::memory_order_relaxed);
        std::vector<std::unique_ptr<ThreadPlan>> plans;
        for(int t=0; t<nthreads; t++){
            std::unique_ptr<ThreadPlan> p(new ThreadPlan());
            int n = rng.range(20, calls_hi);
            for(int k=0; k<n; k++) p->calls.push_back(rng.range(0, (int) pool.size() - 1));
            p->skew = rng.coin(0.5) ? 0 : (long) rng.range(0, 1 << rng.range(4, 14));
            plans.push_back(std::move(p));
        }
        std::atomic<int> arrived{0}, go_flag{0};
        std::atomic<long> clock{0};
        std::vector<std::thread> th;
        for(int t=0; t<nthreads; t++){
            ThreadPlan *p = plans[(size_t) t].get();
            const bool keep = !have_ref;
            th.emplace_back([p, &S, &pool, &ref, &arrived, &go_flag, &clock, reports_before, keep](){
                arrived.fetch_add(1, std::memory_order_acq_rel);
                while(go_flag.load(std::memory_order_acquire) == 0) sched_yield();
                volatile long spin = 0; for(long k=0; k<p->skew; k++) spin = spin + 1;
                p->t_start = clock.fetch_add(1, std::memory_order_relaxed);
                for(size_t k=0; k<p->calls.size(); k++){
                    int id = p->calls[k];
                    run_call(S, pool[(size_t) id], p->scratch, p->os);
                    if (k == 0) p->t_first = clock.fetch_add(1, std::memory_order_relaxed);
                    p->done = (long) k + 1;
                    if (keep){ p->kept.push_back(p->scratch); }
                    else if (!p->scratch.same(ref[(size_t) id])){
                        p->nmism++;
                        if (p->mism.size() < 3){ Mismatch mm; mm.call = id; mm.pos = (int) k; mm.got = p->scratch; p->mism.push_back(std::move(mm)); }
                    }
                    // every racy access costs the sanitizer runtime a search over all racy addresses seen so far: once a repetition has produced
                    // this many reports the verdict is settled and the rest of the multiset is dropped (relaxed load: no synchronisation)
                    if (g_tsan_reports.load(std::memory_order_relaxed) - reports_before >= 20) break;
                }
                p->t_end = clock.fetch_add(1, std::memory_order_relaxed);
            });
        }
        while(arrived.load(std::memory_order_acquire) < nthreads) sched_yield();
        go_flag.store(1, std::memory_order_release);
        for(auto &t : th) t.join();
        if (!have_ref){
            if (!compute_ref()) return;
            c.count("runs_concurrent_before_reference");
            for(auto &p : plans){
                for(size_t k=0; k<p->kept.size(); k++){
                    int id = p->calls[k];
                    if (!p->kept[k].same(ref[(size_t) id])){
                        p->nmism++;
                        if (p->mism.size() < 3){ Mismatch mm; mm.call = id; mm.pos = (int) k; mm.got = p->kept[k]; p->mism.push_back(std::move(mm)); }
                    }
                }
                p->kept.clear();
            }
        }

        // overlap accounting from the logical clock
        int overlapping = 0; long min_first = -1; int together_in_first = 0;
        for(int a=0; a<nthreads; a++){
            bool ov = false;
            for(int b=0; b<nthreads; b++) if (a != b && plans[(size_t) a]->t_start < plans[(size_t) b]->t_end && plans[(size_t) b]->t_start < plans[(size_t) a]->t_end) ov = true;
            if (ov) overlapping++;
            if (min_first < 0 || plans[(size_t) a]->t_first < min_first) min_first = plans[(size_t) a]->t_first;
        }
        for(int a=0; a<nthreads; a++) if (plans[(size_t) a]->t_start < min_first) together_in_first++;
        bool concurrent = (overlapping >= 2);
        c.count("runs");
        c.count(concurrent ? "runs_concurrent" : "runs_not_concurrent");
        c.count(warm ? "runs_warm" : "runs_cold");
        if (!warm && together_in_first >= 2) c.count("runs_cold_first_calls_overlapped");
        { long long &mx = c.counters["max_threads_overlapping"]; mx = std::max<long long>(mx, overlapping); }
        for(auto &p : plans) total_calls += p->done;
        if (concurrent){
            std::string combo = fam + "/" + cls + "/t" + std::to_string(nthreads);
            c.sig(combo); c.count("combo:" + combo); c.count("concurrent:" + fam); // combo:* counters reach the evidence also for violating cases
        }
        long new_reports = g_tsan_reports.load(std::memory_order_relaxed) - reports_before;
        if (new_reports > 0){ c.count("tsan_reports_inprocess", new_reports); c.count("tsan_reports_inprocess:" + fam, new_reports); }

        // mismatches
        std::ostringstream os(std::ios::out | std::ios::binary);
        for(int t=0; t<nthreads; t++){
            ThreadPlan &p = *plans[(size_t) t];
            for(auto &mm : p.mism){
                Call const &q = pool[(size_t) mm.call];
                Res after; run_call(S, q, after, os);
                c.viol(std::string("result-differs:") + kind_name(q.kind) + ":" + fam,
                       J().str("call", kind_name(q.kind)).i("rep", rep).i("threads", nthreads).i("thread", t).i("position_in_thread", mm.pos).b("cold", !warm)
                          .str("state", cls).kv("difference", res_diff(ref[(size_t) mm.call], mm.got)).vec("x", q.x, 12)
                          .b("sequential_call_on_S_afterwards_equals_reference", after.same(ref[(size_t) mm.call]))
                          .i("mismatching_calls_of_this_thread", p.nmism).i("threads_overlapping", overlapping).obj());
            }
        }
        // the persistent state is untouched
        { reset(os); S.write(os, true);
          if (os.str() != ref_state) c.viol("state-changed-by-const-calls:" + fam, J().i("rep", rep).i("threads", nthreads).str("state", cls).obj()); }
        if (c.nviol) break;
        if (new_reports > 0){ c.count("cases_cut_short_after_sanitizer_report"); break; } // the case is decided; racing on is only slow
    }
    c.count("concurrent_calls", total_calls);
    if (logdir && __sanitizer_set_report_path){
        std::string p = std::string(logdir) + "/tsan.outside";
        __sanitizer_set_report_path(p.c_str());
    }
}

} // namespace vf
