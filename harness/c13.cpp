// C13 - results do not depend on the number of OpenMP threads.
//
// This monitor is the *producer* half of a differential oracle; the comparing half lives in drivers/c13_driver.py.
// One case = one scripted history that is a pure function of (seed, index):
//   kinds 0..5,7 : a sparse grid of one family, sized so that the parallel regions of the library really split work (>= 2000 points for
//                  most cases), followed by a random legal history (load, refine with every strategy, update, merge, clear, coefficient
//                  overwrite, dynamic construction with candidate lists);
//   kind  6      : a ParticleSwarm run (the velocity update is an OpenMP loop) in several segments.
// After every step the FULL observation of the object (vf::observe plus the batch / sparse-basis / C-interface batch weights / anisotropy
// estimates / candidate lists added here) is appended to the file given by  out=<path>  in a line format:
//   H <key> <value>                      header (build flavour, threads actually seen inside a parallel region)
//   C <index> <family>                   case
//   T <k> <step name> <points> <step json>   step k was applied and the grid has <points> points now
//   X <k> <step name> <exception class>  step k threw (the script ends)
//   P <phase>                            written through before every library call group (read by the driver when the process dies)
//   I/S/N <field> ...                    integer / string / floating point (hex, bit exact) fields of the observation
// The driver runs the same (seed, index) in the serial build and in the OpenMP builds under many thread settings and compares the files:
// structure exactly, numbers to a cancellation-aware tolerance.  Nothing is decided inside this process except that a script could be run.
#include "monitors.hpp"
#include "TasmanianOptimization.hpp"
extern "C" void tsgBatchGetInterpolationWeightsStatic(void *grid, const double *x, int num_x, double *weights); // TasmanianSparseGrid.h (C interface)
#include <fstream>
#ifdef _OPENMP
#include <omp.h>
#endif

namespace vf{
namespace {

struct Sink{
    FILE *f = nullptr;
    std::string buf;
    void open(std::string const &path){ if (!path.empty()) f = fopen(path.c_str(), "a"); }
    void line(std::string const &s){ buf += s; buf += '\n'; }
    void flush(){ if (f){ fwrite(buf.data(), 1, buf.size(), f); fflush(f); } buf.clear(); }
    // phase marker, written through at once: when the process dies the driver reads from the partial file what it was doing
    void phase(std::string const &what){ line("P " + what); flush(); }
    ~Sink(){ if (f) fclose(f); }
};

int threads_in_parallel_region(){
    int n = 1;
    #ifdef _OPENMP
    #pragma omp parallel
    {
        #pragma omp master
        n = omp_get_num_threads();
    }
    #endif
    return n;
}

// ------------------------------------------------------------------------------------------------------------------------------------
// large grids: the depth is grown until the point cap is passed (the meaning of depth depends on the selection type)
// ------------------------------------------------------------------------------------------------------------------------------------
void make_at(TasmanianSparseGrid &g, Cfg const &c, int depth){
    switch(c.family){
        case fam_global:   g.makeGlobalGrid(c.dims, c.outs, depth, c.type, c.rule, c.aw, c.alpha, c.beta, nullptr, c.limits); break;
        case fam_sequence: g.makeSequenceGrid(c.dims, c.outs, depth, c.type, c.rule, c.aw, c.limits); break;
        case fam_localp:   g.makeLocalPolynomialGrid(c.dims, c.outs, depth, c.order, c.rule, c.limits); break;
        case fam_wavelet:  g.makeWaveletGrid(c.dims, c.outs, depth, c.order, c.limits); break;
        default:           g.makeFourierGrid(c.dims, c.outs, depth, c.type, c.aw, c.limits); break;
    }
}
int max_index(TasmanianSparseGrid const &g){
    int n = g.getNumPoints(), d = g.getNumDimensions(), mx = 0;
    if (n == 0) return 0;
    const int *idx = g.getPointsIndexes();
    for(size_t q=0; q<(size_t) n * (size_t) d; q++) mx = std::max(mx, idx[q]);
    return mx;
}
bool make_big(TasmanianSparseGrid &g, Cfg &c, int cap, int max_depth){
    int best = -1;
    // 1-D rules: greedy sequences are optimised numerically node by node (tabulated use only), Lagrange bases with many hundred nodes are
    // numerically meaningless; both are generator limits (DESIGN.md section 7), not properties of the library
    int idx_cap = ((c.family == fam_global || c.family == fam_sequence) && is_optimized_sequence(c.rule)) ? 36 : 260;
    for(int dpt = 0; dpt <= max_depth; dpt++){
        try{ make_at(g, c, dpt); }catch(std::exception &){ break; } // e.g. Gauss-Patterson table exhausted
        if (g.getNumPoints() > cap) break;
        if ((c.family == fam_global || c.family == fam_sequence) && max_index(g) > idx_cap) break;
        best = dpt;
    }
    if (best < 0) return false;
    c.depth = best;
    try{ make_at(g, c, best); apply_transforms(g, c); }catch(std::exception &){ return false; }
    return true;
}

// tolerance with three significant digits: the script must not depend on the last digits of library output
double round3(double t){
    if (!(t > 0.0) || !std::isfinite(t)) return t;
    double e = std::floor(std::log10(t));
    double m = std::round(t / std::pow(10.0, e - 2.0));
    char b[64]; snprintf(b, sizeof(b), "%.0fe%d", m, (int) e - 2);
    return strtod(b, nullptr);
}
// moves a refinement tolerance away from every normalised coefficient magnitude (a tie within rounding would make the selection
// legitimately ambiguous); returns false when no clear tolerance was found
bool clear_of_ties(TasmanianSparseGrid const &g, double &tol){
    int m = g.getNumOutputs(), n = g.getNumLoaded();
    if (m == 0 || n == 0 || !(tol > 0.0) || tol >= 1e5) return true;
    const double *cf = g.getHierarchicalCoefficients();
    const double *v = g.getLoadedValues();
    std::vector<double> norm((size_t) m, 0.0);
    for(int i=0; i<n; i++) for(int k=0; k<m; k++) norm[(size_t) k] = std::max(norm[(size_t) k], std::fabs(v[(size_t) i * (size_t) m + (size_t) k]));
    for(int attempt = 0; attempt < 8; attempt++){
        bool tie = false;
        for(int i=0; i<n && !tie; i++) for(int k=0; k<m; k++){
            double c1 = std::fabs(cf[(size_t) i * (size_t) m + (size_t) k]);
            if (g.isFourier()){ double im = cf[((size_t) n + (size_t) i) * (size_t) m + (size_t) k]; c1 = std::sqrt(c1 * c1 + im * im); }
            double r1 = (norm[(size_t) k] > 0.0) ? c1 / norm[(size_t) k] : 0.0;
            if (std::fabs(c1 - tol) <= 1e-7 * tol || std::fabs(r1 - tol) <= 1e-7 * tol){ tie = true; break; }
        }
        if (!tie) return true;
        tol = round3(tol * 1.013);
    }
    return false;
}

std::string hexd(double v){ char b[40]; snprintf(b, sizeof(b), " %a", v); return b; }
void put_num(Sink &o, std::string const &k, std::vector<double> const &v){
    std::string s = "N " + k + " " + std::to_string(v.size());
    s.reserve(s.size() + v.size() * 24);
    for(double x : v) s += hexd(x);
    o.line(s);
}
template<class T> void put_int(Sink &o, std::string const &k, std::vector<T> const &v){
    std::string s = "I " + k + " " + std::to_string(v.size());
    for(auto x : v){ s += ' '; s += std::to_string((long long) x); }
    o.line(s);
}

const int num_batch = 96; // >= 64 points: batch evaluation and sparse basis assembly split into several chunks per thread

// observation after a step: everything the public const API shows + the batch routes that have their own parallel regions
void dump_grid(Sink &o, TasmanianSparseGrid const &g, std::vector<double> const *candidates, CaseCtx &c){
    if (g.getNumPoints() > 0){
        // the C interface evaluates interpolation weights for a batch of points in an OpenMP loop of its own; it is called FIRST, i.e. as the
        // first weight query after the step, the way a Python user calls getInterpolationWeightsBatch() right after loading values
        int nb = 6;
        o.phase("c_batch_iweights");
        std::vector<double> xb = probe_points(g, nb, 4242);
        std::vector<double> w((size_t) nb * (size_t) g.getNumPoints(), 0.0);
        tsgBatchGetInterpolationWeightsStatic((void*) const_cast<TasmanianSparseGrid*>(&g), xb.data(), nb, w.data());
        put_num(o, "c_batch_iweights", w);
    }
    o.phase("observe");
    ObsOpts oo; oo.num_probes = 4;
    Obs ob = observe(g, oo);
    o.buf += obs_serialize(ob);
    if (candidates) put_num(o, "candidates", *candidates);
    int n = g.getNumPoints(), d = g.getNumDimensions(), m = g.getNumOutputs();
    if (n == 0) return;
    std::vector<double> x = probe_points(g, num_batch, 4242);
    o.phase("batch");
    if (m > 0 && g.getNumLoaded() > 0){
        std::vector<double> y; g.evaluateBatch(x, y);
        put_num(o, "batch_eval", y);
        c.count("batch_evaluations");
        if (g.isGlobal() || g.isSequence() || g.isFourier()){
            try{
                put_int(o, "aniso_iptotal", g.estimateAnisotropicCoefficients(type_iptotal, 0));
            }catch(std::exception &e){ o.line("S aniso_exception " + exception_class(e)); }
        }
    }
    if (g.isLocalPolynomial() || g.isWavelet()){
        std::vector<int> pntr, indx; std::vector<double> vals;
        g.evaluateSparseHierarchicalFunctions(x, pntr, indx, vals);
        put_int(o, "sparse_pntr", pntr); put_int(o, "sparse_indx", indx); put_num(o, "sparse_vals", vals);
        c.count("sparse_basis_assemblies");
    }
    (void) d;
}

const char* size_class(int n){ return (n < 500) ? "lt500" : (n < 2000) ? "500-1999" : (n < 4000) ? "2000-3999" : "ge4000"; }

// ------------------------------------------------------------------------------------------------------------------------------------
// grid scripts
// ------------------------------------------------------------------------------------------------------------------------------------
void grid_script(CaseCtx &c, Rng &rng, Sink &out, int family, int nsteps_max){
    GenOpts go;
    go.families = 1u << family; go.max_dims = 4; go.min_outs = 1; go.max_outs = 2; go.custom = false; go.max_depth = 9;
    HState h;
    for(int t=0; ; t++){
        h.cfg = gen_cfg(rng, go);
        bool greedy = (h.cfg.family == fam_global || h.cfg.family == fam_sequence) && is_optimized_sequence(h.cfg.rule); // at most 37 nodes per direction
        if (h.cfg.dims >= (greedy ? 3 : 2) && !(h.cfg.family == fam_wavelet && h.cfg.dims > 3)) break;
        if (t > 50){ h.cfg.dims = 2; h.cfg.aw.clear(); h.cfg.limits.clear(); h.cfg.ta.clear(); h.cfg.tb.clear(); h.cfg.conformal.clear(); break; }
    }
    Cfg &f = h.cfg;
    for(auto &l : f.limits) if (l >= 0) l += rng.range(2, 5); // limits stay in force but leave room for a large grid
    // point caps: most cases are large; one in five is small so that the code paths below the library's own size thresholds are seen too
    static const int caps[] = {2400, 3000, 3600, 4400};
    int cap = caps[rng.range(0, 3)];
    if (family == fam_wavelet) cap = (f.order == 3) ? 1700 : 2300; // the un-pivoted ILU of the wavelet matrix (one parallel region per row) dominates the cost
    if (rng.coin(0.2)) cap = rng.range(200, 900);
    if (long long mp = argi("maxpts", 0)) cap = (int) mp;
    bool made = make_big(h.g, f, cap, 64);
    emit_begin(c, J().str("kind", "grid").kv("cfg", f.json()).i("cap", cap).i("points", made ? h.g.getNumPoints() : -1).obj());
    out.line("C " + std::to_string(c.index) + " " + fam_name(family));
    if (!made){ c.inconc("make-failed"); out.line("X 0 make make-failed"); out.flush(); return; }
    h.expected_limits = f.limits; h.shadow.dims = f.dims; h.shadow.outs = f.outs;
    h.vmode = rng.coin(0.35) ? 0 : 1; // mostly smooth data: refinement then selects strict subsets
    std::vector<double> cand; bool have_cand = false;
    h.on_candidates = [&](std::vector<double> const &x){ cand = x; have_cand = true; };
    HOpts ho; ho.max_points = 2 * cap + 1000;

    out.line("T 0 make " + std::to_string(h.g.getNumPoints()) + " " + f.json());
    dump_grid(out, h.g, nullptr, c); out.flush();
    c.count(std::string("steps_points_") + size_class(h.g.getNumPoints()));
    c.count("max_points", 0); c.counters["max_points"] = std::max<long long>(c.counters["max_points"], h.g.getNumPoints());

    std::string shape;
    int nsteps = rng.range(std::max(3, nsteps_max - 2), nsteps_max);
    if (family == fam_wavelet) nsteps = std::min(nsteps, 3 + (nsteps_max > 5 ? 1 : 0));
    for(int k=1; k<=nsteps; k++){
        Step s;
        for(int tries=0; tries<16; tries++){
            s = choose_step(h, rng, ho);
            if (s.kind == Step::none) break;
            bool refine = (s.kind == Step::aniso || s.kind == Step::surplus_seq || s.kind == Step::surplus_loc || s.kind == Step::update || s.kind == Step::begin_c);
            if (k == 1 && s.kind != Step::load && h.g.getNumNeeded() > 0) continue;              // values first
            if (k == 2 && !refine && !h.g.isUsingConstruction()) continue;                        // then something that selects points
            break;
        }
        if (s.kind == Step::none) break;
        if (s.kind == Step::surplus_seq || s.kind == Step::surplus_loc || s.kind == Step::cand_load){
            s.tol = round3(s.tol);
            if (!clear_of_ties(h.g, s.tol)){ c.count("tolerance_ties_not_cleared"); }
        }
        int before = h.g.getNumLoaded() + h.g.getNumNeeded();
        // steps that select new points are tried on a copy first: a history must stay within the size this monitor can afford to observe in
        // full after every step (an update two depths up or a zero tolerance in 4-d multiplies the grid by ten)
        if (s.kind == Step::update || s.kind == Step::surplus_seq || s.kind == Step::surplus_loc || s.kind == Step::aniso){
            int limit = cap + std::max(1200, cap / 2);
            for(int attempt=0; attempt<8; attempt++){
                TasmanianSparseGrid trial(h.g);
                std::string e = apply_step(trial, s, nullptr);
                if (!e.empty() || trial.getNumLoaded() + trial.getNumNeeded() <= limit) break;
                c.count("steps_shrunk_to_fit");
                if (s.kind == Step::update){ if (s.depth == 0) break; s.depth--; }
                else if (s.kind == Step::aniso){ if (s.min_growth == 1) break; s.min_growth = 1; }
                else{ s.tol = round3((s.tol > 0.0) ? s.tol * 8.0 : 1e-4); clear_of_ties(h.g, s.tol); }
            }
        }
        have_cand = false;
        out.phase("step:" + s.name());
        std::string err = apply_step(h.g, s, &h);
        if (!err.empty()){
            out.line("X " + std::to_string(k) + " " + s.name() + " " + err.substr(0, err.find(':')));
            out.flush();
            c.count("script_cut_by_exception:" + s.name() + ":" + err.substr(0, err.find(':')));
            break;
        }
        int np = h.g.getNumLoaded() + h.g.getNumNeeded();
        out.line("T " + std::to_string(k) + " " + s.name() + " " + std::to_string(np) + " " + s.json());
        dump_grid(out, h.g, have_cand ? &cand : nullptr, c); out.flush();
        shape += s.name() + ",";
        c.count("steps"); c.count("step:" + s.name());
        c.count(std::string("steps_points_") + size_class(std::max(before, np)));
        c.count(std::string("step_") + fam_name(family) + ":" + s.name() + ":" + size_class(std::max(before, np)));
        c.counters["max_points"] = std::max<long long>(c.counters["max_points"], np);
        if (np > 3 * cap + 2000) break;
    }
    c.sig(f.sig() + "|" + shape);
}

// ------------------------------------------------------------------------------------------------------------------------------------
// particle swarm scripts
// ------------------------------------------------------------------------------------------------------------------------------------
void swarm_script(CaseCtx &c, Rng &rng, Sink &out){
    int d = rng.range(2, 8), np = rng.coin(0.2) ? rng.range(8, 100) : rng.range(400, 4000);
    double inertia = rng.uni(0.3, 0.9), cog = rng.uni(0.5, 2.5), soc = rng.uni(0.5, 2.5);
    int objective = rng.range(0, 2), domain = rng.range(0, 2);
    int nseg = rng.range(2, 4);
    std::vector<int> seg; for(int i=0; i<nseg; i++) seg.push_back(rng.range(1, 12));
    uint64_t stream_seed = rng.next();
    size_t D = (size_t) d;
    std::vector<double> lo(D), hi(D), ctr(D);
    for(size_t i=0; i<D; i++){ lo[i] = rng.uni(-3.0, -0.5); hi[i] = rng.uni(0.5, 3.0); ctr[i] = rng.uni(-0.5, 0.5); }
    emit_begin(c, J().str("kind", "swarm").i("dims", d).i("particles", np).num("inertia", inertia).num("cognitive", cog).num("social", soc)
                  .i("objective", objective).i("domain", domain).vec("segments", seg).obj());
    out.line("C " + std::to_string(c.index) + " swarm");
    auto f = [&](std::vector<double> const &xb, std::vector<double> &fv)->void{
        for(size_t i=0; i<fv.size(); i++){
            const double *x = &xb[i * D]; double s = 0.0;
            for(size_t j=0; j<D; j++){
                double t = x[j] - ctr[j];
                s += (objective == 0) ? t * t : (objective == 1) ? t * t + 1.5 * (1.0 - std::cos(3.0 * t)) : std::fabs(t) + 0.1 * t * t * (double)(j + 1);
            }
            fv[i] = s;
        }
    };
    auto inside = [&](std::vector<double> const &x)->bool{
        if (domain == 0) return true;
        if (domain == 1){ for(size_t j=0; j<D; j++) if (x[j] < lo[j] || x[j] > hi[j]) return false; return true; }
        double s = 0.0; for(size_t j=0; j<D; j++) s += x[j] * x[j]; return s <= 6.0;
    };
    Rng stream(stream_seed);
    auto r01 = [&]()->double{ return stream.uni(); };
    TasOptimization::ParticleSwarmState st(d, np);
    st.initializeParticlesInsideBox(lo, hi, r01);
    out.line("T 0 init " + std::to_string(np) + " {}");
    put_num(out, "positions", st.getParticlePositions()); put_num(out, "velocities", st.getParticleVelocities()); out.flush();
    int k = 0;
    for(int it : seg){
        k++;
        out.phase("step:swarm");
        try{
            TasOptimization::ParticleSwarm(f, inside, inertia, cog, soc, it, st, r01);
        }catch(std::exception &e){
            out.line("X " + std::to_string(k) + " swarm " + exception_class(e)); out.flush(); break;
        }
        out.line("T " + std::to_string(k) + " swarm " + std::to_string(np) + " {\"iterations\":" + std::to_string(it) + "}");
        put_num(out, "positions", st.getParticlePositions()); put_num(out, "velocities", st.getParticleVelocities());
        put_num(out, "best_positions", st.getBestParticlePositions());
        std::vector<bool> fl = st.getStateVector();
        put_int(out, "flags", std::vector<int>(fl.begin(), fl.end()));
        out.flush();
        c.count("steps"); c.count("step:swarm"); c.count("swarm_iterations", it);
        c.count(std::string("step_swarm:run:") + size_class(np));
    }
    c.counters["max_particles"] = std::max<long long>(c.counters["max_particles"], np);
    c.sig("swarm|d" + std::to_string(d) + "|" + size_class(np) + "|o" + std::to_string(objective) + "|m" + std::to_string(domain));
}

} // namespace

void mon_c13(CaseCtx &c, Rng &rng){
    Sink out; out.open(arg("out", ""));
    static bool header_done = false;
    if (!header_done){
        header_done = true;
        out.line(std::string("H openmp ") + (TasmanianSparseGrid::isOpenMPEnabled() ? "1" : "0"));
        out.line("H threads " + std::to_string(threads_in_parallel_region()));
    }
    int kind = (int)(c.index % 8);
    int nsteps = c.thorough ? 7 : 5;
    if (long long ns = argi("steps", 0)) nsteps = (int) ns;
    switch(kind){
        case 0: grid_script(c, rng, out, fam_localp, nsteps); break;
        case 1: grid_script(c, rng, out, fam_global, nsteps); break;
        case 2: grid_script(c, rng, out, fam_fourier, nsteps); break;
        case 3: grid_script(c, rng, out, fam_wavelet, nsteps); break;
        case 4: grid_script(c, rng, out, fam_sequence, nsteps); break;
        case 5: grid_script(c, rng, out, fam_localp, nsteps); break;
        case 6: swarm_script(c, rng, out); break;
        default:{ static const int fams[] = {fam_global, fam_sequence, fam_fourier, fam_wavelet, fam_localp}; grid_script(c, rng, out, fams[rng.range(0, 4)], nsteps); break; }
    }
    out.flush();
}

} // namespace vf
