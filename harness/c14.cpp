// C14 - misuse is reported by the documented exceptions and never corrupts a grid
#include "monitors.hpp"
#include <fstream>
#include <sys/stat.h>

namespace vf{

// One documented misuse: `applies` says whether the throws-clause covers the given state, `call` performs the misuse.
struct Misuse{
    std::string name;                       // stable name = key suffix
    bool maker;                             // make*/read*: the object may legitimately be empty afterwards
    std::function<bool(TasmanianSparseGrid const&, Cfg const&)> applies;
    std::function<void(TasmanianSparseGrid&, Rng&, std::string const &tmp)> call;
};

static bool st_empty(TasmanianSparseGrid const &g){ return g.empty(); }
static bool st_any(TasmanianSparseGrid const&, Cfg const&){ return true; }
static bool nonempty(TasmanianSparseGrid const &g, Cfg const&){ return !g.empty(); }
static bool is_gsf(TasmanianSparseGrid const &g){ return g.isGlobal() || g.isSequence() || g.isFourier(); }
static bool is_lw(TasmanianSparseGrid const &g){ return g.isLocalPolynomial() || g.isWavelet(); }
static std::vector<int> wrong_vec(TasmanianSparseGrid const &g, Rng &rng, int right){ (void) g; int n = right + (rng.coin() ? 1 : (right > 1 ? -1 : 1)); if (n <= 0) n = right + 1; return std::vector<int>((size_t) n, 1); }
static std::string write_file(std::string const &path, std::string const &bytes){ std::ofstream f(path, std::ios::binary); f << bytes; return path; }

static std::vector<Misuse> const& table(){
    static std::vector<Misuse> t;
    if (!t.empty()) return t;
    auto add = [&](std::string n, bool maker, std::function<bool(TasmanianSparseGrid const&, Cfg const&)> ap, std::function<void(TasmanianSparseGrid&, Rng&, std::string const&)> ca){ t.push_back({n, maker, ap, ca}); };
    // ---- make* : argument ranges, rule classes, vector sizes -----------------------------------------------------------------------------
    add("makeGlobalGrid:dimensions<1", true, st_any, [](TasmanianSparseGrid &g, Rng &r, std::string const&){ g.makeGlobalGrid(r.coin() ? 0 : -2, 1, 2, type_level, rule_clenshawcurtis); });
    add("makeGlobalGrid:outputs<0", true, st_any, [](TasmanianSparseGrid &g, Rng&, std::string const&){ g.makeGlobalGrid(2, -1, 2, type_level, rule_clenshawcurtis); });
    add("makeGlobalGrid:depth<0", true, st_any, [](TasmanianSparseGrid &g, Rng&, std::string const&){ g.makeGlobalGrid(2, 1, -1, type_level, rule_clenshawcurtis); });
    add("makeGlobalGrid:not-a-global-rule", true, st_any, [](TasmanianSparseGrid &g, Rng &r, std::string const&){ g.makeGlobalGrid(2, 1, 2, type_level, r.coin() ? rule_localp : (r.coin() ? rule_fourier : rule_wavelet)); });
    add("makeGlobalGrid:custom-without-filename", true, st_any, [](TasmanianSparseGrid &g, Rng&, std::string const&){ g.makeGlobalGrid(2, 1, 2, type_level, rule_customtabulated); });
    add("makeGlobalGrid:weights-wrong-size", true, st_any, [](TasmanianSparseGrid &g, Rng &r, std::string const&){ TypeDepth ty = r.coin() ? type_level : type_curved; g.makeGlobalGrid(2, 1, 2, ty, rule_clenshawcurtis, std::vector<int>(ty == type_curved ? 2 : 3, 1)); });
    add("makeGlobalGrid:limits-wrong-size", true, st_any, [](TasmanianSparseGrid &g, Rng&, std::string const&){ g.makeGlobalGrid(2, 1, 2, type_level, rule_clenshawcurtis, std::vector<int>(), 0.0, 0.0, nullptr, std::vector<int>{1, 1, 1}); });
    add("makeGlobalGrid:custom-file-missing", true, st_any, [](TasmanianSparseGrid &g, Rng&, std::string const &tmp){ g.makeGlobalGrid(2, 1, 2, type_level, rule_customtabulated, std::vector<int>(), 0.0, 0.0, (tmp + "/no_such_file.table").c_str()); });
    add("makeGlobalGrid:custom-file-ill-formed", true, st_any, [](TasmanianSparseGrid &g, Rng &r, std::string const &tmp){
        std::string f = write_file(tmp + "/bad.table", r.coin() ? "this is not a table\n" : "description: x\nlevelz: 3\n1 1\n");
        g.makeGlobalGrid(2, 1, 2, type_level, rule_customtabulated, std::vector<int>(), 0.0, 0.0, f.c_str()); });
    add("makeGlobalGrid:depth-beyond-gauss-patterson-table", true, st_any, [](TasmanianSparseGrid &g, Rng&, std::string const&){ g.makeGlobalGrid(1, 1, 12, type_level, rule_gausspatterson); });
    add("makeGlobalGrid:depth-beyond-custom-table", true, st_any, [](TasmanianSparseGrid &g, Rng&, std::string const&){ g.makeGlobalGrid(1, 1, 12, type_level, make_custom_rule(4, false)); });
    add("makeSequenceGrid:dimensions<1", true, st_any, [](TasmanianSparseGrid &g, Rng&, std::string const&){ g.makeSequenceGrid(0, 1, 2, type_level, rule_leja); });
    add("makeSequenceGrid:outputs<0", true, st_any, [](TasmanianSparseGrid &g, Rng&, std::string const&){ g.makeSequenceGrid(2, -3, 2, type_level, rule_leja); });
    add("makeSequenceGrid:depth<0", true, st_any, [](TasmanianSparseGrid &g, Rng&, std::string const&){ g.makeSequenceGrid(2, 1, -1, type_level, rule_leja); });
    add("makeSequenceGrid:not-a-sequence-rule", true, st_any, [](TasmanianSparseGrid &g, Rng &r, std::string const&){ g.makeSequenceGrid(2, 1, 2, type_level, r.coin() ? rule_clenshawcurtis : rule_gausslegendre); });
    add("makeSequenceGrid:weights-wrong-size", true, st_any, [](TasmanianSparseGrid &g, Rng&, std::string const&){ g.makeSequenceGrid(2, 1, 2, type_level, rule_leja, std::vector<int>{1}); });
    add("makeSequenceGrid:limits-wrong-size", true, st_any, [](TasmanianSparseGrid &g, Rng&, std::string const&){ g.makeSequenceGrid(2, 1, 2, type_level, rule_leja, std::vector<int>(), std::vector<int>{1}); });
    add("makeLocalPolynomialGrid:dimensions<1", true, st_any, [](TasmanianSparseGrid &g, Rng&, std::string const&){ g.makeLocalPolynomialGrid(0, 1, 2, 1, rule_localp); });
    add("makeLocalPolynomialGrid:outputs<0", true, st_any, [](TasmanianSparseGrid &g, Rng&, std::string const&){ g.makeLocalPolynomialGrid(2, -1, 2, 1, rule_localp); });
    add("makeLocalPolynomialGrid:depth<0", true, st_any, [](TasmanianSparseGrid &g, Rng&, std::string const&){ g.makeLocalPolynomialGrid(2, 1, -2, 1, rule_localp); });
    add("makeLocalPolynomialGrid:order<-1", true, st_any, [](TasmanianSparseGrid &g, Rng&, std::string const&){ g.makeLocalPolynomialGrid(2, 1, 2, -2, rule_localp); });
    add("makeLocalPolynomialGrid:not-a-local-rule", true, st_any, [](TasmanianSparseGrid &g, Rng &r, std::string const&){ g.makeLocalPolynomialGrid(2, 1, 2, 1, r.coin() ? rule_clenshawcurtis : rule_wavelet); });
    add("makeLocalPolynomialGrid:limits-wrong-size", true, st_any, [](TasmanianSparseGrid &g, Rng&, std::string const&){ g.makeLocalPolynomialGrid(2, 1, 2, 1, rule_localp, std::vector<int>{1, 2, 3}); });
    add("makeWaveletGrid:dimensions<1", true, st_any, [](TasmanianSparseGrid &g, Rng&, std::string const&){ g.makeWaveletGrid(-1, 1, 2, 1); });
    add("makeWaveletGrid:outputs<0", true, st_any, [](TasmanianSparseGrid &g, Rng&, std::string const&){ g.makeWaveletGrid(2, -1, 2, 1); });
    add("makeWaveletGrid:depth<0", true, st_any, [](TasmanianSparseGrid &g, Rng&, std::string const&){ g.makeWaveletGrid(2, 1, -1, 1); });
    add("makeWaveletGrid:order-not-1-or-3", true, st_any, [](TasmanianSparseGrid &g, Rng &r, std::string const&){ static const int o[] = {0, 2, 4, -1, 5}; g.makeWaveletGrid(2, 1, 2, o[r.range(0, 4)]); });
    add("makeWaveletGrid:limits-wrong-size", true, st_any, [](TasmanianSparseGrid &g, Rng&, std::string const&){ g.makeWaveletGrid(2, 1, 2, 1, std::vector<int>{1}); });
    add("makeFourierGrid:dimensions<1", true, st_any, [](TasmanianSparseGrid &g, Rng&, std::string const&){ g.makeFourierGrid(0, 1, 2, type_level); });
    add("makeFourierGrid:outputs<0", true, st_any, [](TasmanianSparseGrid &g, Rng&, std::string const&){ g.makeFourierGrid(2, -1, 2, type_level); });
    add("makeFourierGrid:depth<0", true, st_any, [](TasmanianSparseGrid &g, Rng&, std::string const&){ g.makeFourierGrid(2, 1, -1, type_level); });
    add("makeFourierGrid:weights-wrong-size", true, st_any, [](TasmanianSparseGrid &g, Rng&, std::string const&){ g.makeFourierGrid(2, 1, 2, type_level, std::vector<int>{1, 1, 1}); });
    add("makeFourierGrid:limits-wrong-size", true, st_any, [](TasmanianSparseGrid &g, Rng&, std::string const&){ g.makeFourierGrid(2, 1, 2, type_level, std::vector<int>(), std::vector<int>{1}); });
    // ---- read -----------------------------------------------------------------------------------------------------------------------------
    add("read:missing-file", true, st_any, [](TasmanianSparseGrid &g, Rng&, std::string const &tmp){ g.read((tmp + "/does_not_exist.tsg").c_str()); });
    add("read:directory", true, st_any, [](TasmanianSparseGrid &g, Rng&, std::string const &tmp){ g.read(tmp.c_str()); });
    add("read:ascii-wrong-header", true, st_any, [](TasmanianSparseGrid &g, Rng &r, std::string const &tmp){
        static const char *bad[] = {"HELLO WORLD 1.0\n", "TASMANIAN XX 8.2\nWARNING: do not edit this manually\nglobal\n", "TASMANIAN SG 8.2\nno warning line\nglobal\n", "TASMANIAN SG nonsense\n", ""};
        g.read(write_file(tmp + "/bad_header.tsg", bad[r.range(0, 4)]).c_str()); });
    add("read:ascii-unknown-grid-type", true, st_any, [](TasmanianSparseGrid &g, Rng&, std::string const &tmp){
        g.read(write_file(tmp + "/bad_type.tsg", std::string("TASMANIAN SG ") + TasmanianSparseGrid::getVersion() + "\nWARNING: do not edit this manually\nhexagonal\n2 1\n").c_str()); });
    add("read:ascii-future-version", true, st_any, [](TasmanianSparseGrid &g, Rng &r, std::string const &tmp){
        int vmaj = TasmanianSparseGrid::getVersionMajor(), vmin = TasmanianSparseGrid::getVersionMinor();
        std::string fv; // the next minor, a later minor, the next major, a far future version
        switch(r.range(0, 4)){ case 0: fv = std::to_string(vmaj) + "." + std::to_string(vmin + 1); break; case 1: fv = std::to_string(vmaj) + "." + std::to_string(vmin + r.range(2, 6)); break;
                               case 2: fv = std::to_string(vmaj + 1) + ".0"; break; case 3: fv = std::to_string(vmaj) + ".99"; break; default: fv = "99.0"; }
        g.read(write_file(tmp + "/future.tsg", std::string("TASMANIAN SG ") + fv + "\nWARNING: do not edit this manually\nempty\ncanonical\nnonconformal\nunlimited\nstatic\nTASMANIAN SG end\n").c_str()); });
    add("read:ascii-version-before-3", true, st_any, [](TasmanianSparseGrid &g, Rng&, std::string const &tmp){
        g.read(write_file(tmp + "/old.tsg", "TASMANIAN SG 2.0\nWARNING: do not edit this manually\nempty\n").c_str()); });
    add("read:binary-wrong-header", true, st_any, [](TasmanianSparseGrid &g, Rng &r, std::string const&){
        std::string b = r.coin() ? std::string("TSX5g", 5) : std::string("ABCDEFGH", 8);
        std::istringstream is(b, std::ios::binary); g.read(is, mode_binary); });
    add("read:binary-future-version", true, st_any, [](TasmanianSparseGrid &g, Rng &r, std::string const &tmp){
        std::string b = std::string("TSG") + (r.coin() ? "6" : "9") + "e" + "nnnse";
        if (r.coin()){ std::istringstream is(b, std::ios::binary); g.read(is, mode_binary); } else g.read(write_file(tmp + "/future.bin", b).c_str()); });
    add("read:binary-unknown-grid-type", true, st_any, [](TasmanianSparseGrid &g, Rng&, std::string const&){
        std::string b = std::string("TSG5") + "z" + "nnnse"; std::istringstream is(b, std::ios::binary); g.read(is, mode_binary); });
    add("read:binary-damaged-inside-or-after-construction-block", true, st_any, [](TasmanianSparseGrid &g, Rng &r, std::string const&){
        // a file written while dynamic construction is active, with delivered samples; then truncated inside the construction block / before the end marker, or with a wrong end marker
        TasmanianSparseGrid src;
        switch(r.range(0, 3)){
            case 0: src.makeGlobalGrid(2, 1, 2, type_level, rule_clenshawcurtis); break;
            case 1: src.makeSequenceGrid(2, 1, 2, type_level, rule_rleja); break;
            case 2: src.makeLocalPolynomialGrid(2, 1, 2, 1 + r.range(0, 1), rule_localp); break;
            default: src.makeWaveletGrid(2, 1, 1, 1); break;
        }
        src.beginConstruction();
        std::vector<double> cand = (src.isLocalPolynomial() || src.isWavelet()) ? src.getCandidateConstructionPoints(1e-3, refine_classic, 0) : src.getCandidateConstructionPoints(type_level, 0);
        size_t take = std::min<size_t>(cand.size() / 2, 3);
        if (take > 0){ std::vector<double> x(cand.begin(), cand.begin() + (long)(2 * take)), y(take, 0.5); src.loadConstructedPoints(x, y); }
        std::ostringstream os(std::ios::binary); src.write(os, true);
        std::string b = os.str();
        switch(r.range(0, 2)){
            case 0: b.resize(b.size() - 1); break;                                     // end marker missing
            case 1: b[b.size() - 1] = 'x'; break;                                       // wrong end marker
            default: b.resize(b.size() - (size_t) r.range(2, (int) std::min<size_t>(b.size() / 4, 40))); break; // truncated inside the trailing blocks
        }
        std::istringstream is(b, std::ios::binary); g.read(is, mode_binary); });
    add("makeGlobalGrid:gauss-patterson-one-level-beyond-the-table", true, st_any, [](TasmanianSparseGrid &g, Rng &r, std::string const&){
        switch(r.range(0, 2)){
            case 0: g.makeGlobalGrid(1, 1, 9, type_level, rule_gausspatterson); break;
            case 1: g.makeGlobalGrid(2, 0, 9, type_level, rule_gausspatterson, std::vector<int>{1, 3}); break;
            default: g.makeGlobalGrid(1, 1, 9, type_tensor, rule_gausspatterson); break;
        } });
    // ---- update --------------------------------------------------------------------------------------------------------------------------
    add("updateGrid:empty-grid", false, [](TasmanianSparseGrid const &g, Cfg const&){ return st_empty(g); }, [](TasmanianSparseGrid &g, Rng &r, std::string const&){
        switch(r.range(0, 3)){ case 0: g.updateGrid(2, type_level, std::vector<int>()); break; case 1: g.updateGlobalGrid(2, type_level, (const int*) nullptr); break; case 2: g.updateSequenceGrid(2, type_level, (const int*) nullptr); break; default: g.updateFourierGrid(2, type_level, std::vector<int>()); } });
    add("updateGrid:wrong-family", false, [](TasmanianSparseGrid const &g, Cfg const&){ return is_lw(g); }, [](TasmanianSparseGrid &g, Rng &r, std::string const&){ if (r.coin()) g.updateGrid(3, type_level, std::vector<int>()); else g.updateGlobalGrid(3, type_level, std::vector<int>()); });
    add("updateGrid:negative-depth", false, [](TasmanianSparseGrid const &g, Cfg const&){ return is_gsf(g); }, [](TasmanianSparseGrid &g, Rng&, std::string const&){ g.updateGrid(-1, type_level, std::vector<int>()); });
    add("updateGrid:weights-wrong-size", false, [](TasmanianSparseGrid const &g, Cfg const&){ return is_gsf(g); }, [](TasmanianSparseGrid &g, Rng &r, std::string const&){ TypeDepth ty = r.coin() ? type_iptotal : type_ipcurved; int d = g.getNumDimensions(); g.updateGrid(2, ty, wrong_vec(g, r, ty == type_ipcurved ? 2 * d : d)); });
    add("updateGrid:limits-wrong-size", false, [](TasmanianSparseGrid const &g, Cfg const&){ return is_gsf(g); }, [](TasmanianSparseGrid &g, Rng &r, std::string const&){ g.updateGrid(2, type_level, std::vector<int>(), wrong_vec(g, r, g.getNumDimensions())); });
    // ---- vectors of the wrong size for evaluation-type calls ----------------------------------------------------------------------------
    add("getInterpolationWeights:x-wrong-size", false, [](TasmanianSparseGrid const &g, Cfg const&){ return !g.empty() && g.getNumPoints() > 0; }, [](TasmanianSparseGrid &g, Rng &r, std::string const&){
        std::vector<double> x((size_t) g.getNumDimensions() + (r.coin() ? 1 : 2), 0.1); if (r.coin()) (void) g.getInterpolationWeights(x); else{ std::vector<double> w; g.getInterpolationWeights(x, w); } });
    add("getDifferentiationWeights:x-wrong-size", false, [](TasmanianSparseGrid const &g, Cfg const&){ return !g.empty() && g.getNumPoints() > 0 && !g.isSetConformalTransformASIN(); }, [](TasmanianSparseGrid &g, Rng &r, std::string const&){
        std::vector<double> x((size_t) g.getNumDimensions() + 1, 0.1); if (r.coin()) (void) g.getDifferentiationWeights(x); else{ std::vector<double> w; g.getDifferentiationWeights(x, w); } });
    add("evaluate:x-wrong-size", false, [](TasmanianSparseGrid const &g, Cfg const&){ return !g.empty() && g.getNumLoaded() > 0 && g.getNumOutputs() > 0; }, [](TasmanianSparseGrid &g, Rng &r, std::string const&){
        std::vector<double> x((size_t) std::max(0, g.getNumDimensions() + (r.coin() ? 1 : -1)), 0.1), y; g.evaluate(x, y); });
    add("loadNeededValues:wrong-size", false, [](TasmanianSparseGrid const &g, Cfg const&){ return !g.empty() && g.getNumOutputs() > 0 && g.getNumPoints() > 0 && !g.isUsingConstruction(); }, [](TasmanianSparseGrid &g, Rng &r, std::string const&){
        size_t n = (size_t)(g.getNumNeeded() > 0 ? g.getNumNeeded() : g.getNumLoaded()) * (size_t) g.getNumOutputs();
        g.loadNeededValues(std::vector<double>(r.coin() ? n + 1 : (n > 1 ? n - 1 : n + 2), 1.0)); });
    add("setHierarchicalCoefficients:wrong-size", false, [](TasmanianSparseGrid const &g, Cfg const&){ return !g.empty() && g.getNumOutputs() > 0 && g.getNumPoints() > 0 && !g.isUsingConstruction(); }, [](TasmanianSparseGrid &g, Rng &r, std::string const&){
        size_t n = (size_t) g.getNumPoints() * (size_t) g.getNumOutputs() * (g.isFourier() ? 2 : 1); g.setHierarchicalCoefficients(std::vector<double>(r.coin() ? n + 1 : n - 1, 0.5)); });
    // ---- domain transforms -------------------------------------------------------------------------------------------------------------
    add("setDomainTransform:empty-grid", false, [](TasmanianSparseGrid const &g, Cfg const&){ return st_empty(g); }, [](TasmanianSparseGrid &g, Rng&, std::string const&){ g.setDomainTransform(std::vector<double>{0.0}, std::vector<double>{1.0}); });
    add("setDomainTransform:wrong-size", false, nonempty, [](TasmanianSparseGrid &g, Rng &r, std::string const&){
        size_t d = (size_t) g.getNumDimensions(); std::vector<double> a(d, 0.0), b(d, 1.0); if (r.coin()) a.push_back(0.0); else b.resize(d + 2, 1.0); g.setDomainTransform(a, b); });
    add("getDomainTransform:empty-grid", false, [](TasmanianSparseGrid const &g, Cfg const&){ return st_empty(g); }, [](TasmanianSparseGrid &g, Rng&, std::string const&){ double a[4], b[4]; g.getDomainTransform(a, b); });
    add("setConformalTransformASIN:empty-grid", false, [](TasmanianSparseGrid const &g, Cfg const&){ return st_empty(g); }, [](TasmanianSparseGrid &g, Rng&, std::string const&){ g.setConformalTransformASIN(std::vector<int>{4}); });
    // ---- anisotropic refinement / coefficients -----------------------------------------------------------------------------------------
    auto can_aniso = [](TasmanianSparseGrid const &g){ return !g.empty() && !g.isUsingConstruction() && g.getNumOutputs() > 0 && g.getNumLoaded() > 0 && (g.isSequence() || g.isFourier() || (g.isGlobal() && !OneDimensionalMeta::isNonNested(g.getRule()))); };
    add("setAnisotropicRefinement:during-construction", false, [](TasmanianSparseGrid const &g, Cfg const&){ return !g.empty() && g.isUsingConstruction(); }, [](TasmanianSparseGrid &g, Rng &r, std::string const&){ if (r.coin()) g.setAnisotropicRefinement(type_iptotal, 2, 0, std::vector<int>()); else g.setAnisotropicRefinement(type_iptotal, 2, 0, (const int*) nullptr); });
    add("setAnisotropicRefinement:empty-grid", false, [](TasmanianSparseGrid const &g, Cfg const&){ return st_empty(g); }, [](TasmanianSparseGrid &g, Rng &r, std::string const&){ if (r.coin()) g.setAnisotropicRefinement(type_iptotal, 2, 0, std::vector<int>()); else g.setAnisotropicRefinement(type_iptotal, 2, 0, (const int*) nullptr); });
    add("setAnisotropicRefinement:no-outputs", false, [](TasmanianSparseGrid const &g, Cfg const&){ return !g.empty() && !g.isUsingConstruction() && g.getNumOutputs() == 0; }, [](TasmanianSparseGrid &g, Rng&, std::string const&){ g.setAnisotropicRefinement(type_iptotal, 2, 0, std::vector<int>()); });
    add("setAnisotropicRefinement:no-loaded-values", false, [](TasmanianSparseGrid const &g, Cfg const&){ return !g.empty() && !g.isUsingConstruction() && g.getNumOutputs() > 0 && g.getNumLoaded() == 0; }, [](TasmanianSparseGrid &g, Rng&, std::string const&){ g.setAnisotropicRefinement(type_iptotal, 2, 0, std::vector<int>()); });
    add("setAnisotropicRefinement:min_growth<1", false, [=](TasmanianSparseGrid const &g, Cfg const&){ return can_aniso(g); }, [](TasmanianSparseGrid &g, Rng &r, std::string const&){ g.setAnisotropicRefinement(type_iptotal, r.coin() ? 0 : -5, 0, std::vector<int>()); });
    add("setAnisotropicRefinement:output-out-of-range", false, [=](TasmanianSparseGrid const &g, Cfg const&){ return can_aniso(g); }, [](TasmanianSparseGrid &g, Rng &r, std::string const&){ g.setAnisotropicRefinement(type_iptotal, 2, r.coin() ? -2 : g.getNumOutputs() + r.range(0, 2), std::vector<int>()); });
    add("setAnisotropicRefinement:global-grid-needs-specific-output", false, [=](TasmanianSparseGrid const &g, Cfg const&){ return can_aniso(g) && g.isGlobal(); }, [](TasmanianSparseGrid &g, Rng &r, std::string const&){ if (r.coin()) g.setAnisotropicRefinement(type_iptotal, 2, -1, std::vector<int>()); else (void) g.estimateAnisotropicCoefficients(type_iptotal, -1); });
    add("setAnisotropicRefinement:limits-wrong-size", false, [=](TasmanianSparseGrid const &g, Cfg const&){ return can_aniso(g); }, [](TasmanianSparseGrid &g, Rng &r, std::string const&){ g.setAnisotropicRefinement(type_iptotal, 2, 0, wrong_vec(g, r, g.getNumDimensions())); });
    add("setAnisotropicRefinement:wrong-family", false, [](TasmanianSparseGrid const &g, Cfg const&){ return !g.empty() && !g.isUsingConstruction() && g.getNumOutputs() > 0 && g.getNumLoaded() > 0 && (is_lw(g) || (g.isGlobal() && OneDimensionalMeta::isNonNested(g.getRule()))); },
        [](TasmanianSparseGrid &g, Rng &r, std::string const&){ if (r.coin()) g.setAnisotropicRefinement(type_iptotal, 2, 0, std::vector<int>()); else (void) g.estimateAnisotropicCoefficients(type_iptotal, 0); });
    add("estimateAnisotropicCoefficients:no-values-or-outputs-or-empty", false, [](TasmanianSparseGrid const &g, Cfg const&){ return g.empty() || g.getNumOutputs() == 0 || g.getNumLoaded() == 0; }, [](TasmanianSparseGrid &g, Rng&, std::string const&){ (void) g.estimateAnisotropicCoefficients(type_iptotal, 0); });
    add("estimateAnisotropicCoefficients:output-out-of-range", false, [=](TasmanianSparseGrid const &g, Cfg const&){ return can_aniso(g); }, [](TasmanianSparseGrid &g, Rng &r, std::string const&){ (void) g.estimateAnisotropicCoefficients(type_iptotal, r.coin() ? -2 : g.getNumOutputs()); });
    // ---- surplus refinement --------------------------------------------------------------------------------------------------------------
    auto has_vals = [](TasmanianSparseGrid const &g){ return !g.empty() && !g.isUsingConstruction() && g.getNumOutputs() > 0 && g.getNumLoaded() > 0; };
    auto seq_like = [](TasmanianSparseGrid const &g){ return g.isSequence() || (g.isGlobal() && OneDimensionalMeta::isSequence(g.getRule())); };
    add("setSurplusRefinement:during-construction", false, [](TasmanianSparseGrid const &g, Cfg const&){ return !g.empty() && g.isUsingConstruction(); }, [](TasmanianSparseGrid &g, Rng &r, std::string const&){
        switch(r.range(0, 2)){ case 0: g.setSurplusRefinement(0.01, 0, std::vector<int>()); break; case 1: g.setSurplusRefinement(0.01, refine_classic, 0, std::vector<int>()); break; default: g.setSurplusRefinement(0.01, refine_classic, 0, (const int*) nullptr); } });
    add("setSurplusRefinement:empty-grid", false, [](TasmanianSparseGrid const &g, Cfg const&){ return st_empty(g); }, [](TasmanianSparseGrid &g, Rng &r, std::string const&){
        switch(r.range(0, 3)){ case 0: g.setSurplusRefinement(0.01, 0, std::vector<int>()); break; case 1: g.setSurplusRefinement(0.01, 0, (const int*) nullptr); break; case 2: g.setSurplusRefinement(0.01, refine_classic, 0, std::vector<int>()); break; default: g.setSurplusRefinement(0.01, refine_classic, 0, (const int*) nullptr); } });
    add("setSurplusRefinement:no-outputs-or-values", false, [](TasmanianSparseGrid const &g, Cfg const&){ return !g.empty() && !g.isUsingConstruction() && (g.getNumOutputs() == 0 || g.getNumLoaded() == 0); }, [](TasmanianSparseGrid &g, Rng &r, std::string const&){
        if (r.coin()) g.setSurplusRefinement(0.01, 0, std::vector<int>()); else g.setSurplusRefinement(0.01, refine_classic, 0, std::vector<int>()); });
    add("setSurplusRefinement:output-out-of-range", false, [=](TasmanianSparseGrid const &g, Cfg const&){ return has_vals(g) && (seq_like(g) || is_lw(g)); }, [](TasmanianSparseGrid &g, Rng &r, std::string const&){
        int o = r.coin() ? -2 : g.getNumOutputs() + r.range(0, 1);
        if (is_lw(g)){ if (r.coin()) g.setSurplusRefinement(0.01, refine_classic, o, std::vector<int>()); else g.setSurplusRefinement(0.01, refine_classic, o, (const int*) nullptr); } else g.setSurplusRefinement(0.01, o, std::vector<int>()); });
    add("setSurplusRefinement:negative-tolerance", false, [=](TasmanianSparseGrid const &g, Cfg const&){ return has_vals(g) && (seq_like(g) || is_lw(g)); }, [](TasmanianSparseGrid &g, Rng&, std::string const&){
        if (is_lw(g)) g.setSurplusRefinement(-0.5, refine_classic, 0, std::vector<int>()); else g.setSurplusRefinement(-1e-3, 0, std::vector<int>()); });
    add("setSurplusRefinement:limits-wrong-size", false, [=](TasmanianSparseGrid const &g, Cfg const&){ return has_vals(g) && (seq_like(g) || is_lw(g)); }, [](TasmanianSparseGrid &g, Rng &r, std::string const&){
        if (is_lw(g)) g.setSurplusRefinement(0.01, refine_classic, 0, wrong_vec(g, r, g.getNumDimensions())); else g.setSurplusRefinement(0.01, 0, wrong_vec(g, r, g.getNumDimensions())); });
    add("setSurplusRefinement:scale-correction-wrong-size", false, [=](TasmanianSparseGrid const &g, Cfg const&){ return has_vals(g) && g.isLocalPolynomial(); }, [](TasmanianSparseGrid &g, Rng &r, std::string const&){
        int o = r.coin() ? -1 : 0; size_t n = (size_t) g.getNumLoaded() * (size_t)((o == -1) ? g.getNumOutputs() : 1);
        g.setSurplusRefinement(0.01, refine_classic, o, std::vector<int>(), std::vector<double>(r.coin() ? n + 1 : n + (size_t) g.getNumLoaded() + 3, 1.0)); });
    add("setSurplusRefinement:wrong-family-simple-form", false, [=](TasmanianSparseGrid const &g, Cfg const&){ return has_vals(g) && !seq_like(g); }, [](TasmanianSparseGrid &g, Rng&, std::string const&){ g.setSurplusRefinement(0.01, 0, std::vector<int>()); });
    add("setSurplusRefinement:fourier-with-criteria", false, [=](TasmanianSparseGrid const &g, Cfg const&){ return has_vals(g) && g.isFourier(); }, [](TasmanianSparseGrid &g, Rng &r, std::string const&){ if (r.coin()) g.setSurplusRefinement(0.01, refine_classic, 0, std::vector<int>()); else g.setSurplusRefinement(0.01, refine_fds, 0, (const int*) nullptr); });
    // ---- dynamic construction ------------------------------------------------------------------------------------------------------------
    add("beginConstruction:empty-grid", false, [](TasmanianSparseGrid const &g, Cfg const&){ return st_empty(g); }, [](TasmanianSparseGrid &g, Rng&, std::string const&){ g.beginConstruction(); });
    add("getCandidateConstructionPoints:before-beginConstruction", false, [](TasmanianSparseGrid const &g, Cfg const&){ return !g.empty() && !g.isUsingConstruction(); }, [](TasmanianSparseGrid &g, Rng &r, std::string const&){
        int d = g.getNumDimensions();
        switch(r.range(0, 2)){ case 0: (void) g.getCandidateConstructionPoints(type_level, std::vector<int>((size_t) d, 1)); break; case 1: (void) g.getCandidateConstructionPoints(type_level, 0); break; default: (void) g.getCandidateConstructionPoints(0.01, refine_classic, 0); } });
    add("getCandidateConstructionPoints:wrong-family", false, [](TasmanianSparseGrid const &g, Cfg const&){ return !g.empty() && g.isUsingConstruction(); }, [](TasmanianSparseGrid &g, Rng &r, std::string const&){
        int d = g.getNumDimensions();
        if (is_lw(g)){ if (r.coin()) (void) g.getCandidateConstructionPoints(type_level, std::vector<int>((size_t) d, 1)); else (void) g.getCandidateConstructionPoints(type_level, 0); }
        else (void) g.getCandidateConstructionPoints(0.01, refine_classic, 0); });
    add("getCandidateConstructionPoints:weights-wrong-size", false, [](TasmanianSparseGrid const &g, Cfg const&){ return !g.empty() && g.isUsingConstruction() && is_gsf(g); }, [](TasmanianSparseGrid &g, Rng &r, std::string const&){
        TypeDepth ty = r.coin() ? type_level : type_curved; int d = g.getNumDimensions(); (void) g.getCandidateConstructionPoints(ty, wrong_vec(g, r, ty == type_curved ? 2 * d : d)); });
    add("getCandidateConstructionPoints:limits-wrong-size", false, [](TasmanianSparseGrid const &g, Cfg const&){ return !g.empty() && g.isUsingConstruction() && g.getNumOutputs() > 0; }, [](TasmanianSparseGrid &g, Rng &r, std::string const&){
        int d = g.getNumDimensions();
        if (is_lw(g)) (void) g.getCandidateConstructionPoints(0.01, refine_classic, 0, wrong_vec(g, r, d));
        else if (r.coin()) (void) g.getCandidateConstructionPoints(type_level, std::vector<int>((size_t) d, 1), wrong_vec(g, r, d)); else (void) g.getCandidateConstructionPoints(type_level, 0, wrong_vec(g, r, d)); });
    add("getCandidateConstructionPoints:output-out-of-range", false, [](TasmanianSparseGrid const &g, Cfg const&){ return !g.empty() && g.isUsingConstruction() && g.getNumOutputs() > 0; }, [](TasmanianSparseGrid &g, Rng &r, std::string const&){
        int o = r.coin() ? -2 : g.getNumOutputs();
        if (is_lw(g)) (void) g.getCandidateConstructionPoints(0.01, refine_classic, o); else (void) g.getCandidateConstructionPoints(type_level, o); });
    add("loadConstructedPoints:before-beginConstruction", false, [](TasmanianSparseGrid const &g, Cfg const&){ return !g.empty() && !g.isUsingConstruction() && g.getNumOutputs() > 0 && g.getNumPoints() > 0; }, [](TasmanianSparseGrid &g, Rng &r, std::string const&){
        std::vector<double> x = g.getPoints(); x.resize((size_t) g.getNumDimensions()); std::vector<double> y((size_t) g.getNumOutputs(), 1.0);
        if (r.coin()) g.loadConstructedPoints(x, y); else g.loadConstructedPoints(x.data(), 1, y.data()); });
    add("loadConstructedPoints:y-too-short", false, [](TasmanianSparseGrid const &g, Cfg const&){ return !g.empty() && g.isUsingConstruction() && g.getNumOutputs() > 0; }, [](TasmanianSparseGrid &g, Rng&, std::string const&){
        std::vector<double> c = (is_lw(g)) ? g.getCandidateConstructionPoints(0.0, refine_classic, -1) : g.getCandidateConstructionPoints(type_level, std::vector<int>((size_t) g.getNumDimensions(), 1));
        if (c.size() < 2 * (size_t) g.getNumDimensions()){ throw std::runtime_error("verif-not-applicable"); }
        c.resize(2 * (size_t) g.getNumDimensions());
        g.loadConstructedPoints(c, std::vector<double>((size_t) g.getNumOutputs(), 1.0)); }); // two points, values for one
    // ---- type restricted getters ---------------------------------------------------------------------------------------------------------
    add("getGlobalPolynomialSpace:wrong-family", false, [](TasmanianSparseGrid const &g, Cfg const&){ return g.empty() || is_lw(g) || g.isFourier(); }, [](TasmanianSparseGrid &g, Rng &r, std::string const&){ (void) g.getGlobalPolynomialSpace(r.coin()); });
    add("removePointsByHierarchicalCoefficient:wrong-family", false, [](TasmanianSparseGrid const &g, Cfg const&){ return !g.isLocalPolynomial(); }, [](TasmanianSparseGrid &g, Rng &r, std::string const&){ if (r.coin()) g.removePointsByHierarchicalCoefficient(0.1, -1); else g.removePointsByHierarchicalCoefficient(5, -1); });
    add("getConformalTransformASIN:not-set", false, [](TasmanianSparseGrid const &g, Cfg const&){ return g.empty() || !g.isSetConformalTransformASIN(); }, [](TasmanianSparseGrid &g, Rng&, std::string const&){ (void) g.getConformalTransformASIN(); });
    add("write:unwritable-path", false, st_any, [](TasmanianSparseGrid &g, Rng &r, std::string const &tmp){ g.write((tmp + "/no_such_dir/x.tsg").c_str(), r.coin()); });
    return t;
}

void mon_c14(CaseCtx &c, Rng &rng){
    auto const &tab = table();
    // the whole table is enumerated: the case index selects the misuse, the rng selects the state and the argument variant
    size_t mi = (size_t)(c.index % (long long) tab.size());
    Misuse const &mu = tab[mi];
    GenOpts go; go.min_outs = 0; go.max_points = 120; go.max_dims = 3; go.custom = true;
    const char *tmpc = getenv("VF_TMPDIR"); std::string tmp = std::string(tmpc ? tmpc : "/var/tmp") + "/vf_c14_" + std::to_string((long long) getpid());
    mkdir(tmp.c_str(), 0700);
    // find an applicable state (empty grid, or a random reachable state)
    HState h; bool found = false; std::string state_desc;
    for(int attempt=0; attempt<12 && !found; attempt++){
        HState cand;
        bool want_empty = (attempt < 4) && rng.coin(0.4);
        if (!want_empty){
            CaseCtx scratch; scratch.index = c.index;
            Rng r2 = rng.fork();
            std::string tag;
            // suppress B/V output of the scratch context: random_state only reports through the CaseCtx we pass
            if (!init_history(cand, r2, go, scratch)) continue;
            HOpts ho; ho.max_points = go.max_points;
            int ns = r2.range(0, 4);
            bool bad = false;
            for(int i=0; i<ns; i++){ Step s = choose_step(cand, r2, ho); if (s.kind == Step::none) break; if (s.kind == Step::finish_c && r2.coin(0.6)) continue; if (!apply_step(cand.g, s, &cand).empty()){ bad = true; break; } }
            if (bad) continue;
        }
        if (mu.applies(cand.g, cand.cfg)){
            found = true;
            std::string tr; for(auto const &t : cand.trace) tr += t + ",";
            state_desc = cand.g.empty() ? std::string("{\"state\":\"empty\"}") : J().kv("cfg", cand.cfg.json()).str("history", tr).obj();
            h.g = cand.g; h.cfg = cand.cfg; h.shadow = cand.shadow; h.delivered = cand.delivered; h.expected_limits = cand.expected_limits; h.gen = cand.gen; h.vmode = cand.vmode; h.trace = cand.trace;
        }
    }
    emit_begin(c, J().str("misuse", mu.name).kv("state", found ? state_desc : std::string("null")).obj());
    if (!found){ c.inconc("no-applicable-state-found"); rmdir(tmp.c_str()); return; }
    TasmanianSparseGrid &g = h.g;
    std::string cls = g.empty() ? "empty" : std::string(fam_name(h.cfg.family)) + (g.isUsingConstruction() ? "+construction" : (g.getNumNeeded() > 0 && g.getNumLoaded() > 0) ? "+pending" : (g.getNumLoaded() == 0 ? "+fresh" : "+loaded")) + (g.getNumOutputs() == 0 ? "+0out" : "");
    ObsOpts oo; oo.num_probes = 4;
    Obs before = observe(g, oo);
    std::string outcome = "no-exception";
    std::string what;
    try{ mu.call(g, rng, tmp); }
    catch(std::invalid_argument &e){ outcome = "invalid_argument"; what = e.what(); }
    catch(std::runtime_error &e){ outcome = (typeid(e) == typeid(std::runtime_error)) ? "runtime_error" : std::string("other:") + typeid(e).name(); what = e.what(); }
    catch(std::exception &e){ outcome = std::string("other:") + exception_class(e); what = e.what(); }
    // clean the scratch files
    for(const char *f : {"/bad.table", "/bad_header.tsg", "/bad_type.tsg", "/future.tsg", "/old.tsg", "/future.bin"}) std::remove((tmp + f).c_str());
    rmdir(tmp.c_str());
    if (what == "verif-not-applicable"){ c.inconc("state-has-too-few-candidates"); return; }
    if (outcome == "no-exception"){ c.viol("misuse-not-reported:" + mu.name, J().str("state", cls).obj()); return; }
    if (outcome != "invalid_argument" && outcome != "runtime_error"){ c.viol("misuse-wrong-exception-type:" + mu.name + ":" + outcome, J().str("state", cls).str("what", what).obj()); return; }
    c.count(outcome);
    // the object is either untouched or (make / read only) empty
    Obs after = observe(g, oo);
    std::string df = obs_diff_state(before, after);
    if (!df.empty()){
        bool ok_empty = mu.maker && g.empty();
        if (!ok_empty){ c.viol("misuse-changed-the-grid:" + mu.name + ":" + df, J().str("state", cls).str("field", df).str("what", what).obj()); return; }
        c.count("left-empty-after-failed-make-or-read");
    }
    // and it is fully usable afterwards (ASan/UBSan watch): continuation + round trip
    if (!g.empty()){
        HOpts ho; ho.max_points = go.max_points;
        for(int i=0; i<3; i++){
            Step s = choose_step(h, rng, ho);
            if (s.kind == Step::none) break;
            std::string er = apply_step(h.g, s, &h);
            if (!er.empty()){ c.viol("misuse-left-grid-unusable:" + mu.name + ":" + s.name(), J().str("state", cls).str("what", er).obj()); return; }
        }
        if (!check_shadow(h, c, "after-misuse:shadow", mu.name)) return;
        try{ std::ostringstream os(std::ios::binary); h.g.write(os, true); std::istringstream is(os.str(), std::ios::binary); TasmanianSparseGrid r; r.read(is, true); (void) observe(r, oo); }
        catch(std::exception &e){ c.viol("misuse-left-grid-unusable:" + mu.name + ":write-read", J().str("what", e.what()).obj()); return; }
    }else{
        // an object emptied by a failed make / read is a fully usable EMPTY object: no construction in progress, writable, copyable
        try{
            if (g.isUsingConstruction()){ c.viol("misuse-left-grid-unusable:" + mu.name + ":empty-object-reports-active-construction", J().str("state", cls).obj()); return; }
            { std::ostringstream os(std::ios::binary); g.write(os, true); std::ostringstream oa; g.write(oa, false); }
            g.finishConstruction();
            TasmanianSparseGrid cp(g); if (!cp.empty()){ c.viol("misuse-left-grid-unusable:" + mu.name + ":copy-of-empty-object-not-empty", J().obj()); return; }
        }catch(std::exception &e){ c.viol("misuse-left-grid-unusable:" + mu.name + ":empty-object", J().str("what", e.what()).obj()); return; }
        try{ g.makeLocalPolynomialGrid(2, 1, 2); (void) observe(g, oo); }catch(std::exception &e){ c.viol("misuse-left-grid-unusable:" + mu.name + ":make-after", J().str("what", e.what()).obj()); return; }
    }
    c.count("exercised:" + mu.name);
    c.sig(mu.name + "|" + cls);
}

} // namespace vf
