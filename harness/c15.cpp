// C15 - DREAM sampling: memory safety, samples stay in the domain, consistent books, single Metropolis transitions,
//       split runs equal the combined run.
//
// Oracle (DESIGN.md section 4 / C15): the harness supplies pdf / inside / independent_update / differential_update / get_random01 as logging
// closures over ONE event log.  After every SampleDREAM call the log is replayed through a small reference model of one DREAM iteration that is
// written from the doxygen text of SampleDREAM / getIJKdelta and from the property statement:
//     for every chain i:  j,k <- two uniform draws mapped to chain indexes (always inside [0, chains) ), w <- differential_update(),
//                         proposal = s_i + w (s_k - s_j), proposal <- independent_update(proposal), in_i = inside(proposal)
//     pdf is called once, with exactly the in-domain proposals (not at all when there is none)
//     for every chain i:  accept_i = in_i and (p_new > p_cur  or  p_new / p_cur >= u   [regular form]   /  p_new - p_cur >= log u  [log form])
//                         where u is drawn only when p_new > p_cur is false;  s_i, p_i <- proposal, p_new when accepted, unchanged otherwise
//     iterations >= num_burnup are appended to the history together with the cached pdf values and the number of accepted proposals.
// The model is driven by the logged draws and compared (bitwise) with what the library recorded.  The random streams contain the endpoint values
// exactly 0.0 and exactly 1.0 at every class of draw position (j, k, update, differential, accept).
#include "monitors.hpp"
#include "TasmanianDREAM.hpp"
#include <memory>

// the C interface used by the Python bindings (DREAM/tsgDreamSampleWrapC.cpp); not declared in any header
extern "C" void tsgDreamSample(int form, int num_burnup, int num_collect,
                               void (*distribution)(int, int, const double[], double[], int*), void *state_pntr,
                               void *domain_grid, double domain_lower[], double domain_upper[], int (*domain_callback)(int, const double[]),
                               const char *iupdate_type, double iupdate_magnitude, void (*iupdate_callback)(int, double[], int*),
                               int dupdate_percent, double (*dupdate_callback)(),
                               const char *random_type, int random_seed, double (*random_callback)(), int *err);

namespace vf{
namespace {

using TasDREAM::TasmanianDREAM;

// ------------------------------------------------------------------------------------------------
// event log
// ------------------------------------------------------------------------------------------------
struct Ev{
    enum K{ RNG, DIFF, UPD, INSIDE, PDF } k = RNG;
    int ctx = 0;                  // RNG: 0 = drawn by the library, 1 = inside the user's differential_update, 2 = inside the user's independent_update
    double v = 0.0;               // RNG: the draw, DIFF: the returned weight
    bool b = false;               // INSIDE: the answer
    size_t n = 0;                 // PDF: values.size() on entry
    std::vector<double> x, y;     // UPD: before / after, INSIDE: the argument, PDF: candidates / returned values
};
struct Log{ std::vector<Ev> ev; int ctx = 0; };
static const char* evname(Ev::K k){ static const char *n[] = {"rng", "diff", "update", "inside", "pdf"}; return n[(int) k]; }

// ------------------------------------------------------------------------------------------------
// random streams with values in the closed interval [0,1]
// ------------------------------------------------------------------------------------------------
struct Stream{
    enum Kind{ ordinary = 0, zeros = 1, ones = 2, forced = 3, sprinkled = 4, lattice = 5 };
    int kind = ordinary;
    uint64_t seed = 1;
    Rng r;
    long pos = 0, force_pos = -1;
    double force_val = 0.0;
    int denom = 4;
    void reset(){ r = Rng(seed); pos = 0; }
    double next(){
        long p = pos++;
        double u = r.uni();       // the base stream always advances: a forced stream differs from the ordinary one in exactly one position
        uint64_t sel = r.next();
        switch(kind){
            case zeros: return 0.0;
            case ones: return 1.0;
            case forced: return (p == force_pos) ? force_val : u;
            case sprinkled:
                switch(sel % 20){
                    case 0: return 0.0;
                    case 1: return 1.0;
                    case 2: return std::nextafter(1.0, 0.0);
                    case 3: return std::numeric_limits<double>::denorm_min();
                    default: return u;
                }
            case lattice: return (double)(sel % (uint64_t)(denom + 1)) / (double) denom; // m / denom, m = 0..denom
            default: return u;
        }
    }
    static const char* name(int k){ static const char *n[] = {"ordinary", "zeros", "ones", "forced", "sprinkled", "lattice"}; return n[k]; }
};

// ------------------------------------------------------------------------------------------------
// the sampling problem of one case: domain test, probability function, update rules (all pure functions of their input and of the draws)
// ------------------------------------------------------------------------------------------------
static double hash01(const double *x, int d, uint64_t seed){
    uint64_t s = seed;
    for(int i=0; i<d; i++){ s ^= dbits(x[i]); splitmix(s); }
    return (double)(splitmix(s) >> 11) * (1.0 / 9007199254740992.0);
}

struct Problem{
    int N = 1, d = 1;
    bool logf = false;
    int api = 0;                  // 0 = C++ template, 1 = C interface tsgDreamSample()
    // independent update: 0 built-in uniform, 1 built-in gaussian, 2 built-in none (overload with dist_none), 3 TasDREAM::no_update, 4 user
    int upd = 3; double mag = 0.0; int uupd = 0;
    // differential update: 0 TasDREAM::const_one, 1 TasDREAM::const_percent<pct>, 2 user constant w, 3 user draw from get_random01, 4 user draw from a private stream, 5 user 2u-0.5
    int diff = 0; int pct = 100; double w = 1.0;
    // domain: 0 TasDREAM::hypercube, 1 ball, 2 everything, 3 islands (holes), 4 only the initial points, 5 grid.getDomainInside(), 6 half space
    int dom = 0; int gdom = 0;
    std::vector<double> lo, hi, cen; double rad = 1.0, cell = 1.0;
    std::vector<double> init;
    // pdf: 0 gaussian, 1 bimodal with a zero region, 2 hashed magnitudes with zeros, 3 five discrete levels, 4 constant, 5 extreme magnitudes,
    //      6 posterior(user model, user likelihood, prior), 7 posterior(user model, library Gaussian likelihood, prior), 8 posterior(merged, prior),
    //      9 a sparse grid surrogate passed as the probability distribution
    int pdf = 0; int prior = 0; int aniso = 0;
    std::vector<double> c1, c2; double s2 = 1.0, cut = 0.0; uint64_t hseed = 7;
    int mout = 1; std::vector<double> A, data, varv; double var = 1.0; int nobs = 1;
    bool diff_logged = true;

    TasDREAM::DreamDomain lib_domain;
    TasmanianSparseGrid grid, pgrid;
    std::shared_ptr<TasDREAM::TasmanianLikelihood> lik;
    TasDREAM::DreamPDF composite;

    // ---- domain ----
    bool inside_pure(std::vector<double> const &x) const{
        switch(dom){
            case 0: case 5: return lib_domain(x);
            case 1: { double q = 0.0; for(int t=0; t<d; t++) q += (x[(size_t) t] - cen[(size_t) t]) * (x[(size_t) t] - cen[(size_t) t]); return (q <= rad * rad); }
            case 2: return true;
            case 3: for(int t=0; t<d; t++){ double q = x[(size_t) t] / cell; double f = q - std::floor(q); if (!(f < 0.6)) return false; } return true;
            case 4: for(int i=0; i<N; i++){ bool eq = true; for(int t=0; t<d; t++) if (!(x[(size_t) t] == init[(size_t)(i * d + t)])) eq = false; if (eq) return true; } return false;
            default: return (x[0] >= lo[0]);
        }
    }
    // ---- pdf ----
    double sq(const double *x, std::vector<double> const &cc) const{ double q = 0.0; for(int t=0; t<d; t++) q += (x[t] - cc[(size_t) t]) * (x[t] - cc[(size_t) t]); return q; }
    void model_pure(const double *x, double *y) const{
        for(int k=0; k<mout; k++){ double s = 0.3 * std::sin(x[0] + k); for(int t=0; t<d; t++) s += A[(size_t)(k * d + t)] * x[t]; y[k] = s; }
    }
    double user_like(const double *y) const{
        double q = 0.0; for(int k=0; k<mout; k++) q += (y[k] - data[(size_t) k]) * (y[k] - data[(size_t) k]);
        return logf ? (-0.5 * q / var) : std::exp(-0.5 * q / var);
    }
    double user_prior(const double *x) const{
        double q = 0.0; for(int t=0; t<d; t++) q += x[t] * x[t];
        return logf ? (-std::log1p(q)) : (1.0 / (1.0 + q));
    }
    double simple_pure(const double *x, int kind) const{
        switch(kind){
            case 0: { double l = -0.5 * sq(x, c1) / s2; return logf ? l : std::exp(l); }
            case 1: { double r = (x[0] > cut) ? (std::exp(-sq(x, c1) / s2) + 0.5 * std::exp(-sq(x, c2) / s2)) : 0.0; return logf ? std::log(r) : r; }
            case 2: { double h = hash01(x, d, hseed); double r = (h < 0.15) ? 0.0 : std::pow(10.0, 4.0 * h - 2.0); return logf ? std::log(r) : r; }
            case 3: { static const double lev[5] = {0.0, 0.25, 0.5, 1.0, 2.0}; double r = lev[(int)(hash01(x, d, hseed) * 5.0) % 5]; return logf ? std::log(r) : r; }
            case 4: return logf ? 0.0 : 1.0;
            default: { double h = hash01(x, d, hseed); return logf ? (1400.0 * h - 700.0) : std::pow(10.0, 640.0 * h - 323.0); }
        }
    }
    double pdf_pure(const double *x) const{
        if (pdf <= 5) return simple_pure(x, pdf);
        if (pdf == 9){ // identity oracle: the surrogate evaluated at the one sample
            std::vector<double> vx(x, x + d), vy;
            pgrid.evaluateBatch(vx, vy);
            return vy[0];
        }
        double l;
        if (pdf == 8){
            l = simple_pure(x, 0);
        }else{
            std::vector<double> y((size_t) mout);
            model_pure(x, y.data());
            if (pdf == 6){
                l = user_like(y.data());
            }else{
                std::vector<double> out(1);
                lik->getLikelihood(logf ? TasDREAM::logform : TasDREAM::regform, y, out); // identity oracle: one sample at a time vs the batched call
                l = out[0];
            }
        }
        if (prior == 0) return l; // TasDREAM::uniform_prior
        return logf ? (l + user_prior(x)) : (l * user_prior(x));
    }
    void pdf_batch(std::vector<double> const &x, std::vector<double> &y) const{
        if (pdf <= 5){
            size_t n = std::min(y.size(), x.size() / (size_t) d);
            for(size_t i=0; i<n; i++) y[i] = pdf_pure(&x[i * (size_t) d]);
        }else{
            composite(x, y); // the library's posterior() composition of the harness' model / likelihood / prior
        }
    }
    template<TasDREAM::TypeSamplingForm form> void make_composite(){
        auto model = [this](std::vector<double> const &x, std::vector<double> &y)->void{
            size_t n = x.size() / (size_t) d; y.resize(n * (size_t) mout);
            for(size_t i=0; i<n; i++) model_pure(&x[i * (size_t) d], &y[i * (size_t) mout]);
        };
        auto like = [this](TasDREAM::TypeSamplingForm, std::vector<double> const &y, std::vector<double> &l)->void{
            for(size_t i=0; i<l.size(); i++) l[i] = user_like(&y[i * (size_t) mout]);
        };
        auto merged = [this](std::vector<double> const &x, std::vector<double> &l)->void{
            for(size_t i=0; i<l.size(); i++) l[i] = simple_pure(&x[i * (size_t) d], 0);
        };
        if (pdf == 9){ composite = static_cast<TasmanianSparseGrid::EvaluateCallable>(pgrid); return; }
        TasDREAM::DreamPrior pr;
        if (prior == 0) pr = TasDREAM::uniform_prior;
        else pr = [this](TasDREAM::TypeSamplingForm, std::vector<double> const &x, std::vector<double> &v)->void{
            for(size_t i=0; i<v.size(); i++) v[i] = user_prior(&x[i * (size_t) d]);
        };
        if (pdf == 6) composite = TasDREAM::posterior<form>(model, like, pr);
        else if (pdf == 7) composite = TasDREAM::posterior<form>(model, *lik, pr);
        else composite = TasDREAM::posterior<form>(merged, pr);
    }

    std::string json(Stream const &S, int burn, std::vector<int> const &segs, bool preset, int pre_burn) const{
        static const char *un[] = {"builtin-uniform", "builtin-gaussian", "builtin-none", "no_update", "user"};
        static const char *dn[] = {"const_one", "const_percent", "user-const", "user-rng", "user-private", "user-wide"};
        static const char *on[] = {"hypercube", "ball", "everything", "islands", "initial-points-only", "grid", "halfspace"};
        static const char *pn[] = {"gaussian", "bimodal-zero-region", "hashed", "discrete-levels", "constant", "extreme", "posterior-user", "posterior-lib-likelihood", "posterior-merged", "sparse-grid"};
        J j;
        j.i("chains", N).i("dims", d).str("form", logf ? "log" : "reg").str("api", api ? "c-interface" : "template");
        j.str("update", un[upd]).num("magnitude", mag); if (upd == 4) j.i("user_update", uupd);
        j.str("differential", dn[diff]); if (diff == 1 || (api == 1 && diff == 0)) j.i("percent", pct); if (diff == 2) j.num("w", w);
        j.str("domain", on[dom]); if (dom == 5) j.i("grid_domain", gdom);
        j.str("pdf", pn[pdf]); if (pdf >= 6 && pdf <= 8){ j.i("prior", prior).i("model_outputs", mout); } if (pdf == 7) j.i("aniso", aniso);
        j.str("stream", Stream::name(S.kind)); if (S.kind == Stream::forced){ j.i("force_pos", S.force_pos).num("force_val", S.force_val); } if (S.kind == Stream::lattice) j.i("denom", S.denom);
        if (pre_burn) j.i("burnup_only_first_run", pre_burn);
        j.i("burnup", burn).vec("collect", segs).b("preset_pdf", preset).vec("init", init, 48);
        return j.obj();
    }
    std::string sig() const{
        return "N" + std::to_string(N) + "d" + std::to_string(d) + (logf ? "L" : "R") + (api ? "c" : "t") + "u" + std::to_string(upd) + "w" + std::to_string(diff)
             + "o" + std::to_string(dom) + "p" + std::to_string(pdf);
    }
};

// ------------------------------------------------------------------------------------------------
// running the library with the logging closures
// ------------------------------------------------------------------------------------------------
struct Closures{
    std::function<double(void)> rnd, dif;
    std::function<void(std::vector<double>&)> upd;
    std::function<bool(std::vector<double> const&)> ins;
    std::function<void(std::vector<double> const&, std::vector<double>&)> pdf;
};
static Closures *g_cl = nullptr; // the C interface takes plain function pointers
static void c_pdf(int n, int d, const double x[], double y[], int *err){
    std::vector<double> vx(x, x + (size_t) n * (size_t) d), vy((size_t) n);
    g_cl->pdf(vx, vy); std::copy(vy.begin(), vy.end(), y); *err = 0;
}
static int c_dom(int d, const double x[]){ std::vector<double> vx(x, x + d); return g_cl->ins(vx) ? 1 : 0; }
static void c_upd(int d, double x[], int *err){ std::vector<double> vx(x, x + d); g_cl->upd(vx); std::copy(vx.begin(), vx.end(), x); *err = 0; }
static double c_dif(){ return g_cl->dif(); }
static double c_rnd(){ return g_cl->rnd(); }

template<TasDREAM::TypeSamplingForm form>
static void call_template(Problem const &P, int burn, int collect, TasmanianDREAM &st, Closures &cl){
    switch(P.upd){
        case 0: TasDREAM::SampleDREAM<form>(burn, collect, cl.pdf, cl.ins, st, TasDREAM::dist_uniform, P.mag, cl.dif, cl.rnd); break;
        case 1: TasDREAM::SampleDREAM<form>(burn, collect, cl.pdf, cl.ins, st, TasDREAM::dist_gaussian, P.mag, cl.dif, cl.rnd); break;
        case 2: TasDREAM::SampleDREAM<form>(burn, collect, cl.pdf, cl.ins, st, TasDREAM::dist_none, P.mag, cl.dif, cl.rnd); break;
        case 3: TasDREAM::SampleDREAM<form>(burn, collect, cl.pdf, cl.ins, st, TasDREAM::no_update, cl.dif, cl.rnd); break;
        default: TasDREAM::SampleDREAM<form>(burn, collect, cl.pdf, cl.ins, st, cl.upd, cl.dif, cl.rnd); break;
    }
}

// returns "" or the class of the exception that escaped the sampler
static std::string run_library(Problem const &P, TasmanianDREAM &st, int burn, int collect, Stream &S, Stream &S2, Log &L){
    Closures cl;
    cl.rnd = [&]()->double{ double u = S.next(); Ev e; e.k = Ev::RNG; e.ctx = L.ctx; e.v = u; L.ev.push_back(std::move(e)); return u; };
    cl.pdf = [&](std::vector<double> const &x, std::vector<double> &y)->void{
        Ev e; e.k = Ev::PDF; e.x = x; e.n = y.size();
        P.pdf_batch(x, y);
        e.y = y; L.ev.push_back(std::move(e));
    };
    cl.ins = [&](std::vector<double> const &x)->bool{
        Ev e; e.k = Ev::INSIDE; e.x = x; e.b = (x.size() == (size_t) P.d) ? P.inside_pure(x) : false;
        bool r = e.b; L.ev.push_back(std::move(e)); return r;
    };
    cl.upd = [&](std::vector<double> &x)->void{
        Ev e; e.k = Ev::UPD; e.x = x;
        L.ctx = 2;
        switch(P.uupd){
            case 0: for(auto &v : x) v += P.mag * (2.0 * cl.rnd() - 1.0); break;
            case 1: for(auto &v : x) v += P.mag * (2.0 * S2.next() - 1.0); break;
            case 2: break; // deterministic zero
            case 3: for(auto &v : x) v += 0.05 * P.mag * std::tan(3.141592653589793 * (cl.rnd() - 0.5)); break; // heavy tails, huge at the endpoints
            default: if (S2.next() < 0.3) for(size_t t=0; t<x.size(); t++) x[t] = P.init[t]; break; // jump back to the first initial point
        }
        L.ctx = 0;
        e.y = x; L.ev.push_back(std::move(e));
    };
    cl.dif = [&]()->double{
        L.ctx = 1;
        double w;
        switch(P.diff){
            case 0: w = TasDREAM::const_one(); break;
            case 1: w = (P.pct == 0) ? TasDREAM::const_percent<0>() : (P.pct == 30) ? TasDREAM::const_percent<30>() : (P.pct == 50) ? TasDREAM::const_percent<50>()
                      : (P.pct == 90) ? TasDREAM::const_percent<90>() : TasDREAM::const_percent<100>(); break;
            case 2: w = P.w; break;
            case 3: w = cl.rnd(); break;
            case 4: w = S2.next(); break;
            default: w = 2.0 * cl.rnd() - 0.5; break;
        }
        L.ctx = 0;
        Ev e; e.k = Ev::DIFF; e.v = w; L.ev.push_back(std::move(e));
        return w;
    };
    try{
        if (P.api == 0){
            if (P.logf) call_template<TasDREAM::logform>(P, burn, collect, st, cl);
            else call_template<TasDREAM::regform>(P, burn, collect, st, cl);
        }else{
            static const char *types[] = {"uniform", "gaussian", "none", "none", "null"};
            int err = 0;
            g_cl = &cl;
            tsgDreamSample(P.logf ? 1 : 0, burn, collect, c_pdf, (void*) &st, nullptr, nullptr, nullptr, c_dom,
                           types[P.upd], P.mag, c_upd, P.diff_logged ? -1 : P.pct, c_dif, "callback", 1, c_rnd, &err);
            g_cl = nullptr;
            if (err != 0) return "c-interface-error-code";
        }
    }catch(std::exception &e){
        g_cl = nullptr;
        return exception_class(e) + std::string(": ") + e.what();
    }
    return "";
}

// ------------------------------------------------------------------------------------------------
// reference model
// ------------------------------------------------------------------------------------------------
struct Shadow15{
    std::vector<double> s, p;     // current chain vectors and their cached probability values
    bool p_ready = false;
    long long accepted = 0;       // accepted proposals of the recorded iterations
    std::vector<double> hist, phist;
    bool broken = false;          // the event log could not be parsed: nothing more can be decided for this state
    bool tainted = false;         // a transition violation was reported: the acceptance counter is no longer an independent observation
};

static bool same_row(const double *a, const double *b, int d){ for(int t=0; t<d; t++) if (!same_bits(a[t], b[t])) return false; return true; }
static bool same_vec(std::vector<double> const &a, std::vector<double> const &b){
    if (a.size() != b.size()) return false;
    for(size_t i=0; i<a.size(); i++) if (!same_bits(a[i], b[i])) return false;
    return true;
}
static bool near(double a, double b, double scale){
    if (same_bits(a, b)) return true;
    if (!std::isfinite(a) || !std::isfinite(b)) return (std::isnan(a) && std::isnan(b)) || (a == b);
    return std::fabs(a - b) <= 1e-11 * (std::fabs(a) + std::fabs(b) + scale);
}
static std::vector<double> row(std::vector<double> const &v, size_t i, int d){ return std::vector<double>(v.begin() + (long)(i * (size_t) d), v.begin() + (long)((i + 1) * (size_t) d)); }

static void tally(CaseCtx &c, const char *cls, double u){
    if (u == 0.0) c.count(std::string("endpoint:") + cls + ":0");
    else if (u == 1.0) c.count(std::string("endpoint:") + cls + ":1");
}

// replays the event log of ONE SampleDREAM(burn, collect) call on the model M and compares with what the library recorded in st
static void check_run(Problem const &P, Log const &L, int burn, int collect, TasmanianDREAM const &st, Shadow15 &M, CaseCtx &c, std::string const &tag){
    const int N = P.N, d = P.d;
    const size_t ne = L.ev.size();
    const std::string form = P.logf ? "log" : "reg";
    static const char *updname[] = {"builtin-uniform", "builtin-gaussian", "builtin-none", "no_update", "user-update"};
    size_t e = 0;
    // verified = the model's current state was confirmed by the library (initial state, or the previous iteration was recorded in the history and compared).
    // After burn-up iterations (not recorded) a disagreement can only be seen indirectly, in a later proposal / draw count / recorded state: it is then reported
    // under one key that says so, instead of under the key of the clause where it happened to surface.
    bool verified = true;
    auto diverged = [&](std::string const &surfaced, int t, int i){
        c.viol("divergence-after-unrecorded-iterations:" + std::string(P.logf ? "log" : "reg"),
               J().str("run", tag).str("surfaced_as", surfaced).i("iteration", t).i("chain", i).i("burnup", burn).obj());
        M.broken = true; M.tainted = true;
    };
    auto seq_fail = [&](std::string const &expected, int t, int i){
        std::string key = "event-sequence:expected-" + expected + ":got-" + ((e < ne) ? evname(L.ev[e].k) : "end");
        if (!verified){ diverged(key, t, i); return; }
        c.viol(key, J().str("run", tag).i("iteration", t).i("chain", i).i("event", (long long) e).i("events", (long long) ne).obj());
        M.broken = true;
    };
    if (N == 0){
        if (ne != 0) c.viol("callbacks-with-null-state", J().i("events", (long long) ne).obj());
        if (!st.getHistory().empty() || st.getNumHistory() != 0) c.viol("history-count", J().str("run", tag).str("what", "null state has history").obj());
        return;
    }
    // ---- the probability values are initialised once, from the current state ----
    if (!M.p_ready){
        if (!(e < ne && L.ev[e].k == Ev::PDF)){ seq_fail("initial-pdf", -1, -1); return; }
        if (!same_vec(L.ev[e].x, M.s) || L.ev[e].n != (size_t) N)
            c.viol("initial-pdf-call", J().str("run", tag).vec("candidates", L.ev[e].x).vec("state", M.s).i("values_size", (long long) L.ev[e].n).obj());
        M.p = L.ev[e].y; M.p.resize((size_t) N);
        M.p_ready = true;
        e++;
        c.count("initial_pdf_calls");
    }
    // ---- books: exactly collect x chains samples are appended, what was there is kept ----
    std::vector<double> const &H = st.getHistory();
    std::vector<double> const &HP = st.getHistoryPDF();
    const size_t old_rows = M.phist.size();
    const size_t want_rows = old_rows + (size_t) std::max(collect, 0) * (size_t) N;
    bool hist_ok = true;
    if (HP.size() != want_rows || H.size() != want_rows * (size_t) d || st.getNumHistory() != want_rows){
        c.viol("history-count", J().str("run", tag).i("burnup", burn).i("collect", collect).i("chains", N).i("samples_before", (long long) old_rows)
               .i("pdf_history_size", (long long) HP.size()).i("history_size", (long long) H.size()).i("getNumHistory", (long long) st.getNumHistory()).obj());
        hist_ok = false;
    }else{
        bool keep = true;
        for(size_t q=0; q<M.hist.size() && keep; q++) if (!same_bits(M.hist[q], H[q])) keep = false;
        for(size_t q=0; q<old_rows && keep; q++) if (!same_bits(M.phist[q], HP[q])) keep = false;
        if (!keep){ c.viol("history-prefix-changed", J().str("run", tag).i("samples_before", (long long) old_rows).obj()); hist_ok = false; }
    }
    // ---- iterations ----
    const int total = std::max(burn, 0) + std::max(collect, 0);
    std::vector<double> x((size_t) d), prop((size_t) N * (size_t) d), pn((size_t) N), uacc((size_t) N);
    std::vector<char> in((size_t) N), acc((size_t) N), drew((size_t) N);
    for(int t=0; t<total; t++){
        std::vector<double> cand;
        for(int i=0; i<N; i++){
            // two uniform draws choose the chains j and k
            if (!(e + 1 < ne && L.ev[e].k == Ev::RNG && L.ev[e].ctx == 0 && L.ev[e + 1].k == Ev::RNG && L.ev[e + 1].ctx == 0)){ seq_fail("chain-index-draws", t, i); return; }
            double uj = L.ev[e].v, uk = L.ev[e + 1].v; e += 2;
            tally(c, "j", uj); tally(c, "k", uk);
            double w = (double) P.pct / 100.0;
            if (P.diff_logged){
                while(e < ne && L.ev[e].k == Ev::RNG && L.ev[e].ctx == 1){ tally(c, "differential", L.ev[e].v); e++; }
                if (!(e < ne && L.ev[e].k == Ev::DIFF)){ seq_fail("differential_update", t, i); return; }
                w = L.ev[e].v; e++;
            }
            size_t j = (size_t)(uj * (double) N), k = (size_t)(uk * (double) N);
            if (j >= (size_t) N) j = (size_t) N - 1;   // "randomly chosen chains": an index is always one of the chains, also for a draw of exactly 1
            if (k >= (size_t) N) k = (size_t) N - 1;
            const double *si = &M.s[(size_t) i * (size_t) d], *sj = &M.s[j * (size_t) d], *sk = &M.s[k * (size_t) d];
            for(int q=0; q<d; q++) x[(size_t) q] = (w == 0.0) ? si[q] : si[q] + w * (sk[q] - sj[q]); // x = s_i + w (s_k - s_j)
            if (j == k) c.count("same_chain_pairs");
            // independent update
            bool exact = true;
            if (P.upd == 4){
                while(e < ne && L.ev[e].k == Ev::RNG && L.ev[e].ctx == 2){ tally(c, "update", L.ev[e].v); e++; }
                if (!(e < ne && L.ev[e].k == Ev::UPD)){ seq_fail("independent_update", t, i); return; }
                if (!same_vec(L.ev[e].x, x) && !verified){ diverged("proposal-mismatch:user-update", t, i); return; }
                if (!same_vec(L.ev[e].x, x))
                    c.viol("proposal-mismatch:user-update", J().str("run", tag).i("iteration", t).i("chain", i).i("j", (long long) j).i("k", (long long) k).num("uj", uj).num("uk", uk).num("w", w)
                           .vec("given_to_update", L.ev[e].x).vec("model", x).vec("state", M.s).obj());
                if (L.ev[e].y.size() == (size_t) d) x = L.ev[e].y;
                e++;
            }else{
                std::vector<double> u;
                while(e < ne && L.ev[e].k == Ev::RNG && L.ev[e].ctx == 0){ u.push_back(L.ev[e].v); tally(c, "update", L.ev[e].v); e++; }
                size_t want = 0;
                if (P.upd == 0 && P.mag != 0.0) want = (size_t) d;
                if (P.upd == 1 && P.mag != 0.0) want = 2 * (size_t)((d + 1) / 2);
                if (u.size() != want && !verified){ diverged(std::string("update-draw-count:") + updname[P.upd], t, i); return; }
                if (u.size() != want){
                    c.viol(std::string("update-draw-count:") + updname[P.upd], J().str("run", tag).i("iteration", t).i("chain", i).i("draws", (long long) u.size()).i("documented", (long long) want).obj());
                    M.broken = true; return;
                }
                if (P.upd == 0 && want){ // uniform samples over (-magnitude, magnitude)
                    for(int q=0; q<d; q++) x[(size_t) q] += P.mag * (2.0 * u[(size_t) q] - 1.0);
                    exact = false;
                }
                if (P.upd == 1 && want){ // Box-Muller: zero mean, standard deviation = magnitude
                    for(int q=0; q<d; q+=2){
                        double r = P.mag * std::sqrt(-2.0 * std::log(u[(size_t) q])), a = 2.0 * 3.14159265358979323846 * u[(size_t) q + 1];
                        x[(size_t) q] += r * std::cos(a);
                        if (q + 1 < d) x[(size_t) q + 1] += r * std::sin(a);
                    }
                    exact = false;
                }
            }
            if (!(e < ne && L.ev[e].k == Ev::INSIDE)){ seq_fail("inside", t, i); return; }
            Ev const &ei = L.ev[e];
            if (ei.x.size() != (size_t) d){ c.viol("inside-argument-size", J().str("run", tag).i("size", (long long) ei.x.size()).obj()); M.broken = true; return; }
            bool match = true;
            for(int q=0; q<d; q++) if (exact ? !same_bits(ei.x[(size_t) q], x[(size_t) q]) : !near(ei.x[(size_t) q], x[(size_t) q], P.mag)) match = false;
            if (!match && !verified){ diverged(std::string(exact ? "proposal-mismatch:" : "update-arithmetic:") + updname[P.upd], t, i); return; }
            if (!match)
                c.viol(std::string(exact ? "proposal-mismatch:" : "update-arithmetic:") + updname[P.upd],
                       J().str("run", tag).i("iteration", t).i("chain", i).i("j", (long long) j).i("k", (long long) k).num("uj", uj).num("uk", uk).num("w", w)
                       .vec("given_to_inside", ei.x).vec("model", x).vec("state", M.s).obj());
            std::copy(ei.x.begin(), ei.x.end(), prop.begin() + (long)((size_t) i * (size_t) d)); // what the library proposed is what the transition is judged on
            in[(size_t) i] = ei.b ? 1 : 0;
            if (ei.b) cand.insert(cand.end(), ei.x.begin(), ei.x.end());
            e++;
        }
        // the probability function sees exactly the in-domain proposals, once, in one batch
        std::vector<double> vals;
        if (!cand.empty()){
            if (!(e < ne && L.ev[e].k == Ev::PDF)){ seq_fail("pdf", t, -1); return; }
            Ev const &ep = L.ev[e];
            if (!same_vec(ep.x, cand)){
                bool outside = false;
                for(size_t q=0; q + (size_t) d <= ep.x.size(); q += (size_t) d) if (!P.inside_pure(row(ep.x, q / (size_t) d, d))) outside = true;
                c.viol(outside ? "pdf-called-outside-domain" : "pdf-candidates-mismatch", J().str("run", tag).i("iteration", t).vec("candidates", ep.x).vec("in_domain_proposals", cand).obj());
                M.broken = true; return;
            }
            if (ep.n != cand.size() / (size_t) d || ep.y.size() != ep.n){
                c.viol("pdf-values-size", J().str("run", tag).i("iteration", t).i("values_size", (long long) ep.n).i("candidates", (long long)(cand.size() / (size_t) d)).obj());
                M.broken = true; return;
            }
            vals = ep.y;
            e++;
            c.count("pdf_batches");
        }else{
            c.count("iterations_with_every_proposal_outside");
        }
        // Metropolis test
        size_t iv = 0;
        long long nacc = 0;
        for(int i=0; i<N; i++){
            acc[(size_t) i] = 0; drew[(size_t) i] = 0; pn[(size_t) i] = 0.0; uacc[(size_t) i] = 0.0;
            if (!in[(size_t) i]){ c.count("rejected_outside_domain"); continue; }
            double pnew = vals[iv++], pcur = M.p[(size_t) i];
            pn[(size_t) i] = pnew;
            if (pnew > pcur){
                acc[(size_t) i] = 1; c.count("accepted_more_probable");
            }else{
                if (!(e < ne && L.ev[e].k == Ev::RNG && L.ev[e].ctx == 0)){ seq_fail("acceptance-draw", t, i); return; }
                double u = L.ev[e].v; e++;
                tally(c, "accept", u);
                drew[(size_t) i] = 1; uacc[(size_t) i] = u;
                bool a = P.logf ? (pnew - pcur >= std::log(u)) : (pnew / pcur >= u);
                bool tie = P.logf ? (pnew - pcur == std::log(u)) : (pnew / pcur == u);
                if (tie) c.count("ties_ratio_equals_draw");
                acc[(size_t) i] = a ? 1 : 0;
                c.count(a ? "accepted_by_draw" : "rejected_by_draw");
            }
            if (acc[(size_t) i]) nacc++;
        }
        // compare with the recorded iteration (num_burnup = 0 exposes every iteration)
        std::vector<double> ns = M.s, np = M.p;
        for(int i=0; i<N; i++) if (acc[(size_t) i]){
            std::copy_n(prop.begin() + (long)((size_t) i * (size_t) d), d, ns.begin() + (long)((size_t) i * (size_t) d));
            np[(size_t) i] = pn[(size_t) i];
        }
        if (t >= burn){
            M.accepted += nacc;
            if (hist_ok){
                size_t r0 = old_rows + (size_t)(t - std::max(burn, 0)) * (size_t) N;
                for(int i=0; i<N; i++){
                    const double *rec = &H[(r0 + (size_t) i) * (size_t) d];
                    const double *want = &ns[(size_t) i * (size_t) d], *old = &M.s[(size_t) i * (size_t) d], *pr = &prop[(size_t) i * (size_t) d];
                    auto witness = [&](){
                        return J().str("run", tag).i("iteration", t).i("chain", i).b("inside", in[(size_t) i] != 0).num("p_new", pn[(size_t) i]).num("p_cur", M.p[(size_t) i])
                               .b("drew", drew[(size_t) i] != 0).num("u", uacc[(size_t) i]).b("model_accepts", acc[(size_t) i] != 0)
                               .vec("old", row(M.s, (size_t) i, d)).vec("proposal", row(prop, (size_t) i, d)).vec("recorded", std::vector<double>(rec, rec + d))
                               .num("recorded_pdf", HP[r0 + (size_t) i]).obj();
                    };
                    if (!verified && (!same_row(rec, want, d) || !same_bits(HP[r0 + (size_t) i], np[(size_t) i]))){ diverged("recorded-state", t, i); return; }
                    if (!same_row(rec, want, d)){
                        M.tainted = true;
                        std::string key = (!acc[(size_t) i] && same_row(rec, pr, d)) ? "transition:moved-against-rule" : (acc[(size_t) i] && same_row(rec, old, d)) ? "transition:stayed-against-rule"
                                          : "transition:state-mismatch";
                        key += in[(size_t) i] ? ":" + form : ":outside-domain";
                        c.viol(key, witness());
                    }else if (!same_bits(HP[r0 + (size_t) i], np[(size_t) i])){
                        c.viol("pdf-cache-mismatch:" + form, witness());
                    }
                    // every recorded sample satisfies the domain test and carries the probability function's value at that sample
                    std::vector<double> smp(rec, rec + d);
                    if (!P.inside_pure(smp)) c.viol("sample-outside-domain", witness());
                    double pv = P.pdf_pure(smp.data());
                    if (!same_bits(pv, HP[r0 + (size_t) i]))
                        c.viol("pdf-history-differs-from-pdf", J().str("run", tag).i("iteration", t).i("chain", i).vec("sample", smp).num("recorded_pdf", HP[r0 + (size_t) i]).num("pdf", pv).obj());
                }
                // continue from what the library recorded, so that one violation is reported once and with the right key
                ns.assign(H.begin() + (long)(r0 * (size_t) d), H.begin() + (long)((r0 + (size_t) N) * (size_t) d));
                np.assign(HP.begin() + (long) r0, HP.begin() + (long)(r0 + (size_t) N));
                c.count("transitions_checked_against_history", N);
                verified = true;
            }else{
                verified = false;
            }
        }else{
            verified = false;
        }
        M.s = ns; M.p = np;
        c.count("iterations");
    }
    if (e != ne){ seq_fail("end-of-log", total, -1); return; }
    // ---- the live state after the run ----
    if (!verified && (!same_vec(st.getChainState(), M.s))){ diverged("final-state", total, -1); return; }
    if (!same_vec(st.getChainState(), M.s)){
        c.viol("final-state-mismatch", J().str("run", tag).vec("state", st.getChainState()).vec("model", M.s).obj());
        M.s = st.getChainState();
    }
    if (!st.isPDFReady()) c.viol("pdf-not-ready-after-run", J().str("run", tag).obj());
    else{
        std::vector<double> pv((size_t) N); for(int i=0; i<N; i++) pv[(size_t) i] = st.getPDFvalue((size_t) i);
        if (!same_vec(pv, M.p)){ c.viol("final-pdf-mismatch", J().str("run", tag).vec("pdf_values", pv).vec("model", M.p).obj()); M.p = pv; }
    }
    if (hist_ok){ M.hist = H; M.phist = HP; }
    // ---- acceptance counter ----
    double rate = st.getAcceptanceRate();
    double want_rate = M.phist.empty() ? 0.0 : (double) M.accepted / (double) M.phist.size();
    if (hist_ok && !M.tainted && !(std::fabs(rate - want_rate) <= 1e-12))
        c.viol("acceptance-counter", J().str("run", tag).num("getAcceptanceRate", rate).i("accepted_by_model", M.accepted).i("samples", (long long) M.phist.size()).obj());
}

// ------------------------------------------------------------------------------------------------
// case generator
// ------------------------------------------------------------------------------------------------
static void gen_problem(Problem &P, Rng &rng, bool thorough){
    P.N = rng.coin(0.35) ? rng.range(1, 3) : rng.range(1, thorough ? 12 : 8);
    P.d = rng.range(1, thorough ? 6 : 4);
    if (rng.coin(0.01)) P.N = 0; // the null state of the default constructor
    P.logf = rng.coin();
    P.api = rng.coin(0.2) ? 1 : 0;
    const int N = P.N, d = P.d;
    // domain
    static const int doms[] = {0, 0, 0, 1, 1, 2, 3, 3, 4, 5, 5, 6};
    P.dom = doms[rng.range(0, 11)];
    P.lo.resize((size_t) d); P.hi.resize((size_t) d); P.cen.resize((size_t) d);
    for(int t=0; t<d; t++){ P.lo[(size_t) t] = rng.uni(-2.0, 0.0); P.hi[(size_t) t] = P.lo[(size_t) t] + rng.uni(0.5, 3.0); }
    P.cell = rng.uni(0.3, 1.5);
    if (P.dom == 5){
        P.gdom = rng.range(0, 3);
        if (P.gdom == 0){ P.grid.makeGlobalGrid(d, 1, 1, type_level, rule_clenshawcurtis); P.grid.setDomainTransform(P.lo, P.hi); }
        if (P.gdom == 1){ P.grid.makeLocalPolynomialGrid(d, 1, 1, 1, rule_localp); for(int t=0; t<d; t++){ P.lo[(size_t) t] = -1.0; P.hi[(size_t) t] = 1.0; } }
        if (P.gdom == 2){ P.grid.makeFourierGrid(d, 1, 1, type_level); for(int t=0; t<d; t++){ P.lo[(size_t) t] = 0.0; P.hi[(size_t) t] = 1.0; } }
        if (P.gdom == 3){
            P.grid.makeGlobalGrid(d, 1, 1, type_level, rule_gausslaguerre);
            std::vector<double> rate((size_t) d, 1.0);
            P.grid.setDomainTransform(P.lo, rate); // x >= lo
        }
        P.lib_domain = P.grid.getDomainInside();
    }
    if (P.dom == 0) P.lib_domain = TasDREAM::hypercube(P.lo, P.hi);
    for(int t=0; t<d; t++) P.cen[(size_t) t] = 0.5 * (P.lo[(size_t) t] + P.hi[(size_t) t]);
    P.rad = rng.uni(0.4, 2.0);
    // initial state, inside the domain
    P.init.assign((size_t) N * (size_t) d, 0.0);
    for(int i=0; i<N; i++){
        std::vector<double> v((size_t) d);
        for(int tries=0; tries<100; tries++){
            for(int t=0; t<d; t++){
                double a = P.lo[(size_t) t], b = P.hi[(size_t) t];
                v[(size_t) t] = rng.coin(0.06) ? (rng.coin() ? a : b) : rng.uni(a, b); // sometimes exactly on the boundary
                if (P.dom == 1) v[(size_t) t] = P.cen[(size_t) t] + rng.uni(-1.0, 1.0) * P.rad / std::sqrt((double) d);
                if (P.dom == 3) v[(size_t) t] = P.cell * ((double) rng.range(-2, 2) + 0.59 * rng.uni());
            }
            if (P.dom == 4) break; // the domain is defined by the initial points themselves
            if (P.inside_pure(v)) break;
        }
        std::copy(v.begin(), v.end(), P.init.begin() + (long)((size_t) i * (size_t) d));
    }
    if (N >= 2 && rng.coin(0.15)) std::copy_n(P.init.begin(), d, P.init.begin() + (long)((size_t) rng.range(1, N - 1) * (size_t) d)); // two chains at the same point
    // probability function
    static const int pdfs[] = {0, 0, 1, 1, 2, 2, 3, 3, 3, 4, 5, 6, 7, 7, 8, 9};
    P.pdf = pdfs[rng.range(0, 15)];
    P.c1.resize((size_t) d); P.c2.resize((size_t) d);
    for(int t=0; t<d; t++){ P.c1[(size_t) t] = rng.uni(P.lo[(size_t) t], P.hi[(size_t) t]); P.c2[(size_t) t] = rng.uni(P.lo[(size_t) t], P.hi[(size_t) t]); }
    P.s2 = rng.coin(0.2) ? rng.uni(1e-4, 1e-2) : rng.uni(0.05, 2.0);
    P.cut = rng.uni(P.lo[0], P.cen[0]);
    P.hseed = rng.next();
    P.prior = rng.range(0, 1);
    P.mout = rng.range(1, 3);
    P.A.resize((size_t) P.mout * (size_t) d); for(auto &a : P.A) a = rng.uni(-1.0, 1.0);
    P.data.resize((size_t) P.mout); for(auto &a : P.data) a = rng.uni(-1.0, 1.0);
    P.var = rng.uni(0.05, 2.0);
    P.nobs = rng.range(1, 4);
    P.aniso = rng.range(0, 1);
    if (P.pdf == 7){
        if (P.aniso){
            P.varv.resize((size_t) P.mout); for(auto &a : P.varv) a = rng.uni(0.05, 2.0);
            P.lik = std::make_shared<TasDREAM::LikelihoodGaussAnisotropic>(P.varv, P.data, (size_t) P.nobs);
        }else{
            P.lik = std::make_shared<TasDREAM::LikelihoodGaussIsotropic>(P.var, P.data, (size_t) P.nobs);
        }
    }
    if (P.pdf == 9){
        // piece-wise linear surrogate of a positive function (regular form) / of its logarithm (log form) on the box [lo, hi]; zero outside the box
        P.pgrid.makeLocalPolynomialGrid(d, 1, (d <= 2) ? 3 : 2, 1, rule_localp);
        P.pgrid.setDomainTransform(P.lo, P.hi);
        std::vector<double> pts = P.pgrid.getNeededPoints(), vals((size_t) P.pgrid.getNumNeeded());
        for(size_t i=0; i<vals.size(); i++){ double l = -0.5 * P.sq(&pts[i * (size_t) d], P.c1) / P.s2; vals[i] = P.logf ? l : std::exp(l) + 0.01; }
        P.pgrid.loadNeededValues(vals);
    }
    // updates
    static const int upds[] = {0, 0, 1, 1, 2, 3, 3, 4, 4, 4};
    P.upd = upds[rng.range(0, 9)];
    P.uupd = rng.range(0, 4);
    P.mag = rng.coin(0.1) ? 0.0 : (rng.coin(0.3) ? rng.uni(0.5, 3.0) : rng.uni(0.01, 0.5));
    static const int diffs[] = {0, 0, 1, 1, 2, 2, 3, 4, 5};
    P.diff = diffs[rng.range(0, 8)];
    static const int pcts[] = {0, 30, 50, 90, 100};
    P.pct = (P.diff == 0) ? 100 : pcts[rng.range(0, 4)];
    static const double ws[] = {0.0, 0.3, 1.0, -0.5, 1.7, 1e-3};
    P.w = ws[rng.range(0, 5)];
    P.diff_logged = !(P.api == 1 && P.diff <= 1); // the C interface builds the constant-percent rule inside the library
}

static void setup_stream(Stream &S, Problem const &P, Rng &rng){
    static const int kinds[] = {0, 0, 0, 1, 2, 3, 3, 3, 3, 3, 3, 3, 4, 4, 4, 4, 5, 5, 5, 5};
    S.kind = kinds[rng.range(0, 19)];
    S.seed = rng.next();
    int upd_draws = (P.upd == 0 || P.upd == 4) ? P.d : (P.upd == 1) ? 2 * ((P.d + 1) / 2) : 0;
    int per_iter = std::max(1, P.N) * (3 + upd_draws + ((P.diff == 3 || P.diff == 5) ? 1 : 0));
    S.force_pos = rng.range(0, 2 * per_iter - 1);
    S.force_val = rng.coin() ? 0.0 : 1.0;
    int dn[] = {std::max(1, P.N), 4, 2 * std::max(1, P.N), 2};
    S.denom = dn[rng.range(0, 3)];
    S.reset();
}

} // anonymous namespace

void mon_c15(CaseCtx &c, Rng &rng){
    Problem P;
    gen_problem(P, rng, c.thorough);
    if (P.pdf >= 6){ if (P.logf) P.make_composite<TasDREAM::logform>(); else P.make_composite<TasDREAM::regform>(); }
    Stream S, S2;
    setup_stream(S, P, rng);
    S2.kind = Stream::ordinary; S2.seed = rng.next(); S2.reset();
    // run plan: burn-up (0 in most cases: the history then exposes every iteration), 1..3 collecting segments
    int burn = rng.coin(0.65) ? 0 : rng.range(1, c.thorough ? 12 : 5);
    int nseg = rng.range(1, 3);
    std::vector<int> segs;
    for(int q=0; q<nseg; q++) segs.push_back(rng.coin(0.08) ? 0 : rng.range(1, c.thorough ? 16 : 6));
    if (rng.coin(0.06)){ // long runs: hundreds of snapshots (history growth, re-allocation of the history vectors between split runs)
        segs[(size_t) rng.range(0, nseg - 1)] = rng.range(40, c.thorough ? 1000 : 300);
        if (rng.coin(0.3)) burn = rng.range(20, 200);
    }
    bool preset = rng.coin(0.15);
    bool lambda_init = rng.coin(0.3);
    // the burn-up can be split as well: run(b0, 0); run(b, c1); run(0, c2) ... equals run(b0 + b, c1 + c2 + ...)
    int pre_burn = rng.coin(0.15) ? rng.range(1, 5) : 0;
    if (argi("minimal", 0)){
        // the smallest input of the kindex-clamp defect: one chain, one dimension, every draw exactly 1.0, one iteration (tsgmon C15 0 0 1 minimal=1)
        P = Problem(); P.N = 1; P.d = 1; P.upd = 3; P.diff = 0; P.dom = 2; P.pdf = 4; P.lo = {0.0}; P.hi = {1.0}; P.cen = {0.5}; P.init = {0.25};
        S.kind = Stream::ones; burn = 0; segs = {1}; preset = false; lambda_init = false; pre_burn = 0;
    }
    emit_begin(c, P.json(S, burn, segs, preset, pre_burn));

    const int N = P.N, d = P.d;
    if (N > 0) for(int i=0; i<N; i++) if (!P.inside_pure(row(P.init, (size_t) i, d))){ c.inconc("initial-state-outside-domain"); return; }

    auto make_state = [&](std::unique_ptr<TasmanianDREAM> &st, Shadow15 &M){
        if (N == 0){ st.reset(new TasmanianDREAM()); return; }
        if (P.dom == 5) st.reset(new TasmanianDREAM(N, P.grid)); else st.reset(new TasmanianDREAM(N, d));
        if (lambda_init){ int i = 0; st->setState([&](double *x)->void{ std::copy_n(P.init.begin() + (long)((size_t) i * (size_t) d), d, x); i++; }); }
        else st->setState(P.init);
        M.s = P.init;
        if (preset){
            std::vector<double> pv((size_t) N);
            for(int i=0; i<N; i++) pv[(size_t) i] = P.pdf_pure(&P.init[(size_t) i * (size_t) d]);
            st->setPDFvalues(pv);
            M.p = pv; M.p_ready = true;
        }
    };

    // ---- split runs ----
    std::unique_ptr<TasmanianDREAM> A; Shadow15 MA;
    make_state(A, MA);
    bool failed = false;
    if (pre_burn > 0){
        Log L;
        std::string err = run_library(P, *A, pre_burn, 0, S, S2, L);
        if (!err.empty()){ c.viol("exception:" + err.substr(0, err.find(':')), J().str("run", "burnup-only").str("what", err).obj()); failed = true; }
        else{ check_run(P, L, pre_burn, 0, *A, MA, c, "burnup-only"); if (MA.broken) failed = true; }
    }
    bool reseeded = false;
    for(size_t q=0; q<segs.size() && !failed; q++){
        // between two runs the chains may be re-seeded through either setState overload: the cached pdf values belong to the old positions and
        // must be re-evaluated (the model expects the pdf call at the start of the next run, as for a fresh state)
        if (q > 0 && N > 1 && rng.coin(0.3)){
            std::vector<double> np((size_t) N * (size_t) d);
            for(int i=0; i<N; i++) std::copy_n(P.init.begin() + (long)((size_t)((i + 1) % N) * (size_t) d), d, np.begin() + (long)((size_t) i * (size_t) d)); // cyclic shift of the (in-domain) initial positions
            if (rng.coin()){ int i = 0; A->setState([&](double *x)->void{ std::copy_n(np.begin() + (long)((size_t) i * (size_t) d), d, x); i++; }); }
            else A->setState(np);
            MA.s = np; MA.p_ready = false; reseeded = true;
            c.count("reseeded_between_runs");
        }
        Log L;
        std::string tag = "split-" + std::to_string(q);
        std::string err = run_library(P, *A, (q == 0) ? burn : 0, segs[q], S, S2, L);
        if (!err.empty()){ c.viol("exception:" + err.substr(0, err.find(':')), J().str("run", tag).str("what", err).obj()); failed = true; break; }
        check_run(P, L, (q == 0) ? burn : 0, segs[q], *A, MA, c, tag);
        if (MA.broken) failed = true;
    }
    if (N == 0){ c.sig("null-state"); return; }
    // ---- the combined run from the same initial state under the same random streams ----
    int total_collect = 0; for(int s : segs) total_collect += s;
    if (!failed && !reseeded && (segs.size() > 1 || pre_burn > 0)){
        std::unique_ptr<TasmanianDREAM> B; Shadow15 MB;
        make_state(B, MB);
        S.reset(); S2.reset();
        Log L;
        std::string err = run_library(P, *B, pre_burn + burn, total_collect, S, S2, L);
        if (!err.empty()){ c.viol("exception:" + err.substr(0, err.find(':')), J().str("run", "combined").str("what", err).obj()); return; }
        check_run(P, L, pre_burn + burn, total_collect, *B, MB, c, "combined");
        std::string field;
        if (!same_vec(A->getHistory(), B->getHistory())) field = "history";
        else if (!same_vec(A->getHistoryPDF(), B->getHistoryPDF())) field = "pdf-history";
        else if (!same_vec(A->getChainState(), B->getChainState())) field = "state";
        else if (!same_bits(A->getAcceptanceRate(), B->getAcceptanceRate())) field = "acceptance-rate";
        else for(int i=0; i<N; i++) if (!same_bits(A->getPDFvalue((size_t) i), B->getPDFvalue((size_t) i))) field = "pdf-values";
        if (!field.empty())
            c.viol("split-differs-from-combined:" + field, J().i("burnup_only_first_run", pre_burn).i("burnup", burn).vec("collect", segs).i("history_split", (long long) A->getHistory().size())
                   .i("history_combined", (long long) B->getHistory().size()).num("rate_split", A->getAcceptanceRate()).num("rate_combined", B->getAcceptanceRate()).obj());
        c.count("split_vs_combined_compared");
    }
    if (failed) return;
    if (pre_burn + burn + total_collect == 0){ c.inconc("no-iterations"); return; }
    c.count("cases_with_iterations");
    c.sig(P.sig() + "s" + std::to_string(S.kind) +  (burn ? "b" : "") + (pre_burn ? "B" : "") + "g" + std::to_string(segs.size()));
}

} // namespace vf
