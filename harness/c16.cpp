// C16 - the tasgrid command-line tool is equivalent to the library API (DESIGN.md section 4, C16)
//
// One case = one script of tasgrid invocations that share a grid file.  Every step
//   1. runs the REAL tasgrid binary of the asan variant (posix_spawn; stdout/stderr captured; sanitizer reports abort it),
//   2. performs, on the harness' own TasmanianSparseGrid object, the API call sequence that the documentation of the command
//      describes (tasgrid -help texts, Doxygen/InterfaceCLI.md, Doxygen/InterfaceMATLAB.md, TasmanianSparseGrid.hpp doxygen),
//      and writes the harness' own grid file in the same format,
//   3. compares: grid files byte for byte; output matrices parsed from the tool's file (binary: bitwise; ASCII: 17 digits are an
//      exact round trip, so bitwise again) and from stdout (-print); accepted/rejected outcomes; a const command must leave the
//      grid file untouched; a rejected command must leave the grid file untouched; a death by signal is a violation.
// The API object lives in memory through the whole script (that is "the corresponding library call sequence"); the tool goes
// through write/read at every step.  After a reported grid-file difference the object is re-synchronised from the tool's file
// so that one defect does not cascade.
//
// Keys:  output-differs:<cmd>:<family>   grid-file-differs:<cmd>:<family>   real-option-parsed-as-float:<option>:<cmd>
//        outcome:tool-rejects-api-accepts:<class of the tool's ERROR line>   outcome:tool-accepts-api-throws:<cmd>:<family>:<exception>
//        tool-abort:<sanitizer kind>:<top frames in the repo>   tool-abort:<cmd>:<family>:uncaught-<exception>:<frames>   tool-hang:<cmd>:<family>
//        const-command-modified-grid:<cmd>   rejected-step-modified-grid:<cmd>   output-differs-only-after-write-read:<cmd>:<family>
// Counted, not reported: a step that the API documents as an error and that the tool also refuses (ERROR + exit 1, or std::terminate with
// the documented exception); a read-only / refused command that re-writes the grid file with the same content in the other format; a dense
// numeric output that differs from the in-memory object by rounding only and equals bitwise the output of an API object that went
// through write/read (the tool is faithful, the library is history dependent in the last bits).
// Debugging: VF_TRACE=1 prints the command lines, VF_KEEP=1 stops the script at the first violation and keeps its directory.
#include "monitors.hpp"
#include "tsgExoticQuadrature.hpp"
#include <spawn.h>
#include <sys/wait.h>
#include <sys/stat.h>
#include <fcntl.h>
#include <dirent.h>
#include <signal.h>
#include <fstream>
#include <iomanip>
#include <cerrno>
extern char **environ;

namespace vf{
namespace{

// ------------------------------------------------------------------------------------------------
// matrices and files
// ------------------------------------------------------------------------------------------------
struct Mat{
    long rows = 0, cols = 0;
    std::vector<double> v;
    Mat(){}
    Mat(long r, long c) : rows(r), cols(c), v((size_t)(r * c), 0.0){}
    Mat(long r, long c, std::vector<double> d) : rows(r), cols(c), v(std::move(d)){}
};
struct Sparse{
    long rows = 0, cols = 0, nnz = 0;
    std::vector<int> pntr, indx;
    std::vector<double> vals;
};
struct Out{ // what the API side says the command outputs
    Mat m;
    Sparse sp;
    std::string text;
};

inline uint64_t rawbits(double x){ uint64_t u; std::memcpy(&u, &x, 8); return u; }
inline bool same_double(double a, double b){ return rawbits(a) == rawbits(b) || (std::isnan(a) && std::isnan(b)); }

bool slurp(std::string const &path, std::string &data){
    std::ifstream f(path, std::ios::binary);
    if (!f.good()) return false;
    std::ostringstream ss; ss << f.rdbuf(); data = ss.str();
    return true;
}
bool file_exists(std::string const &p){ struct stat st; return ::stat(p.c_str(), &st) == 0; }

// input formats: 0 = ASCII "%.17e", 1 = binary TSG, 2 = ASCII in the style of tsgWriteMatrix.m ("%2.20e", two blanks in the header)
void write_matrix(std::string const &path, Mat const &m, int fmt){
    if (fmt == 1){
        std::ofstream f(path, std::ios::binary);
        f.write("TSG", 3);
        int r = (int) m.rows, c = (int) m.cols;
        f.write((const char*) &r, sizeof(int)); f.write((const char*) &c, sizeof(int));
        f.write((const char*) m.v.data(), (std::streamsize)(m.v.size() * sizeof(double)));
    }else{
        FILE *f = fopen(path.c_str(), "w");
        fprintf(f, (fmt == 2) ? "%ld  %ld\n" : "%ld %ld\n", m.rows, m.cols);
        for(long i=0; i<m.rows; i++){
            for(long j=0; j<m.cols; j++) fprintf(f, (fmt == 2) ? "%2.20e%s" : "%.17e%s", m.v[(size_t)(i * m.cols + j)], (j + 1 < m.cols) ? " " : "");
            fprintf(f, "\n");
        }
        fclose(f);
    }
}

struct Tok{ // whitespace separated tokens of a text
    std::vector<std::string> t;
    explicit Tok(std::string const &s){
        size_t i = 0;
        while (i < s.size()){
            while (i < s.size() && isspace((unsigned char) s[i])) i++;
            size_t j = i;
            while (j < s.size() && !isspace((unsigned char) s[j])) j++;
            if (j > i) t.push_back(s.substr(i, j - i));
            i = j;
        }
    }
};
bool to_long(std::string const &s, long &v){ char *e = nullptr; errno = 0; v = strtol(s.c_str(), &e, 10); return (e && *e == 0 && errno == 0 && !s.empty()); }
bool to_double(std::string const &s, double &v){ char *e = nullptr; v = strtod(s.c_str(), &e); return (e && *e == 0 && !s.empty()); }

// parses a dense matrix in the documented formats; returns "" or a description of what is malformed
std::string parse_dense_text(std::string const &data, Mat &m){
    Tok tk(data);
    if (tk.t.size() < 2) return "fewer than two header tokens";
    if (!to_long(tk.t[0], m.rows) || !to_long(tk.t[1], m.cols)) return "header is not two integers: '" + tk.t[0] + "' '" + tk.t[1] + "'";
    if (m.rows < 0 || m.cols < 0) return "negative size";
    size_t n = (size_t)(m.rows * m.cols);
    if (tk.t.size() != n + 2) return "expected " + std::to_string(n) + " entries, found " + std::to_string(tk.t.size() - 2);
    m.v.resize(n);
    for(size_t i=0; i<n; i++) if (!to_double(tk.t[i + 2], m.v[i])) return "entry " + std::to_string(i) + " is not a number: '" + tk.t[i + 2] + "'";
    return "";
}
// -print of complex (Fourier) coefficients: header "rows cols" counts complex entries, every entry is printed by iostream as (re,im);
// returned as the rows x 2 cols real matrix of the documented file format (pairs of consecutive numbers)
std::string parse_complex_text(std::string const &data, Mat &m){
    std::string plain = data;
    size_t opens = 0;
    for(char &ch : plain){ if (ch == '(') opens++; if (ch == '(' || ch == ')' || ch == ',') ch = ' '; }
    Tok tk(plain);
    if (tk.t.size() < 2) return "fewer than two header tokens";
    long cols = 0;
    if (!to_long(tk.t[0], m.rows) || !to_long(tk.t[1], cols)) return "header is not two integers";
    if (m.rows < 0 || cols < 0) return "negative size";
    m.cols = 2 * cols;
    size_t n = (size_t)(m.rows * m.cols);
    if (opens != n / 2) return "expected " + std::to_string(n / 2) + " complex entries, found " + std::to_string(opens);
    if (tk.t.size() != n + 2) return "expected " + std::to_string(n) + " real numbers, found " + std::to_string(tk.t.size() - 2);
    m.v.resize(n);
    for(size_t i=0; i<n; i++) if (!to_double(tk.t[i + 2], m.v[i])) return "entry " + std::to_string(i) + " is not a number: '" + tk.t[i + 2] + "'";
    return "";
}
std::string parse_dense(std::string const &data, Mat &m, bool &binary){
    binary = (data.size() >= 3 && data.compare(0, 3, "TSG") == 0);
    if (!binary) return parse_dense_text(data, m);
    if (data.size() < 11) return "binary file shorter than its header";
    int r, c; std::memcpy(&r, data.data() + 3, 4); std::memcpy(&c, data.data() + 7, 4);
    m.rows = r; m.cols = c;
    if (r < 0 || c < 0) return "negative size";
    size_t n = (size_t) r * (size_t) c;
    if (data.size() != 11 + 8 * n) return "binary file has " + std::to_string(data.size()) + " bytes, header announces " + std::to_string(11 + 8 * n);
    m.v.resize(n);
    if (n) std::memcpy(m.v.data(), data.data() + 11, 8 * n);
    return "";
}
std::string parse_sparse(std::string const &data, Sparse &s, bool &binary){
    binary = (data.size() >= 3 && data.compare(0, 3, "TSG") == 0);
    if (binary){
        if (data.size() < 15) return "binary sparse file shorter than its header";
        int h[3]; std::memcpy(h, data.data() + 3, 12);
        s.rows = h[0]; s.cols = h[1]; s.nnz = h[2];
        if (s.rows < 0 || s.cols < 0 || s.nnz < 0) return "negative size";
        size_t need = 15 + 4 * (size_t)(s.rows + 1) + 4 * (size_t) s.nnz + 8 * (size_t) s.nnz;
        if (data.size() != need) return "binary sparse file has " + std::to_string(data.size()) + " bytes, header announces " + std::to_string(need);
        s.pntr.resize((size_t) s.rows + 1); s.indx.resize((size_t) s.nnz); s.vals.resize((size_t) s.nnz);
        const char *p = data.data() + 15;
        std::memcpy(s.pntr.data(), p, 4 * s.pntr.size()); p += 4 * s.pntr.size();
        if (s.nnz){ std::memcpy(s.indx.data(), p, 4 * s.indx.size()); p += 4 * s.indx.size(); std::memcpy(s.vals.data(), p, 8 * s.vals.size()); }
        return "";
    }
    Tok tk(data);
    if (tk.t.size() < 3) return "fewer than three header tokens";
    if (!to_long(tk.t[0], s.rows) || !to_long(tk.t[1], s.cols) || !to_long(tk.t[2], s.nnz)) return "sparse header is not three integers";
    if (s.rows < 0 || s.cols < 0 || s.nnz < 0) return "negative size";
    size_t need = 3 + (size_t)(s.rows + 1) + 2 * (size_t) s.nnz;
    if (tk.t.size() != need) return "expected " + std::to_string(need) + " tokens, found " + std::to_string(tk.t.size());
    size_t k = 3;
    s.pntr.resize((size_t) s.rows + 1); s.indx.resize((size_t) s.nnz); s.vals.resize((size_t) s.nnz);
    for(auto &x : s.pntr){ long v; if (!to_long(tk.t[k++], v)) return "pntr entry is not an integer"; x = (int) v; }
    for(auto &x : s.indx){ long v; if (!to_long(tk.t[k++], v)) return "indx entry is not an integer"; x = (int) v; }
    for(auto &x : s.vals){ if (!to_double(tk.t[k++], x)) return "value is not a number"; }
    return "";
}

// returns "" when equal; vector_like accepts the transposed shape of a single row / column
std::string diff_dense(Mat const &tool, Mat const &api, bool vector_like){
    bool shape_ok = (tool.rows == api.rows && tool.cols == api.cols);
    if (!shape_ok && vector_like && (api.rows == 1 || api.cols == 1) && tool.rows == api.cols && tool.cols == api.rows) shape_ok = true;
    if (!shape_ok && tool.rows * tool.cols == 0 && api.rows * api.cols == 0 && tool.rows == api.rows) shape_ok = true; // 0 x d
    if (!shape_ok) return "shape: tool " + std::to_string(tool.rows) + "x" + std::to_string(tool.cols) + ", api " + std::to_string(api.rows) + "x" + std::to_string(api.cols);
    for(size_t i=0; i<api.v.size(); i++) if (!same_double(tool.v[i], api.v[i])){
        return "entry " + std::to_string(i) + " (row " + std::to_string(api.cols ? i / (size_t) api.cols : 0) + ", col " + std::to_string(api.cols ? i % (size_t) api.cols : 0) +
               "): tool " + jnum(tool.v[i]) + ", api " + jnum(api.v[i]);
    }
    return "";
}
std::string diff_sparse(Sparse const &tool, Sparse const &api){
    if (tool.rows != api.rows || tool.cols != api.cols || tool.nnz != api.nnz)
        return "shape: tool " + std::to_string(tool.rows) + "x" + std::to_string(tool.cols) + " nnz " + std::to_string(tool.nnz) + ", api " +
               std::to_string(api.rows) + "x" + std::to_string(api.cols) + " nnz " + std::to_string(api.nnz);
    if (tool.pntr != api.pntr) return "pntr differs";
    if (tool.indx != api.indx) return "indx differs";
    for(size_t i=0; i<api.vals.size(); i++) if (!same_double(tool.vals[i], api.vals[i])) return "value " + std::to_string(i) + ": tool " + jnum(tool.vals[i]) + ", api " + jnum(api.vals[i]);
    return "";
}

void rm_rf(std::string const &dir){
    DIR *d = opendir(dir.c_str());
    if (d){
        while (struct dirent *e = readdir(d)){
            std::string n = e->d_name;
            if (n == "." || n == "..") continue;
            std::string p = dir + "/" + n;
            struct stat st;
            if (lstat(p.c_str(), &st) == 0 && S_ISDIR(st.st_mode)) rm_rf(p); else unlink(p.c_str());
        }
        closedir(d);
    }
    rmdir(dir.c_str());
}

// ------------------------------------------------------------------------------------------------
// running the tool
// ------------------------------------------------------------------------------------------------
struct ToolRes{
    bool spawned = false, exited = false, signaled = false, timeout = false;
    int code = -1, sig = 0;
    std::string out, err;
};
ToolRes run_tool(std::string const &tool, std::vector<std::string> const &args, std::string const &dir, int stepno, int timeout_s){
    ToolRes r;
    std::string fo = dir + "/stdout_" + std::to_string(stepno) + ".txt", fe = dir + "/stderr_" + std::to_string(stepno) + ".txt";
    std::vector<char*> argv;
    argv.push_back(const_cast<char*>(tool.c_str()));
    for(auto const &a : args) argv.push_back(const_cast<char*>(a.c_str()));
    argv.push_back(nullptr);
    posix_spawn_file_actions_t fa;
    posix_spawn_file_actions_init(&fa);
    posix_spawn_file_actions_addopen(&fa, 0, "/dev/null", O_RDONLY, 0);
    posix_spawn_file_actions_addopen(&fa, 1, fo.c_str(), O_WRONLY | O_CREAT | O_TRUNC, 0644);
    posix_spawn_file_actions_addopen(&fa, 2, fe.c_str(), O_WRONLY | O_CREAT | O_TRUNC, 0644);
    pid_t pid = 0;
    int rc = posix_spawn(&pid, tool.c_str(), &fa, nullptr, argv.data(), environ);
    posix_spawn_file_actions_destroy(&fa);
    if (rc != 0) return r;
    r.spawned = true;
    int status = 0;
    long waited_us = 0;
    while (true){
        pid_t w = waitpid(pid, &status, WNOHANG);
        if (w == pid) break;
        if (w < 0 && errno != EINTR) break;
        long nap = (waited_us < 20000) ? 500 : 5000;
        usleep((useconds_t) nap); waited_us += nap;
        if (waited_us > 1000000L * timeout_s){ r.timeout = true; kill(pid, SIGKILL); waitpid(pid, &status, 0); break; }
    }
    if (WIFEXITED(status)){ r.exited = true; r.code = WEXITSTATUS(status); }
    if (WIFSIGNALED(status)){ r.signaled = true; r.sig = WTERMSIG(status); }
    slurp(fo, r.out); slurp(fe, r.err);
    return r;
}

// "tasgrid -help" documents the commands, the options and their shorthands: parsed once per process
std::map<std::string, std::vector<std::string>> const& help_map(std::string const &tool, std::string const &dir){
    static std::map<std::string, std::vector<std::string>> m;
    static bool done = false;
    if (done) return m;
    done = true;
    ToolRes t = run_tool(tool, {"-help"}, dir, 0, 60);
    std::istringstream ss(t.out); std::string line;
    while (std::getline(ss, line)){
        if (line.size() < 3 || line[0] != ' ' || line[1] != '-') continue;
        Tok tk(line);
        if (tk.t.size() < 2 || tk.t[1][0] != '-') continue;
        std::string sh = tk.t[1]; size_t a = 0;
        while (a <= sh.size()){
            size_t b = sh.find(',', a); if (b == std::string::npos) b = sh.size();
            std::string one = sh.substr(a, b - a);
            if (one.size() > 1 && one[0] == '-' && one != tk.t[0]) m[tk.t[0]].push_back(one);
            a = b + 1;
        }
    }
    return m;
}
// stable class of a death by signal: sanitizer kind / exception type + first frame inside the library or tool sources
std::string abort_class(ToolRes const &t){
    std::string const &e = t.err;
    std::string kind;
    size_t p;
    if ((p = e.find("terminate called after throwing an instance of '")) != std::string::npos){
        size_t q = p + 48; kind = "uncaught-" + e.substr(q, e.find('\'', q) - q);
    }else if ((p = e.find("runtime error: ")) != std::string::npos){
        std::string msg = e.substr(p + 15, e.find('\n', p) - p - 15), cl;
        int words = 0;
        for(char ch : msg){ if (ch == ' '){ if (++words >= 4) break; cl += '-'; } else if (isalpha((unsigned char) ch)) cl += ch; }
        kind = "ubsan-" + cl;
    }else if ((p = e.find("ERROR: AddressSanitizer: ")) != std::string::npos){
        size_t q = p + 25, z = q; while (z < e.size() && (isalnum((unsigned char) e[z]) || e[z] == '-' || e[z] == '_')) z++;
        kind = "asan-" + e.substr(q, z - q);
    }else kind = "signal-" + std::to_string(t.sig);
    std::string fn; int nf = 0;
    size_t pos = 0;
    while (nf < 2 && (pos = e.find(" in ", pos)) != std::string::npos){
        size_t eol = e.find('\n', pos); std::string line = e.substr(pos + 4, eol - pos - 4);
        pos += 4;
        if (line.find("/SparseGrids/") == std::string::npos && line.find("/Tasgrid/") == std::string::npos && line.find("/Addons/") == std::string::npos) continue;
        // function name: drop template arguments, cut at the argument list, keep the last blank separated token
        std::string f; int depth = 0;
        for(char ch : line){
            if (ch == '<'){ depth++; continue; } if (ch == '>'){ if (depth > 0) depth--; continue; }
            if (depth > 0) continue;
            if (ch == '(') break;
            f += ch;
        }
        while (!f.empty() && f.back() == ' ') f.pop_back();
        size_t sp = f.rfind(' '); if (sp != std::string::npos) f = f.substr(sp + 1);
        size_t sl = line.rfind('/'); std::string file = (sl == std::string::npos) ? "" : line.substr(sl + 1, line.find(':', sl) - sl - 1);
        std::string one = f + "@" + file;
        if (fn.find(one) != std::string::npos) continue;
        fn += (fn.empty() ? "" : "<-") + one; nf++;
    }
    return kind + (fn.empty() ? "" : ":" + fn);
}
// stable class of a rejection message: first ERROR line with digits, paths and quotes removed
std::string error_class(ToolRes const &t){
    std::string all = t.err + "\n" + t.out;
    size_t p = all.find("ERROR");
    if (p == std::string::npos) return "no-error-message";
    std::string line = all.substr(p, all.find('\n', p) - p), cl;
    bool in_path = false; int words = 0;
    for(char ch : line){
        if (ch == '/') in_path = true;
        if (ch == ' '){ in_path = false; if (!cl.empty() && cl.back() != '-'){ cl += '-'; if (++words >= 9) break; } continue; }
        if (in_path) continue;
        if (isalpha((unsigned char) ch)) cl += (char) tolower(ch);
    }
    while (!cl.empty() && cl.back() == '-') cl.pop_back();
    return cl;
}

// ------------------------------------------------------------------------------------------------
// one step of a script
// ------------------------------------------------------------------------------------------------
enum OutKind{ out_none = 0, out_dense, out_sparse, out_stdout_text, out_text_file };
struct Plan{
    std::string cmd;                 // spelling used on the command line
    std::string name;                // canonical name (keys, counters)
    std::string cls;                 // class used in outcome keys (default: name)
    std::string keyfam;              // grid family used in keys (default: family of the script's grid)
    std::vector<std::string> opts;   // options after the grid file
    bool uses_grid = true;           // command works on -gridfile
    bool creates = false;            // make* command: the grid file is an output only
    bool mutates = false;            // documented to modify the grid
    bool positional_gf = false;      // 'tasgrid -s <filename>' form
    OutKind out = out_none;
    bool vector_like = false;
    bool allow_print = true;
    bool print_complex = false;      // -print writes (re,im) pairs (Fourier coefficients)
    bool valid = true;               // the generator believes the step is valid by the documentation
    std::vector<std::string> real_opts; // real valued options whose text is not exactly representable as a float
    // performs the documented API sequence; as_float = re-run with the real valued options rounded to float (diagnosis only)
    std::function<void(TasmanianSparseGrid&, Out&, bool as_float)> api;
};

struct Script{
    CaseCtx &c; Rng &rng;
    std::string tool, dir;
    TasmanianSparseGrid G;
    std::string gft, gfa;            // grid file of the tool / of the harness
    std::string tool_grid_bytes;     // content of the tool's grid file after the last accepted grid-writing step
    bool has_grid = false, dead = false;
    int step = 0, compared = 0, rejected = 0, timeout_s = 120;
    std::vector<std::string> lines;  // command lines executed so far
    std::string ops;                 // short signature of the command sequence
    std::vector<double> candidates;  // last candidate list (API side)
    Out last;                        // output of the API side in the last compared step
    bool keep = false;

    Script(CaseCtx &cc, Rng &r) : c(cc), rng(r){}

    std::string fam() const{ return G.isGlobal() ? "global" : G.isSequence() ? "sequence" : G.isLocalPolynomial() ? "localp" : G.isWavelet() ? "wavelet" : G.isFourier() ? "fourier" : "none"; }
    std::string path(std::string const &tag){ return dir + "/" + tag + "_" + std::to_string(step); }
    std::string put(Mat const &m, std::string const &tag){
        std::string p = path(tag);
        int fmt = rng.range(0, 2);
        write_matrix(p, m, fmt);
        c.count(fmt == 1 ? "input_matrix_binary" : "input_matrix_ascii");
        return p;
    }
    std::string pick(std::initializer_list<const char*> names){ std::vector<std::string> v(names.begin(), names.end()); return rng.pick(v); }
    // spelling of a command or option: the documented long name or one of the shorthands that the tool's own help text lists for it
    std::map<std::string, std::vector<std::string>> const *help = nullptr;
    std::string sp(std::string const &long_name, std::initializer_list<const char*> extra = {}){
        std::vector<std::string> v = {long_name};
        if (help){ auto it = help->find(long_name); if (it != help->end()) v.insert(v.end(), it->second.begin(), it->second.end()); }
        for(auto e : extra) v.push_back(e);
        return rng.pick(v);
    }
    std::string script_json() const{
        std::string s = "[";
        for(size_t i=0; i<lines.size(); i++) s += (i ? "," : "") + jstr(lines[i]);
        return s + "]";
    }
    void viol(std::string const &key, J j){ j.kv("script", script_json()); c.viol(key, j.obj()); if (keep) dead = true; } // VF_KEEP=1: stop at the first violation and keep the files

    void exec(Plan &p);
};

std::string join(std::vector<std::string> const &a){
    std::string s;
    for(auto const &x : a){ bool q = x.find(' ') != std::string::npos; s += (s.empty() ? "" : " ") + (q ? "'" + x + "'" : x); }
    return s;
}


// a command that does not change the grid may still re-write the file in the other format: compare through the format of the previous content
bool same_grid_content(std::string const &file, std::string const &prev_bytes, std::string const &scratch){
    try{
        TasmanianSparseGrid T; T.read(file.c_str());
        bool prev_ascii = (prev_bytes.compare(0, 9, "TASMANIAN") == 0);
        T.write(scratch.c_str(), prev_ascii ? mode_ascii : mode_binary);
        std::string b; return slurp(scratch, b) && b == prev_bytes;
    }catch(std::exception &){ return false; }
}

void Script::exec(Plan &p){
    step++;
    auto fam = [&]()->std::string{ return p.keyfam.empty() ? this->fam() : p.keyfam; };
    bool ascii = rng.coin(0.5);
    bool want_file = (p.out == out_dense || p.out == out_sparse || p.out == out_text_file);
    bool use_print = false;
    if ((p.out == out_dense || p.out == out_sparse) && p.allow_print){
        double u = rng.uni();
        if (u < 0.12){ use_print = true; want_file = false; } else if (u < 0.22) use_print = true;
    }
    if (p.out == out_text_file && rng.coin(0.2)) use_print = true;
    std::string of = path("out");
    std::vector<std::string> args;
    args.push_back(p.cmd);
    if (p.uses_grid || p.creates){
        if (p.positional_gf) args.push_back(gft); else{ args.push_back(sp("-gridfile")); args.push_back(gft); }
    }
    for(auto const &o : p.opts) args.push_back(o);
    if (want_file){ args.push_back(sp("-outputfile")); args.push_back(of); }
    if (use_print) args.push_back(sp("-print"));
    if (ascii) args.push_back("-ascii");
    // shuffle nothing: option order is irrelevant to the parser except for repeated options, which are not generated
    std::string line = "tasgrid " + join(args);
    { // make the paths short in the log
        size_t q; while ((q = line.find(dir + "/")) != std::string::npos) line.erase(q, dir.size() + 1);
    }
    lines.push_back(line);
    if (getenv("VF_TRACE")) fprintf(stderr, "[c16 %lld.%d] %s\n", c.index, step, line.c_str());
    c.count("cmd:" + p.name);
    c.count("tool_invocations");

    ToolRes t = run_tool(tool, args, dir, step, timeout_s);
    if (!t.spawned){ c.inconc("cannot-spawn-tasgrid"); dead = true; return; }

    auto run_api = [&](TasmanianSparseGrid &g, Out &o, bool as_float, std::string &what)->std::string{
        try{ p.api(g, o, as_float); }catch(std::exception &e){ what = e.what(); return exception_class(e); }
        return "";
    };

    if (t.timeout){
        viol("tool-hang:" + p.name + ":" + fam(), J().i("step", step).i("timeout_s", timeout_s));
        dead = true; return;
    }
    if (t.signaled){
        // what would the API do?  (on a copy: the state of the script is lost anyway)
        std::string what, ex;
        { TasmanianSparseGrid copy; if (has_grid && !p.creates) copy.copyGrid(G); Out o; ex = run_api(copy, o, false, what); }
        std::string cls = abort_class(t);
        if (!ex.empty() && cls.compare(0, 9, "uncaught-") == 0){
            // the library call itself throws: the tool turns a documented exception into std::terminate; counted, not a C16 violation
            c.count("tool_terminate_on_api_exception:" + p.name);
            c.count(p.valid ? "both_reject" : "both_reject_misuse_step");
            rejected++;
            // the grid file must be untouched
            std::string now;
            if (has_grid && p.uses_grid && !p.creates && slurp(gft, now) && now != tool_grid_bytes){
                if (same_grid_content(gft, tool_grid_bytes, path("scratch_grid"))){ c.count("grid_file_rewritten_by_rejected_step:" + p.name); tool_grid_bytes = now; }
                else viol("rejected-step-modified-grid:" + p.name, J().i("step", step));
            }
            return;
        }
        // sanitizer reports are keyed by the report site, uncaught exceptions by the command that let them escape
        std::string key = (cls.compare(0, 9, "uncaught-") == 0) ? "tool-abort:" + p.name + ":" + fam() + ":" + cls : "tool-abort:" + cls;
        viol(key, J().str("command", p.name).str("family", fam()).i("step", step).i("signal", t.sig).str("api_side", ex.empty() ? "accepts" : ex + ": " + what).str("stderr", t.err.substr(0, 1500)));
        dead = true; return;
    }
    if (t.code != 0){
        rejected++;
        c.count("tool_rejected:" + p.name);
        std::string what, ex;
        { TasmanianSparseGrid copy; if (has_grid && !p.creates) copy.copyGrid(G); Out o; ex = run_api(copy, o, false, what); }
        if (!ex.empty()) c.count(p.valid ? "both_reject" : "both_reject_misuse_step");
        if (ex.empty()){
            std::string ec = error_class(t); // the tool's own message is the class; the command only when there is no message
            viol("outcome:tool-rejects-api-accepts:" + ((ec == "no-error-message") ? ec + ":" + p.name : ec), J().i("step", step).i("exit", t.code).str("stderr", t.err.substr(0, 600)).str("stdout", t.out.substr(0, 200)).b("generator_says_valid", p.valid).str("command", p.name));
        }
        std::string now;
        if (has_grid && p.uses_grid && !p.creates && slurp(gft, now) && now != tool_grid_bytes){
            if (same_grid_content(gft, tool_grid_bytes, path("scratch_grid"))){ c.count("grid_file_rewritten_by_rejected_step:" + p.name); tool_grid_bytes = now; }
            else viol("rejected-step-modified-grid:" + p.name, J().i("step", step));
        }
        if (p.creates && !has_grid && file_exists(gft)){ viol("rejected-step-wrote-grid:" + p.name, J().i("step", step)); }
        return;
    }

    // the tool accepted: now the API side, on the real object
    TasmanianSparseGrid pre;
    bool have_pre = false;
    if (!p.real_opts.empty() && has_grid && !p.creates){ pre.copyGrid(G); have_pre = true; }
    Out o; std::string what;
    std::string ex = run_api(G, o, false, what);
    if (!ex.empty()){
        viol("outcome:tool-accepts-api-throws:" + p.name + ":" + fam() + ":" + ex, J().i("step", step).str("what", what).str("stderr", t.err.substr(0, 400)));
        dead = true; return;
    }
    if (t.out.find("ERROR") != std::string::npos || t.err.find("ERROR") != std::string::npos)
        viol("exit-zero-with-error-message:" + p.name, J().i("step", step).str("stderr", t.err.substr(0, 400)).str("stdout", t.out.substr(0, 200)));
    compared++;
    last = o;
    c.count("steps_compared");
    ops += p.name.substr(0, 4) + (ascii ? "a" : "b") + ".";

    // ---- outputs ----
    bool out_bad = false; std::string out_detail, out_channel;
    Mat tool_m; bool have_tool_m = false;
    auto note = [&](std::string const &channel, std::string const &d){ if (!out_bad){ out_bad = true; out_detail = d; out_channel = channel; } };
    if (p.out == out_dense || p.out == out_sparse){
        if (want_file){
            std::string data;
            if (!slurp(of, data)) note("file", "the tool wrote no output file");
            else{
                bool bin = false; std::string e;
                if (p.out == out_dense){ Mat m; e = parse_dense(data, m, bin); if (e.empty()){ e = diff_dense(m, o.m, p.vector_like); tool_m = m; have_tool_m = true; } }
                else{ Sparse s; e = parse_sparse(data, s, bin); if (e.empty()) e = diff_sparse(s, o.sp); }
                if (bin == ascii) note("file", std::string("output file is ") + (bin ? "binary" : "ASCII") + " but -ascii was " + (ascii ? "given" : "not given"));
                if (!e.empty()) note(bin ? "file-binary" : "file-ascii", e);
                c.count(bin ? "matrix_compared_binary" : "matrix_compared_ascii");
            }
        }
        if (use_print){
            std::string e;
            if (p.out == out_dense){ Mat m; e = p.print_complex ? parse_complex_text(t.out, m) : parse_dense_text(t.out, m); if (p.print_complex) c.count("complex_matrix_compared_stdout"); if (e.empty()){ e = diff_dense(m, o.m, p.vector_like); if (!have_tool_m){ tool_m = m; have_tool_m = true; } } }
            else{ Sparse s; bool b; e = parse_sparse(t.out, s, b); if (e.empty()) e = diff_sparse(s, o.sp); }
            if (!e.empty()) note("stdout", e);
            c.count("matrix_compared_stdout");
        }
    }else if (p.out == out_stdout_text){
        if (t.out != o.text) note("stdout", "text differs: tool " + jstr(t.out.substr(0, 300)) + " api " + jstr(o.text.substr(0, 300)));
        c.count("text_compared_stdout");
    }else if (p.out == out_text_file){
        std::string data;
        if (!slurp(of, data)) note("file", "the tool wrote no output file");
        else if (data != o.text){
            size_t k = 0; while (k < data.size() && k < o.text.size() && data[k] == o.text[k]) k++;
            note("file-text", "text files differ at byte " + std::to_string(k) + " (sizes " + std::to_string(data.size()) + " / " + std::to_string(o.text.size()) + ")");
        }
        if (use_print && t.out != o.text) note("stdout", "printed text differs from the API text");
        c.count("text_compared_file");
    }

    // ---- grid file ----
    bool grid_bad = false; std::string grid_detail;
    if (p.creates || p.mutates){
        if (p.creates || p.uses_grid){
            std::string tb, ab;
            G.write(gfa.c_str(), ascii ? mode_ascii : mode_binary);
            if (!slurp(gft, tb)){ grid_bad = true; grid_detail = "the tool wrote no grid file"; }
            else{
                slurp(gfa, ab);
                c.count(ascii ? "grid_compared_ascii" : "grid_compared_binary");
                if (tb != ab){
                    grid_bad = true;
                    size_t k = 0; while (k < tb.size() && k < ab.size() && tb[k] == ab[k]) k++;
                    grid_detail = "first differing byte " + std::to_string(k) + " (sizes tool " + std::to_string(tb.size()) + ", api " + std::to_string(ab.size()) + ")";
                    try{
                        TasmanianSparseGrid T; T.read(gft.c_str());
                        grid_detail += "; tool file: " + std::to_string(T.getNumLoaded()) + " loaded, " + std::to_string(T.getNumNeeded()) + " needed; api: " +
                                       std::to_string(G.getNumLoaded()) + " loaded, " + std::to_string(G.getNumNeeded()) + " needed";
                        try{
                            ObsOpts oo; oo.heavy = false; oo.probes = false;
                            grid_detail += "; first differing observation: " + obs_diff(observe(T, oo), observe(G, oo));
                        }catch(std::exception &){}
                    }catch(std::exception &e){ grid_detail += std::string("; tool file unreadable: ") + e.what(); }
                }
                tool_grid_bytes = tb;
                has_grid = true;
            }
        }
    }else if (p.uses_grid && has_grid){
        std::string now;
        if (!slurp(gft, now) || now != tool_grid_bytes){
            if (same_grid_content(gft, tool_grid_bytes, path("scratch_grid"))) c.count("grid_file_rewritten_by_const_command:" + p.name);
            else viol("const-command-modified-grid:" + p.name, J().i("step", step));
            tool_grid_bytes = now;
        }
    }

    if (out_bad && !grid_bad && p.out == out_dense && have_tool_m && !p.creates && !p.mutates && p.uses_grid && tool_m.v.size() == o.m.v.size()){
        // diagnosis: the tool works on an object that was read from the file, the API object has lived in memory since the script began.
        // Does an API object that went through write/read give exactly the tool's numbers?  Then the tool is faithful and the difference is the
        // library's (history dependent rounding: tolerated and counted; anything larger: reported under its own key).
        try{
            std::string sf = path("scratch_reload");
            G.write(sf.c_str(), mode_binary);
            TasmanianSparseGrid R; R.read(sf.c_str());
            Out o3; p.api(R, o3, false);
            if (diff_dense(tool_m, o3.m, p.vector_like).empty()){
                double scale = 0.0, worst = 0.0;
                for(double x : o.m.v) if (std::isfinite(x)) scale = std::max(scale, std::fabs(x));
                for(size_t i=0; i<o.m.v.size(); i++) if (!same_double(tool_m.v[i], o.m.v[i])) worst = std::max(worst, std::fabs(tool_m.v[i] - o.m.v[i]));
                if (worst <= 1e-11 * std::max(scale, 1e-300)){
                    out_bad = false;
                    c.count("rounding_only_memory_vs_reloaded_object:" + p.name);
                    c.counters["max_rounding_memory_vs_reloaded_e18"] = std::max(c.counters["max_rounding_memory_vs_reloaded_e18"], (long long)(1e18 * worst / std::max(scale, 1e-300)));
                }else{
                    out_bad = false;
                    viol("output-differs-only-after-write-read:" + p.name + ":" + fam(), J().i("step", step).str("detail", out_detail).num("max_abs_diff", worst).num("scale", scale));
                }
            }
        }catch(std::exception &){}
    }
    if (out_bad || grid_bad){
        // diagnosis: real valued options are documented as <float>; does rounding them to float explain the difference?
        std::string suffix;
        if (!p.real_opts.empty()){
            try{
                TasmanianSparseGrid alt; if (have_pre) alt.copyGrid(pre);
                Out o2; p.api(alt, o2, true);
                bool explains = true;
                if (out_bad){
                    if (p.out == out_dense){ std::string data; Mat m; bool b; explains = false;
                        if (want_file && slurp(of, data) && parse_dense(data, m, b).empty()) explains = diff_dense(m, o2.m, p.vector_like).empty();
                        else if (use_print && parse_dense_text(t.out, m).empty()) explains = diff_dense(m, o2.m, p.vector_like).empty(); }
                    else if (p.out == out_text_file){ std::string data; explains = slurp(of, data) && data == o2.text; }
                    else explains = false;
                }
                if (grid_bad && explains){
                    std::string alt_file = path("alt_grid"), ab, tb;
                    alt.write(alt_file.c_str(), ascii ? mode_ascii : mode_binary);
                    explains = slurp(alt_file, ab) && slurp(gft, tb) && ab == tb;
                }
                if (explains){ suffix = "real-option-parsed-as-float:" + p.real_opts[0]; }
            }catch(std::exception &){}
        }
        if (!suffix.empty()){
            viol(suffix + ":" + p.name, J().i("step", step).str("output", out_detail).str("grid", grid_detail));
        }else{
            if (out_bad) viol("output-differs:" + p.name + ":" + fam(), J().i("step", step).str("channel", out_channel).str("detail", out_detail));
            if (grid_bad) viol("grid-file-differs:" + p.name + ":" + fam(), J().i("step", step).str("format", ascii ? "ascii" : "binary").str("detail", grid_detail));
        }
        if (grid_bad){
            // re-synchronise so that later steps look for independent differences
            try{ G.read(gft.c_str()); }catch(std::exception &){ dead = true; }
        }
    }
}

// ------------------------------------------------------------------------------------------------
// helpers shared by the plans
// ------------------------------------------------------------------------------------------------
std::string num17(double v){ char b[48]; snprintf(b, sizeof(b), "%.17g", v); return b; }
bool float_exact(double v){ return (double)(float) v == v; }
double fl(double v, bool as_float){ return as_float ? (double)(float) v : v; }
Mat row_of_ints(std::vector<int> const &v){ Mat m(1, (long) v.size()); for(size_t i=0; i<v.size(); i++) m.v[i] = (double) v[i]; return m; }

std::vector<double> x_points(TasmanianSparseGrid const &g, Rng &rng, int n){
    int d = g.getNumDimensions();
    std::vector<double> x = probe_points(g, n, rng.next());
    if (g.getNumPoints() > 0 && rng.coin(0.3)){ // one of the rows is a grid node
        auto pts = g.getPoints();
        int i = rng.range(0, g.getNumPoints() - 1), r = rng.range(0, n - 1);
        for(int j=0; j<d; j++) x[(size_t) r * (size_t) d + (size_t) j] = pts[(size_t) i * (size_t) d + (size_t) j];
    }
    return x;
}
std::vector<double> model_vals(std::vector<double> const &pts, int d, int m, int gen, int mode){ return tagged_values(pts, d, m, gen, mode); }

int max_index(TasmanianSparseGrid const &g){
    if (g.getNumPoints() == 0) return 0;
    const int *idx = g.getPointsIndexes(); int mx = 0;
    for(size_t q=0; q<(size_t) g.getNumPoints() * (size_t) g.getNumDimensions(); q++) mx = std::max(mx, idx[q]);
    return mx;
}

void api_make(TasmanianSparseGrid &g, Cfg const &cf, bool as_float){
    // the command line passes -alpha / -beta only for the rules that use them; the others get the default 0
    double a = (cf.family == fam_global && !cf.custom && uses_alpha(cf.rule)) ? fl(cf.alpha, as_float) : 0.0;
    double b = (cf.family == fam_global && !cf.custom && uses_beta(cf.rule)) ? fl(cf.beta, as_float) : 0.0;
    switch(cf.family){
        case fam_global: g.makeGlobalGrid(cf.dims, cf.outs, cf.depth, cf.type, cf.custom ? rule_customtabulated : cf.rule, cf.aw, a, b, cf.custom ? cf.custom_file.c_str() : nullptr, cf.limits); break;
        case fam_sequence: g.makeSequenceGrid(cf.dims, cf.outs, cf.depth, cf.type, cf.rule, cf.aw, cf.limits); break;
        case fam_localp: g.makeLocalPolynomialGrid(cf.dims, cf.outs, cf.depth, cf.order, cf.rule, cf.limits); break;
        case fam_wavelet: g.makeWaveletGrid(cf.dims, cf.outs, cf.depth, cf.order, cf.limits); break;
        default: g.makeFourierGrid(cf.dims, cf.outs, cf.depth, cf.type, cf.aw, cf.limits); break;
    }
    if (!cf.ta.empty()) g.setDomainTransform(cf.ta, cf.tb);
    if (!cf.conformal.empty()) g.setConformalTransformASIN(cf.conformal);
}
Mat points_matrix(TasmanianSparseGrid const &g, std::vector<double> pts){ int d = g.getNumDimensions(); long n = (long)(pts.size() / (size_t) d); return Mat(n, d, std::move(pts)); }
Mat quadrature_matrix(TasmanianSparseGrid const &g){
    int d = g.getNumDimensions(), n = g.getNumPoints();
    auto w = g.getQuadratureWeights(); auto x = g.getPoints();
    Mat m(n, d + 1);
    for(int i=0; i<n; i++){ m.v[(size_t) i * (size_t)(d + 1)] = w[(size_t) i]; for(int j=0; j<d; j++) m.v[(size_t) i * (size_t)(d + 1) + 1 + (size_t) j] = x[(size_t) i * (size_t) d + (size_t) j]; }
    return m;
}

// options of the make commands / make quadrature for a configuration
void make_options(Script &s, Cfg const &cf, Plan &p, bool quadrature){
    auto &o = p.opts;
    o.push_back(s.sp("-dimensions")); o.push_back(std::to_string(cf.dims));
    if (!quadrature){ o.push_back(s.sp("-outputs")); o.push_back(std::to_string(cf.outs)); }
    o.push_back(s.sp("-depth")); o.push_back(std::to_string(cf.depth));
    bool has_type = (cf.family == fam_global || cf.family == fam_sequence || cf.family == fam_fourier);
    if (has_type){ o.push_back(s.sp("-type")); o.push_back(tname(cf.type)); }
    if (cf.family == fam_localp || cf.family == fam_wavelet){ o.push_back(s.sp("-order")); o.push_back(std::to_string(cf.order)); }
    if (cf.family == fam_global || cf.family == fam_sequence || cf.family == fam_localp || quadrature){
        o.push_back(s.sp("-onedim")); o.push_back(cf.custom ? "custom-tabulated" : rname(cf.rule));
    }
    if (cf.family == fam_global && !cf.custom && uses_alpha(cf.rule)){
        o.push_back("-alpha"); o.push_back(num17(cf.alpha)); if (!float_exact(cf.alpha)) p.real_opts.push_back("alpha");
        if (uses_beta(cf.rule)){ o.push_back("-beta"); o.push_back(num17(cf.beta)); if (!float_exact(cf.beta)) p.real_opts.push_back("beta"); }
    }
    if (cf.custom){ o.push_back(s.sp("-customfile")); o.push_back(cf.custom_file); }
    if (has_type && !cf.aw.empty()){ o.push_back(s.sp("-anisotropyfile")); o.push_back(s.put(row_of_ints(cf.aw), "aniso")); }
    if (!cf.ta.empty()){
        Mat m(cf.dims, 2);
        for(int j=0; j<cf.dims; j++){ m.v[(size_t)(2 * j)] = cf.ta[(size_t) j]; m.v[(size_t)(2 * j + 1)] = cf.tb[(size_t) j]; }
        o.push_back(s.sp("-transformfile")); o.push_back(s.put(m, "transform"));
    }
    if (!cf.conformal.empty()){
        o.push_back(s.sp("-conformaltype")); o.push_back("asin");
        o.push_back(s.sp("-conformalfile")); o.push_back(s.put(row_of_ints(cf.conformal), "conformal"));
    }
    if (!cf.limits.empty()){ o.push_back(s.sp("-levellimitsfile")); o.push_back(s.put(row_of_ints(cf.limits), "limits")); }
}

std::string custom_rule_into(Script &s){
    std::string f = write_custom_rule_file(8, s.rng.coin());
    std::string dst = s.dir + "/custom.table";
    rename(f.c_str(), dst.c_str());
    return dst;
}

// ------------------------------------------------------------------------------------------------
// the generator of steps
// ------------------------------------------------------------------------------------------------
static const std::vector<TypeDepth> aniso_types = {type_level, type_iptotal, type_qptotal};
static const std::vector<TypeDepth> estimate_types = {type_level, type_curved, type_iptotal, type_ipcurved, type_qptotal, type_qpcurved, type_hyperbolic, type_iphyperbolic};
static const std::vector<TypeRefinement> ref_types = {refine_classic, refine_parents_first, refine_direction_selective, refine_fds, refine_stable};

struct Gen{
    Script &s; Rng &rng; CaseCtx &c;
    int max_points;
    int gen_counter = 0;   // value generation
    int vmode = 1;         // 1 smooth, 0 hash
    bool conformal_set = false;
    int force_out = -1000;  // misuse steps: an output index outside the range
    bool drop_row = false;  // misuse steps: one row too few in the values / coefficients file
    explicit Gen(Script &sc, int mp) : s(sc), rng(sc.rng), c(sc.c), max_points(mp){}

    TasmanianSparseGrid const& G() const{ return s.G; }
    bool aniso_family() const{ return G().isGlobal() || G().isSequence() || G().isFourier(); }
    bool nested() const{ return !G().isGlobal() || !OneDimensionalMeta::isNonNested(G().getRule()); }

    Plan make_plan(Cfg const &cf){
        Plan p;
        static const char *longn[] = {"-makeglobal", "-makesequence", "-makelocalpoly", "-makewavelet", "-makefourier"};
        static const char *canon[] = {"makeglobal", "makesequence", "makelocalpoly", "makewavelet", "makefourier"};
        p.cmd = s.sp(longn[cf.family]); p.name = canon[cf.family]; p.cls = "make";
        p.creates = true; p.uses_grid = false; p.mutates = true; p.out = out_dense;
        make_options(s, cf, p, false);
        p.keyfam = fam_name(cf.family);
        p.api = [cf](TasmanianSparseGrid &g, Out &o, bool as_float){ api_make(g, cf, as_float); o.m = points_matrix(g, g.getPoints()); };
        return p;
    }
    Plan quadrature_plan(Cfg const &cf){
        Plan p;
        p.cmd = s.sp("-makequadrature"); p.name = "makequadrature";
        p.creates = false; p.uses_grid = false; p.mutates = false; p.out = out_dense;
        make_options(s, cf, p, true);
        p.keyfam = fam_name(cf.family);
        p.api = [cf](TasmanianSparseGrid &, Out &o, bool as_float){
            // "Make quadrature creates a grid with zero outputs and type that is based on the one dimensional rule"
            TasmanianSparseGrid q; Cfg z = cf; z.outs = 0;
            api_make(q, z, as_float);
            o.m = quadrature_matrix(q);
        };
        return p;
    }

    // ----- commands on an existing grid -----
    Plan simple_const(std::string name, std::initializer_list<const char*> spell, std::function<void(TasmanianSparseGrid&, Out&)> f, OutKind out = out_dense){
        Plan p; p.name = name; p.cmd = s.sp(*spell.begin()); p.out = out;
        p.api = [f](TasmanianSparseGrid &g, Out &o, bool){ f(g, o); };
        return p;
    }
    Plan getpoints(){ return simple_const("getpoints", {"-getpoints", "-gp"}, [](TasmanianSparseGrid &g, Out &o){ o.m = points_matrix(g, g.getPoints()); }); }
    Plan getneeded(){
        // -getneededpoints is the name in the help text and in InterfaceCLI.md, -getneeded the one the MATLAB interface uses
        Plan p = simple_const("getneeded", {"-getneededpoints"}, [](TasmanianSparseGrid &g, Out &o){ o.m = points_matrix(g, g.getNeededPoints()); });
        if (rng.coin(0.4)) p.cmd = "-getneeded";
        return p;
    }
    Plan getquadrature(){ return simple_const("getquadrature", {"-getquadrature", "-gq"}, [](TasmanianSparseGrid &g, Out &o){ o.m = quadrature_matrix(g); }); }
    Plan gethsupport(){ return simple_const("gethsupport", {"-gethsupport", "-ghsup"}, [](TasmanianSparseGrid &g, Out &o){ o.m = points_matrix(g, g.getHierarchicalSupport()); }); }
    Plan getindexes(bool needed){
        return simple_const(needed ? "getneededindexes" : "getpointsindexes", {needed ? "-getneededindexes" : "-getpointsindexes"}, [needed](TasmanianSparseGrid &g, Out &o){
            int n = needed ? g.getNumNeeded() : g.getNumPoints(), d = g.getNumDimensions();
            o.m = Mat(n, d);
            if (n > 0){ const int *p = needed ? g.getNeededIndexes() : g.getPointsIndexes(); for(size_t i=0; i<o.m.v.size(); i++) o.m.v[i] = (double) p[i]; }
        });
    }
    Plan summary(){
        Plan p = simple_const("summary", {"-summary", "-s"}, [](TasmanianSparseGrid &g, Out &o){ std::ostringstream ss; g.printStats(ss); o.text = ss.str(); }, out_stdout_text);
        p.positional_gf = rng.coin(0.4);
        return p;
    }
    Plan using_construct(){
        Plan p = simple_const("using-construct", {"-using-construct"}, [](TasmanianSparseGrid &g, Out &o){
            o.text = std::string("dynamic construction: ") + (g.isUsingConstruction() ? "enabled" : "disabled") + "\n"; }, out_stdout_text);
        p.positional_gf = rng.coin(0.4);
        return p;
    }
    Plan integrate(){
        Plan p = simple_const("integrate", {"-integrate", "-i"}, [](TasmanianSparseGrid &g, Out &o){ auto q = g.integrate(); o.m = Mat((long) q.size(), 1, q); });
        p.vector_like = true; return p;
    }
    Plan getcoefficients(){
        Plan p = simple_const("getcoefficients", {"-getcoefficients", "-gc"}, [](TasmanianSparseGrid &g, Out &o){
            int n = g.getNumLoaded(), m = g.getNumOutputs();
            const double *cf = g.getHierarchicalCoefficients();
            if (g.isFourier()){
                // InterfaceCLI.md: "each pair of consecutive numbers correspond to one complex number"; the API stores the real block first
                o.m = Mat(n, 2 * m);
                for(int i=0; i<n; i++) for(int k=0; k<m; k++){
                    o.m.v[(size_t) i * (size_t)(2 * m) + (size_t)(2 * k)] = cf[(size_t) i * (size_t) m + (size_t) k];
                    o.m.v[(size_t) i * (size_t)(2 * m) + (size_t)(2 * k + 1)] = cf[(size_t)(n + i) * (size_t) m + (size_t) k];
                }
            }else o.m = Mat(n, m, std::vector<double>(cf, cf + (size_t) n * (size_t) m));
        });
        if (G().isFourier()) p.print_complex = true; // complex numbers are printed in the (re,im) notation of iostream
        return p;
    }
    Plan getpoly(){
        static const std::vector<TypeDepth> ts = {type_iptotal, type_qptotal, type_ipcurved, type_qpcurved, type_iptensor, type_qptensor, type_iphyperbolic, type_qphyperbolic};
        TypeDepth t = rng.pick(ts);
        bool interp = (tname(t)[0] == 'i');
        Plan p = simple_const("getpoly", {"-getpoly"}, [interp](TasmanianSparseGrid &g, Out &o){
            auto v = g.getGlobalPolynomialSpace(interp); int d = g.getNumDimensions();
            o.m = Mat((long)(v.size() / (size_t) d), d); for(size_t i=0; i<v.size(); i++) o.m.v[i] = (double) v[i]; });
        p.opts = {s.sp("-type"), tname(t)};
        return p;
    }
    Plan getanisotropy(){
        TypeDepth t = rng.pick(estimate_types);
        int m = G().getNumOutputs();
        int out = G().isGlobal() ? rng.range(0, m - 1) : rng.range(-1, m - 1);
        bool pass_out = G().isGlobal() || out != -1 || rng.coin();
        Plan p = simple_const("getanisotropy", {"-getanisotropy", "-ga"}, [t, out](TasmanianSparseGrid &g, Out &o){
            auto w = g.estimateAnisotropicCoefficients(t, out); o.m = Mat((long) w.size(), 1); for(size_t i=0; i<w.size(); i++) o.m.v[i] = (double) w[i]; });
        p.vector_like = true;
        p.opts = {s.sp("-type"), tname(t)};
        if (pass_out){ p.opts.push_back(s.sp("-refout")); p.opts.push_back(std::to_string(out)); }
        return p;
    }
    // commands that read an x file
    Plan evallike(int which){
        int n = rng.range(1, 5), d = G().getNumDimensions();
        std::vector<double> x = x_points(G(), rng, n);
        Plan p;
        static const char *names[] = {"evaluate", "differentiate", "getinterweights", "getdiffweights", "evalhierarchyd", "evalhierarchys"};
        static const char *l[] = {"-evaluate", "-differentiate", "-getinterweights", "-getdiffweights", "-evalhierarchyd", "-evalhierarchys"};
        p.name = names[which]; p.cmd = s.sp(l[which]);
        p.out = (which == 5) ? out_sparse : out_dense;
        p.opts = {s.sp("-xfile"), s.put(Mat(n, d, x), "x")};
        p.api = [which, x, n, d](TasmanianSparseGrid &g, Out &o, bool){
            int np = g.getNumPoints(), m = g.getNumOutputs();
            auto row = [&](int i){ return std::vector<double>(x.begin() + (long)((size_t) i * (size_t) d), x.begin() + (long)((size_t)(i + 1) * (size_t) d)); };
            switch(which){
                case 0:{ std::vector<double> y; g.evaluateBatch(x, y); o.m = Mat(n, m, y); break; }
                case 1:{ o.m = Mat(n, (long) m * d); for(int i=0; i<n; i++){ auto j = g.differentiate(row(i)); std::copy(j.begin(), j.end(), o.m.v.begin() + (long)((size_t) i * (size_t)(m * d))); } break; }
                case 2:{ o.m = Mat(n, np); for(int i=0; i<n; i++){ auto w = g.getInterpolationWeights(row(i)); std::copy(w.begin(), w.end(), o.m.v.begin() + (long)((size_t) i * (size_t) np)); } break; }
                case 3:{ o.m = Mat(n, (long) np * d); for(int i=0; i<n; i++){ auto w = g.getDifferentiationWeights(row(i)); std::copy(w.begin(), w.end(), o.m.v.begin() + (long)((size_t) i * (size_t)(np * d))); } break; }
                case 4:{ auto y = g.evaluateHierarchicalFunctions(x); o.m = Mat(n, (long) np * (g.isFourier() ? 2 : 1), y); break; }
                default:{ g.evaluateSparseHierarchicalFunctions(x, o.sp.pntr, o.sp.indx, o.sp.vals); o.sp.rows = n; o.sp.cols = np; o.sp.nnz = (long) o.sp.indx.size(); break; }
            }
        };
        return p;
    }
    // ----- mutating commands -----
    Plan loadvalues(){
        int d = G().getNumDimensions(), m = G().getNumOutputs();
        std::vector<double> pts = (G().getNumNeeded() > 0) ? G().getNeededPoints() : G().getLoadedPoints();
        gen_counter++;
        if (drop_row) pts.resize(pts.size() - (size_t) d);
        std::vector<double> v = model_vals(pts, d, m, gen_counter, vmode);
        Plan p; p.name = "loadvalues"; p.cmd = s.sp("-loadvalues"); p.mutates = true;
        p.opts = {s.sp("-valsfile"), s.put(Mat((long)(pts.size() / (size_t) d), m, v), "vals")};
        p.api = [v](TasmanianSparseGrid &g, Out&, bool){ g.loadNeededValues(v); };
        return p;
    }
    Plan setcoefficients(){
        int n = G().getNumPoints(), m = G().getNumOutputs();
        bool four = G().isFourier();
        Mat cm(drop_row ? n - 1 : n, (long) m * (four ? 2 : 1));
        for(auto &x : cm.v) x = rng.uni(-1.0, 1.0);
        Plan p; p.name = "setcoefficients"; p.cmd = s.sp("-setcoefficients"); p.mutates = true;
        p.opts = {s.sp("-valsfile"), s.put(cm, "coeff")};
        p.api = [cm, m, four](TasmanianSparseGrid &g, Out&, bool){
            if (!four){ g.setHierarchicalCoefficients(cm.v); return; }
            // the command line takes interleaved complex numbers (InterfaceCLI.md, tsgLoadHCoefficients.m), the API takes the real block followed by the imaginary block
            int n = (int) cm.rows;
            std::vector<double> cc((size_t) 2 * (size_t) n * (size_t) m);
            for(int i=0; i<n; i++) for(int k=0; k<m; k++){
                cc[(size_t) i * (size_t) m + (size_t) k] = cm.v[(size_t) i * (size_t)(2 * m) + (size_t)(2 * k)];
                cc[(size_t)(n + i) * (size_t) m + (size_t) k] = cm.v[(size_t) i * (size_t)(2 * m) + (size_t)(2 * k + 1)];
            }
            g.setHierarchicalCoefficients(cc);
        };
        return p;
    }
    std::vector<int> some_limits(){
        std::vector<int> l((size_t) G().getNumDimensions());
        for(auto &x : l){ x = rng.range(1, 5); if (rng.coin(0.2)) x = -1; }
        return l;
    }
    // kind: 0 -refineaniso, 1 -refinesurp, 2 -refine
    Plan refine(int kind){
        Plan p; p.mutates = true; p.out = out_dense;
        int m = G().getNumOutputs();
        bool aniso = (kind == 0) || (kind == 2 && aniso_family()); // InterfaceCLI.md: -refine is anisotropic on Global, Sequence and Fourier grids
        if (kind == 0){ p.name = "refineaniso"; p.cmd = s.sp("-refineaniso"); }
        else if (kind == 1){ p.name = "refinesurp"; p.cmd = s.sp("-refinesurp"); }
        else{ p.name = "refine"; p.cmd = s.sp("-refine"); }
        std::vector<int> limits; if (rng.coin(0.3)) limits = some_limits();
        if (aniso){
            TypeDepth t = rng.pick(aniso_types);
            int ming = rng.range(1, 8); bool pass_ming = rng.coin(0.7); if (!pass_ming) ming = 1; // "defaults to 1"
            int out = G().isGlobal() ? rng.range(0, m - 1) : rng.range(-1, m - 1);
            if (force_out != -1000) out = force_out;
            bool pass_out = G().isGlobal() || out != -1 || rng.coin(); // "for sequence grids defaults to -1"
            p.opts = {s.sp("-type"), tname(t)};
            if (pass_ming){ p.opts.push_back(s.sp("-mingrowth")); p.opts.push_back(std::to_string(ming)); }
            if (pass_out){ p.opts.push_back(s.sp("-refout")); p.opts.push_back(std::to_string(out)); }
            if (!limits.empty()){ p.opts.push_back(s.sp("-levellimitsfile")); p.opts.push_back(s.put(row_of_ints(limits), "limits")); }
            p.api = [t, ming, out, limits](TasmanianSparseGrid &g, Out &o, bool){ g.setAnisotropicRefinement(t, ming, out, limits); o.m = points_matrix(g, g.getNeededPoints()); };
        }else{
            double tol = std::pow(10.0, rng.uni(-5.0, -0.5));
            if (rng.coin(0.5)) tol = (double)(float) tol;
            if (rng.coin(0.1)) tol = 0.0;
            TypeRefinement rt = rng.pick(ref_types);
            bool local = G().isLocalPolynomial() || G().isWavelet();
            int out = (G().isGlobal()) ? rng.range(0, m - 1) : rng.range(-1, m - 1);
            bool pass_out = G().isGlobal() || out != -1 || rng.coin();
            p.opts = {s.sp("-tolerance"), num17(tol), s.sp("-reftype"), refname(rt)};
            if (!float_exact(tol)) p.real_opts.push_back("tolerance");
            if (pass_out){ p.opts.push_back(s.sp("-refout")); p.opts.push_back(std::to_string(out)); }
            if (!limits.empty()){ p.opts.push_back(s.sp("-levellimitsfile")); p.opts.push_back(s.put(row_of_ints(limits), "limits")); }
            std::vector<double> scale;
            if (G().isLocalPolynomial() && rng.coin(0.12)){
                // "one weight per active output (either 1 or getNumOutputs())", in the order of the loaded points
                int act = (out == -1) ? m : 1, n = G().getNumLoaded();
                scale.resize((size_t) n * (size_t) act);
                for(auto &x : scale) x = rng.uni(0.5, 2.0);
                p.opts.push_back(s.sp("-valsfile")); p.opts.push_back(s.put(Mat(n, act, scale), "scale"));
                p.name += "-scaled";
            }
            p.api = [tol, rt, out, limits, scale, local](TasmanianSparseGrid &g, Out &o, bool as_float){
                double tl = fl(tol, as_float);
                if (local) g.setSurplusRefinement(tl, rt, out, limits, scale);
                else g.setSurplusRefinement(tl, out, limits); // Sequence grids and Global grids with a sequence rule
                o.m = points_matrix(g, g.getNeededPoints());
            };
        }
        return p;
    }
    Plan cancelrefine(){
        Plan p; p.name = "cancelrefine"; p.cmd = s.sp("-cancelrefine"); p.mutates = true;
        // InterfaceMATLAB.md: tsgCancelRefine.m -> clearRefinement()/finishConstruction()
        p.api = [](TasmanianSparseGrid &g, Out&, bool){ g.clearRefinement(); if (g.isUsingConstruction()) g.finishConstruction(); };
        return p;
    }
    Plan mergerefine(){
        Plan p; p.name = "mergerefine"; p.cmd = s.sp("-mergerefine"); p.mutates = true;
        p.api = [](TasmanianSparseGrid &g, Out&, bool){ g.mergeRefinement(); };
        return p;
    }
    Plan update(){
        Plan p; p.name = "makeupdate"; p.cmd = s.sp("-makeupdate"); p.mutates = true;
        TypeDepth t = rng.pick(aniso_types);
        int depth = rng.range(1, 4);
        if (G().isGlobal() || G().isSequence()){ if (is_optimized_sequence(G().getRule())) depth = std::min(depth, 3); }
        std::vector<int> aw;
        if (rng.coin(0.4)){ aw.resize((size_t) G().getNumDimensions()); for(auto &w : aw) w = rng.range(1, 3); }
        p.opts = {s.sp("-depth"), std::to_string(depth), s.sp("-type"), tname(t)};
        if (!aw.empty()){ p.opts.push_back(s.sp("-anisotropyfile")); p.opts.push_back(s.put(row_of_ints(aw), "aniso")); }
        if (rng.coin(0.25)){ p.out = out_dense; p.allow_print = false; p.name = "makeupdate-of"; } // help: "-outputfile or -print output the new points of the grid"
        p.api = [depth, t, aw](TasmanianSparseGrid &g, Out &o, bool){ g.updateGrid(depth, t, aw); o.m = points_matrix(g, g.getNeededPoints()); };
        return p;
    }
    Plan setconformal(){
        Plan p; p.name = "setconformal"; p.cmd = s.sp("-setconformal"); p.mutates = true;
        std::vector<int> tr((size_t) G().getNumDimensions()); for(auto &x : tr) x = rng.range(1, 6);
        p.opts = {s.sp("-conformaltype"), "asin", s.sp("-conformalfile"), s.put(row_of_ints(tr), "conformal")};
        p.api = [tr](TasmanianSparseGrid &g, Out&, bool){ g.setConformalTransformASIN(tr); };
        return p;
    }
    Plan getconstructpnts(){
        Plan p; p.name = "getconstructpnts"; p.cmd = s.sp("-getconstructpnts"); p.mutates = true; p.out = out_dense;
        int m = G().getNumOutputs();
        std::vector<int> limits; if (rng.coin(0.3)) limits = some_limits();
        if (aniso_family()){
            TypeDepth t = rng.pick(aniso_types);
            p.opts = {s.sp("-type"), tname(t)};
            if (rng.coin(0.4)){
                std::vector<int> aw((size_t) G().getNumDimensions()); for(auto &w : aw) w = rng.range(1, 3);
                p.opts.push_back(s.sp("-anisotropyfile")); p.opts.push_back(s.put(row_of_ints(aw), "aniso"));
                p.api = [t, aw, limits](TasmanianSparseGrid &g, Out &o, bool){ if (!g.isUsingConstruction()) g.beginConstruction(); o.m = points_matrix(g, g.getCandidateConstructionPoints(t, aw, limits)); };
            }else{
                int out = G().isGlobal() ? rng.range(0, m - 1) : rng.range(-1, m - 1);
                bool pass_out = G().isGlobal() || out != -1 || rng.coin();
                if (pass_out){ p.opts.push_back(s.sp("-refout")); p.opts.push_back(std::to_string(out)); }
                p.api = [t, out, limits](TasmanianSparseGrid &g, Out &o, bool){ if (!g.isUsingConstruction()) g.beginConstruction(); o.m = points_matrix(g, g.getCandidateConstructionPoints(t, out, limits)); };
            }
        }else{
            double tol = std::pow(10.0, rng.uni(-5.0, -0.5));
            if (rng.coin(0.5)) tol = (double)(float) tol;
            TypeRefinement rt = rng.pick(ref_types);
            int out = rng.range(-1, m - 1);
            bool pass_out = out != -1 || rng.coin();
            p.opts = {s.sp("-tolerance"), num17(tol), s.sp("-reftype"), refname(rt)};
            if (!float_exact(tol)) p.real_opts.push_back("tolerance");
            if (pass_out){ p.opts.push_back(s.sp("-refout")); p.opts.push_back(std::to_string(out)); }
            std::vector<double> scale;
            if (G().isLocalPolynomial() && G().getNumLoaded() > 0 && rng.coin(0.2)){
                // the optional scale correction of the local polynomial candidates: one weight per loaded point and active output
                int act = (out == -1) ? m : 1, n = G().getNumLoaded();
                scale.resize((size_t) n * (size_t) act);
                for(auto &x : scale) x = rng.coin(0.3) ? 0.0 : rng.uni(0.2, 3.0);
                p.opts.push_back(s.sp("-valsfile")); p.opts.push_back(s.put(Mat(n, act, scale), "scale"));
                p.name += "-scaled";
            }
            p.api = [tol, rt, out, limits, scale](TasmanianSparseGrid &g, Out &o, bool as_float){
                if (!g.isUsingConstruction()) g.beginConstruction();
                o.m = points_matrix(g, g.getCandidateConstructionPoints(fl(tol, as_float), rt, out, limits, scale)); };
        }
        if (!limits.empty()){ p.opts.push_back(s.sp("-levellimitsfile")); p.opts.push_back(s.put(row_of_ints(limits), "limits")); }
        return p;
    }
    Plan loadconstructed(){
        int d = G().getNumDimensions(), m = G().getNumOutputs();
        int avail = (int)(s.candidates.size() / (size_t) d);
        int k = rng.range(1, std::min(avail, 7));
        // a subset of the most important candidates, in arbitrary order
        std::vector<int> idx; for(int i=0; i<std::min(avail, k + 3); i++) idx.push_back(i);
        for(size_t i=idx.size(); i>1; i--) std::swap(idx[i - 1], idx[(size_t) rng.range(0, (int) i - 1)]);
        idx.resize((size_t) k);
        std::vector<double> x;
        for(int i : idx) x.insert(x.end(), s.candidates.begin() + (long)((size_t) i * (size_t) d), s.candidates.begin() + (long)((size_t)(i + 1) * (size_t) d));
        gen_counter++;
        std::vector<double> y = model_vals(x, d, m, gen_counter, vmode);
        Plan p; p.name = "loadconstructed"; p.cmd = s.sp("-loadconstructed"); p.mutates = true;
        p.opts = {s.sp("-xfile"), s.put(Mat(k, d, x), "x"), s.sp("-valsfile"), s.put(Mat(k, m, y), "vals")};
        p.api = [x, y](TasmanianSparseGrid &g, Out&, bool){ if (!g.isUsingConstruction()) g.beginConstruction(); g.loadConstructedPoints(x, y); };
        return p;
    }

    // chooses the next legal step (by the documentation of the API calls involved)
    bool next(Plan &p){
        TasmanianSparseGrid const &g = G();
        int m = g.getNumOutputs(), L = g.getNumLoaded(), N = g.getNumNeeded(), np = g.getNumPoints();
        bool U = g.isUsingConstruction();
        bool local = g.isLocalPolynomial() || g.isWavelet();
        bool small = (np <= max_points);
        bool optseq = (g.isGlobal() || g.isSequence()) && is_optimized_sequence(g.getRule());
        bool may_grow = small && (!optseq || max_index(g) <= 20);
        std::vector<std::pair<double, std::function<Plan()>>> w;
        auto add = [&](double weight, std::function<Plan()> f){ w.emplace_back(weight, f); };
        // outputs that are always available (a grid whose points all sit in the construction candidates has 0 points: only the listings then)
        add(1.0, [&]{ return getpoints(); });
        add(0.8, [&]{ return getneeded(); });
        add(0.5, [&]{ return summary(); });
        add(0.4, [&]{ return using_construct(); });
        if (np > 0){
            add(0.8, [&]{ return getquadrature(); });
            add(0.5, [&]{ return gethsupport(); });
            add(0.4, [&]{ return getindexes(false); });
        }
        if (N > 0 && g.isLocalPolynomial()) add(0.4, [&]{ return getindexes(true); });
        if (np > 0 && np <= 200){
            add(0.8, [&]{ return evallike(2); });
            if (!conformal_set) add(0.6, [&]{ return evallike(3); });
            add(0.8, [&]{ return evallike(4); });
            if (local) add(0.7, [&]{ return evallike(5); }); // "Local Polynomial and Wavelet grids"
        }
        if ((g.isGlobal() || g.isSequence()) && np > 0) add(0.5, [&]{ return getpoly(); });
        if (m > 0 && L > 0){
            add(1.2, [&]{ return evallike(0); });
            if (!conformal_set) add(0.9, [&]{ return evallike(1); });
            add(0.8, [&]{ return integrate(); });
            add(0.8, [&]{ return getcoefficients(); });
            if (aniso_family() && nested()) add(0.6, [&]{ return getanisotropy(); });
        }
        // state changes
        if (m > 0 && !U){
            if (N > 0) add(5.0, [&]{ return loadvalues(); });
            else if (L > 0) add(0.5, [&]{ return loadvalues(); }); // overwrite the loaded values
            if (L > 0 && N == 0) add(0.6, [&]{ return setcoefficients(); });
            if (L > 0 && may_grow){
                if (aniso_family() && nested()){ add(1.4, [&]{ return refine(0); }); add(0.7, [&]{ return refine(2); }); }
                if (local){ add(1.4, [&]{ return refine(1); }); add(0.7, [&]{ return refine(2); }); }
                if (g.isSequence() || (g.isGlobal() && OneDimensionalMeta::isSequence(g.getRule()))) add(0.7, [&]{ return refine(1); });
            }
            if (N > 0 && L > 0){ add(0.7, [&]{ return cancelrefine(); }); add(0.7, [&]{ return mergerefine(); }); }
        }
        // (an update of a custom-tabulated grid without loaded values re-reads the rule from a null file name: C07/C08's finding F-custom, kept out of these scripts)
        if (!U && aniso_family() && nested() && may_grow && !(g.getRule() == rule_customtabulated && L == 0)) add(0.7, [&]{ return update(); });
        if (!U && !conformal_set && !g.isFourier() && !(g.isGlobal() && is_unbounded(g.getRule())) && N == 0 && rng.coin(0.3)) add(0.3, [&]{ return setconformal(); });
        // dynamic construction (never together with a conformal map: the inverse map is only accurate to 1e-12 and the node search does not terminate)
        if (m > 0 && !conformal_set && nested() && may_grow){
            add(U ? 1.5 : 0.8, [&]{ return getconstructpnts(); });
            if (U && !s.candidates.empty()) add(3.0, [&]{ return loadconstructed(); });
            if (U) add(0.6, [&]{ return cancelrefine(); });
        }
        // steps that the API documents as errors: the tool must not accept them (outcome agreement in the rejecting direction)
        auto misuse = [&](Plan q, const char *what){ q.valid = false; q.name += std::string("-misuse-") + what; return q; };
        if (np > 0 && !U){
            if (m > 0 && L == 0) add(0.25, [&]{ return misuse(refine(local ? 1 : (aniso_family() && nested() ? 0 : 2)), "no-loaded-values"); });
            if (m > 0 && L > 0 && local) add(0.15, [&]{ return misuse(getanisotropy(), "local-grid"); });
            if (local) add(0.12, [&]{ return misuse(update(), "local-grid"); });
            if (!(g.isGlobal() || g.isSequence())) add(0.12, [&]{ return misuse(getpoly(), "not-global"); });
            if (m > 0 && L > 0 && aniso_family() && nested()) add(0.15, [&]{ force_out = m + rng.range(0, 2); Plan q = refine(0); force_out = -1000; return misuse(q, "output-out-of-range"); });
            if (m > 0 && N > 1) add(0.2, [&]{ drop_row = true; Plan q = loadvalues(); drop_row = false; return misuse(q, "too-few-rows"); });
            if (m > 0 && L > 1 && N == 0) add(0.12, [&]{ drop_row = true; Plan q = setcoefficients(); drop_row = false; return misuse(q, "too-few-rows"); });
        }
        double tot = 0; for(auto &x : w) tot += x.first;
        double u = rng.uni() * tot;
        for(auto &x : w){ if (u < x.first){ p = x.second(); return true; } u -= x.first; }
        p = w.back().second();
        return true;
    }
};

// exotic quadrature script: 1-D grid with the values of a weight function -> -makeexoquad -> custom-tabulated global grid
void exotic_script(Script &s, Gen &gen){
    Rng &rng = s.rng;
    Cfg cf; cf.family = fam_global; cf.dims = 1; cf.outs = 1; cf.type = type_level; cf.rule = rule_gausslegendre; cf.depth = rng.range(8, 25);
    if (rng.coin(0.4)){ cf.ta = {rng.uni(-2.0, -0.5)}; cf.tb = {rng.uni(0.5, 2.0)}; }
    Plan mk = gen.make_plan(cf);
    s.exec(mk); if (s.dead || !s.has_grid) return;
    int wf = rng.range(0, 2); bool symmetric = false;
    double shift = (wf == 0) ? 0.0 : (rng.coin() ? 1.0 : rng.uni(1.0, 2.0));
    { // values of the weight function
        auto pts = s.G.getNeededPoints(); std::vector<double> v(pts.size());
        for(size_t i=0; i<pts.size(); i++){ double x = pts[i]; v[i] = (wf == 0) ? 1.0 + x * x : (wf == 1) ? std::sin(3.0 * x) : std::cos(2.0 * x); }
        Plan p; p.name = "loadvalues"; p.cmd = s.sp("-loadvalues"); p.mutates = true;
        p.opts = {s.sp("-valsfile"), s.put(Mat((long) pts.size(), 1, v), "vals")};
        p.api = [v](TasmanianSparseGrid &g, Out&, bool){ g.loadNeededValues(v); };
        s.exec(p); if (s.dead) return;
        symmetric = (wf != 1) && cf.ta.empty() && rng.coin();
    }
    int depth = rng.range(1, 5);
    std::string desc = rng.coin() ? "verif exotic rule" : "exo";
    std::string tool_table = s.dir + "/out_" + std::to_string(s.step + 1);
    {
        Plan p; p.name = "makeexoquad"; p.cmd = s.sp("-makeexoquad"); p.uses_grid = false; p.out = out_text_file;
        p.opts = {s.sp("-depth"), std::to_string(depth), "-shift", num17(shift), s.sp("-weightfile"), s.gft, s.sp("-description"), desc};
        if (!float_exact(shift)) p.real_opts.push_back("shift");
        if (symmetric) p.opts.push_back(s.sp("-symmetric"));
        TasmanianSparseGrid const *G = &s.G;
        p.api = [depth, shift, desc, symmetric, G](TasmanianSparseGrid &, Out &o, bool as_float){
            auto ct = TasGrid::getExoticQuadrature(depth, fl(shift, as_float), *G, desc.c_str(), symmetric);
            std::ostringstream ss; ct.write<mode_ascii>(ss); o.text = ss.str(); };
        s.exec(p); if (s.dead) return;
    }
    if (!file_exists(tool_table)) return;
    // use the table written by the tool in a custom-tabulated grid (the API side reads the same table: it was compared byte for byte)
    Cfg c2; c2.family = fam_global; c2.dims = rng.range(1, 2); c2.outs = 1; c2.type = rng.coin() ? type_level : type_qptotal; c2.depth = rng.range(0, depth - 1);
    c2.custom = 1; c2.custom_file = tool_table; c2.rule = rule_customtabulated;
    std::string keep = s.dir + "/exo.table"; rename(tool_table.c_str(), keep.c_str()); c2.custom_file = keep;
    Plan mk2 = gen.make_plan(c2);
    s.exec(mk2); if (s.dead) return;
    Plan q = gen.getquadrature(); s.exec(q); if (s.dead) return;
    Plan sm = gen.summary(); s.exec(sm);
}

} // anonymous namespace

void mon_c16(CaseCtx &c, Rng &rng){
    std::string tool = arg("tasgrid", "");
    const char *tmp = getenv("VF_TMPDIR");
    Script s(c, rng);
    s.tool = tool;
    s.dir = std::string(tmp ? tmp : "/var/tmp") + "/c16_" + std::to_string((long) getpid()) + "_" + std::to_string(c.index);
    s.keep = getenv("VF_KEEP") != nullptr;
    s.timeout_s = (int) argi("tool_timeout", 120);
    int max_points = c.thorough ? 400 : 160;
    int kind = rng.range(0, 99); // 0..5: exotic quadrature script; 6..29: one or two -makequadrature commands in front of the grid script
    // configuration of the script
    GenOpts go; go.max_dims = 3; go.max_outs = 3; go.min_outs = 1; go.max_points = max_points; go.custom = true; go.max_depth = 6;
    Cfg cf = gen_cfg(rng, go);
    if (cf.custom == 2) cf.custom = 1;
    if (tool.empty() || access(tool.c_str(), X_OK) != 0){ emit_begin(c, J().str("error", "tasgrid path missing").obj()); c.inconc("no-tasgrid-binary"); return; }
    rm_rf(s.dir);
    mkdir(s.dir.c_str(), 0755);
    s.gft = s.dir + "/grid_tool"; s.gfa = s.dir + "/grid_api";
    s.help = &help_map(tool, s.dir);
    Gen gen(s, max_points);
    gen.vmode = rng.coin(0.75) ? 1 : 0;
    int nsteps = rng.range(3, 8);
    if (kind < 6){
        emit_begin(c, J().str("script", "exotic-quadrature").obj());
        exotic_script(s, gen);
    }else{
        // shrink the depth on a scratch object so that no grid is huge (same rule as the other monitors)
        if (cf.custom) cf.custom_file = custom_rule_into(s);
        { TasmanianSparseGrid scratch; std::string err; Cfg t = cf; if (make_grid(scratch, t, max_points, &err)) cf.depth = t.depth; }
        // alpha/beta: half of the scripts use values that are exactly representable as float
        if (rng.coin(0.5)){ cf.alpha = (double)(float) cf.alpha; cf.beta = (double)(float) cf.beta; }
        if (rng.coin(0.04)) cf.outs = 0; // "must specify number of outputs (could be zero)"
        emit_begin(c, J().kv("make", cf.json()).i("steps", nsteps).obj());
        gen.conformal_set = !cf.conformal.empty();
        // quadrature commands need no grid file: sprinkle them in front of the script
        int nq = (kind < 30) ? rng.range(1, 2) : 0;
        for(int i=0; i<nq && !s.dead; i++){
            GenOpts qo; qo.max_dims = 3; qo.max_outs = 1; qo.min_outs = 1; qo.max_depth = 5; qo.custom = true; qo.limits = false;
            Cfg qc = gen_cfg(rng, qo); qc.limits.clear();
            if (qc.family == fam_sequence) qc.family = fam_global; // -makequadrature has no sequence flavour: the rule names are global rules
            if (qc.custom == 2) qc.custom = 1;
            if (qc.custom) qc.custom_file = cf.custom ? cf.custom_file : custom_rule_into(s);
            { TasmanianSparseGrid scratch; std::string err; Cfg t = qc; if (!make_grid(scratch, t, max_points, &err)) continue; qc.depth = t.depth; }
            if (rng.coin(0.5)){ qc.alpha = (double)(float) qc.alpha; qc.beta = (double)(float) qc.beta; }
            Plan q = gen.quadrature_plan(qc);
            s.exec(q);
        }
        if (!s.dead){
            Plan mk = gen.make_plan(cf);
            if (cf.outs == 0) mk.cls = "make-zero-outputs";
            s.exec(mk);
        }
        for(int i=0; i<nsteps && !s.dead && s.has_grid; i++){
            Plan p;
            if (!gen.next(p)) break;
            bool is_candidates = (p.name == "getconstructpnts" || p.name == "getconstructpnts-scaled");
            bool is_setconf = (p.name == "setconformal");
            int before = s.compared;
            s.exec(p);
            if (s.compared > before && is_setconf) gen.conformal_set = true;
            // -loadconstructed draws from the candidate list the API side produced in this step
            if (is_candidates && s.compared > before && !s.dead) s.candidates = s.last.m.v;
            if (p.name == "cancelrefine" || p.name == "loadvalues" || p.name == "loadconstructed") s.candidates.clear();
        }
    }
    if (!s.keep) rm_rf(s.dir);
    c.count("steps_rejected_by_tool", s.rejected);
    c.counters["max_steps_compared_in_script"] = std::max(c.counters["max_steps_compared_in_script"], (long long) s.compared);
    if (s.compared == 0){ if (c.nviol == 0) c.inconc("no-step-accepted-by-tool"); return; }
    c.sig(((kind < 6) ? std::string("exotic") : cf.sig()) + "|" + s.ops);
}

} // namespace vf
