// C17 - constructSurrogate checkpoints let completed work survive a crash at any instant.
//
// This translation unit is the *process under test* and the *in-process verdict* of one stage of a kill/restart chain; the fault
// enumeration itself (which operation to kill at, which torn prefix to plant) is done by drivers/c17_driver.py with harness/fs_shim.c.
//
//   tsgmon C17 <seed> <scenario> 1 [thorough] mode=run|restart|dump [par=0|1] dir=<work dir> stage=<n> [ckpt=<file>]
//          [saved=<snapshot file>] [savedpts=<file>] [fclass=<fault class>] [nsaved_known=0|1]
//
//   mode=run      one call of constructSurrogate(model, budget, jobs, batch, grid, ..., ckpt) on a FRESH grid, as a user would write it.
//                 Under the shim the process may be killed anywhere.  When it survives, the final grid is verified (no-fault class).
//   mode=restart  the same call in a fresh process after a fault, plus the restart clauses:
//                 (a) no exception / abort, (b) evaluated-here  INTERSECT  saved(last completed checkpoint) = EMPTY,
//                 (c) evaluated-here + |saved| <= budget and final loaded <= budget, (d) every loaded value is the tagged model value at
//                 its point and the surrogate reproduces it, (e) the recovered(source, points) hook event (when the hook patch is applied)
//                 agrees with the two files.
//   mode=dump     prints what a snapshot file holds (bytes of the grid section, loaded / stored points) - used by the driver to classify
//                 torn prefixes by section.
// The scenario (grid family, rule, dimensions, outputs, budget, batch size, workers, overload, tolerance...) is a pure function of
// (seed, scenario index, par).
#include "monitors.hpp"
#include "TasmanianAddons.hpp"
#include <fcntl.h>
#include <fstream>
#include <sys/stat.h>
#include <sys/resource.h>
#include <time.h>
#include <atomic>
#include <mutex>

namespace vf{
namespace {

struct Scen{
    int family = fam_localp;
    TypeOneDRule rule = rule_localp;
    int dims = 2, outs = 1, depth = 1, order = 1;
    int budget = 20, batch = 1, jobs = 1;
    bool preloaded = false;         // the user's grid already holds > 1000 loaded points: completed samples then wait in the stored-samples section
    bool parallel = false, guess = false;
    int overload = 0;               // 0 surplus (tolerance, criteria), 1 anisotropic with user weights, 2 anisotropic with estimated weights
    TypeDepth type = type_iptotal;
    std::vector<int> aw, limits;
    double tol = 1e-3;
    TypeRefinement crit = refine_classic;
    int output = -1;
    bool transform = false;
    int latency_us = 0;             // parallel mode: seeded model latency 0..latency_us
    std::string json() const{
        J j; j.str("family", fam_name(family)).str("rule", rname(rule)).i("dims", dims).i("outs", outs).i("depth", depth);
        if (family == fam_localp || family == fam_wavelet) j.i("order", order);
        j.i("budget", budget).i("batch", batch).i("jobs", jobs).b("parallel", parallel).b("initial_guess", guess);
        j.str("overload", overload == 0 ? "surplus" : overload == 1 ? "aniso-weights" : "aniso-estimated");
        if (overload == 0){ j.num("tol", tol).str("criteria", refname(crit)); } else { j.str("type", tname(type)); if (overload == 1) j.vec("aw", aw); }
        if (overload != 1) j.i("output", output);
        if (!limits.empty()) j.vec("limits", limits);
        j.b("transform", transform).b("preloaded", preloaded);
        return j.obj();
    }
    std::string sig() const{
        return std::string(fam_name(family)) + "/" + rname(rule) + "/d" + std::to_string(dims) + "/o" + std::to_string(outs) + "/b" + std::to_string(batch)
            + (parallel ? "/par" + std::to_string(jobs) : "/seq") + (guess ? "/guess" : "") + "/ov" + std::to_string(overload) + (preloaded ? "/preloaded" : "");
    }
};

Scen make_scenario(uint64_t seed, long long scen, bool parallel, bool thorough){
    Rng rng(seed, 1700 + (parallel ? 1 : 0), (uint64_t) scen);
    Scen s;
    s.parallel = parallel;
    // structured part: family and batch size cycle with the scenario index so that every tier covers them all
    static const int fams_q[] = {fam_localp, fam_sequence, fam_global, fam_localp, fam_wavelet, fam_fourier, fam_localp};
    int nf = 7;
    s.preloaded = (scen % nf == 6);
    s.family = fams_q[scen % nf];
    s.batch = 1 + (int)((scen / nf) % 3);
    s.dims = (rng.coin(0.75)) ? 2 : (rng.coin(0.5) ? 1 : 3);
    s.outs = rng.range(1, 2);
    s.jobs = parallel ? rng.range(2, 4) : rng.range(1, 3);
    s.guess = rng.coin(0.3);
    int lo = thorough ? 12 : 10, hi = thorough ? 60 : 26;
    s.budget = rng.range(lo, hi);
    switch(s.family){
        case fam_localp:
            s.rule = rng.pick(localp_rules()); s.order = rng.range(1, 2); s.overload = 0;
            s.crit = rng.pick(std::vector<TypeRefinement>{refine_classic, refine_parents_first, refine_direction_selective, refine_fds, refine_stable});
            s.tol = rng.coin(0.8) ? 1e-6 : 0.3; s.output = rng.coin(0.6) ? -1 : rng.range(0, s.outs - 1);
            break;
        case fam_wavelet:
            s.rule = rule_wavelet; s.order = 1; s.overload = 0; s.dims = std::min(s.dims, 2);
            s.crit = rng.pick(std::vector<TypeRefinement>{refine_classic, refine_parents_first, refine_fds});
            s.tol = 1e-6; s.output = -1; s.budget = std::min(s.budget, 40);
            break;
        case fam_sequence:
            s.rule = rng.pick(std::vector<TypeOneDRule>{rule_leja, rule_rleja, rule_mindelta, rule_minlebesgue, rule_rlejashifted}); break;
        case fam_global:
            s.rule = rng.pick(std::vector<TypeOneDRule>{rule_clenshawcurtis, rule_leja, rule_rleja, rule_fejer2, rule_rlejadouble4, rule_mindelta}); break;
        default:
            s.rule = rule_fourier; break;
    }
    if (s.family == fam_sequence || s.family == fam_global || s.family == fam_fourier){
        s.overload = rng.coin(0.5) ? 1 : 2;
        s.type = rng.pick(std::vector<TypeDepth>{type_level, type_iptotal, type_iphyperbolic, type_qptotal});
        if (s.family == fam_fourier && s.type == type_qptotal) s.type = type_iptotal;
        for(int j=0; j<s.dims; j++) s.aw.push_back(rng.range(1, 3));
        s.output = rng.coin(0.5) ? -1 : rng.range(0, s.outs - 1);
        if (s.family == fam_global && s.output < 0) s.output = 0; // Global grids need a specific output for the estimated anisotropy (documented; -1 is rejected with invalid_argument)
    }
    // initial grid: at least jobs * batch points ("sufficiently large number of initial points, enough candidates to load all threads")
    s.depth = 1;
    if (rng.coin(0.3)){ for(int j=0; j<s.dims; j++) s.limits.push_back(rng.range(3, 6)); }
    s.transform = rng.coin(0.3);
    s.latency_us = parallel ? rng.pick(std::vector<int>{0, 50, 200, 400}) : 0;
    if (s.preloaded){ s.dims = 2; s.outs = 1; s.transform = false; s.limits.clear(); s.rule = rule_localp; s.order = 1; s.tol = 1e-6; s.crit = refine_classic; s.output = -1; s.guess = false; }
    return s;
}

TasmanianSparseGrid make_initial(Scen &s){
    TasmanianSparseGrid g;
    for(int depth = 1; depth < 8; depth++){
        s.depth = depth;
        switch(s.family){
            case fam_localp:   g = makeLocalPolynomialGrid(s.dims, s.outs, depth, s.order, s.rule); break;
            case fam_wavelet:  g = makeWaveletGrid(s.dims, s.outs, depth, s.order); break;
            case fam_sequence: g = makeSequenceGrid(s.dims, s.outs, depth, type_level, s.rule); break;
            case fam_global:   g = makeGlobalGrid(s.dims, s.outs, depth, type_level, s.rule); break;
            default:           g = makeFourierGrid(s.dims, s.outs, depth, type_level); break;
        }
        if (g.getNumPoints() >= s.jobs * s.batch) break;
    }
    if (s.preloaded){
        // level 8 in two dimensions: 1537 points, all loaded by the user before the call; the budget leaves 8..16 samples to construct
        g = makeLocalPolynomialGrid(2, 1, 8, 1, rule_localp); s.depth = 8;
        std::vector<double> p = g.getNeededPoints();
        g.loadNeededValues(tagged_values(p, 2, 1, 0));
        s.budget = g.getNumLoaded() + 8 + (s.budget % 9);
    }
    if (s.budget < g.getNumPoints() + 4) s.budget = g.getNumPoints() + 4;
    if (s.transform){
        std::vector<double> a, b;
        for(int j=0; j<s.dims; j++){ a.push_back(-0.5 - j); b.push_back(2.0 + 0.25 * j); }
        g.setDomainTransform(a, b);
    }
    return g;
}

// ---- side log: one write() per line on an O_APPEND descriptor shared (by file name) with the shim's op log ----
int g_logfd = -1;
int g_stage = 0;
void log_points(char tag, size_t tid, std::vector<double> const &x, int dims){
    if (g_logfd < 0) return;
    std::string l; l += tag; l += ' '; l += std::to_string(g_stage) + " " + std::to_string(tid) + " " + std::to_string(x.size() / (size_t) dims);
    char b[40];
    for(double v : x){ snprintf(b, sizeof(b), " %016llx", (unsigned long long) dbits(v)); l += b; }
    l += "\n";
    ssize_t r = ::write(g_logfd, l.data(), l.size()); (void) r;
}
// coordinates are compared after rounding to 2^-40 (nodes are regenerated from integer indexes, bits normally agree exactly)
PKey rkey(const double *x, int d){ PKey k((size_t) d); for(int i=0; i<d; i++) k[(size_t) i] = (uint64_t)(long long) std::llround(x[i] * 1099511627776.0); return k; }

// ---- hook events (delivered only when hooks/C17-checkpoint.patch is applied to the library) ----
struct HookLog{ std::mutex mu; long recovered_source = -1, recovered_points = -1; long ckpt_begin = 0, ckpt_end = 0; bool active = false; } g_hooks;
void c17_hook(const char *tag, long a, long b){
    if (!g_hooks.active || strncmp(tag, "c17:", 4) != 0) return;
    std::lock_guard<std::mutex> lk(g_hooks.mu);
    if (!strcmp(tag, "c17:recovered")){ g_hooks.recovered_source = a; g_hooks.recovered_points = b; }
    else if (!strcmp(tag, "c17:checkpoint-begin")) g_hooks.ckpt_begin++;
    else if (!strcmp(tag, "c17:checkpoint-end")) g_hooks.ckpt_end++;
}

// independent parse of the tail of a checkpoint file (documented layout of the stored samples: two counts, points, values)
bool read_file(std::string const &name, std::string &data){
    std::ifstream f(name, std::ios::binary); if (!f.good()) return false;
    std::ostringstream ss; ss << f.rdbuf(); data = ss.str(); return true;
}
struct SnapInfo{ bool ok = false; long grid_bytes = 0, loaded = 0, stored = 0, trailing = 0; std::vector<double> pts; int dims = 0; std::string err; };
SnapInfo parse_snapshot(std::string const &file, std::string const &real_name){
    // the bytes are read through a path that the shim does not track and handed to the library reader through a string stream
    SnapInfo si; std::string data;
    (void) real_name;
    if (!read_file(file, data)){ si.err = "cannot open"; return si; }
    std::istringstream is(data, std::ios::binary);
    TasmanianSparseGrid g;
    try{ g.read(is, mode_binary); }catch(std::exception &e){ si.err = e.what(); return si; }
    if (!is.good()){ si.err = "stream failed inside the grid section"; return si; }
    si.grid_bytes = (long) is.tellg(); si.dims = g.getNumDimensions(); si.loaded = g.getNumLoaded();
    if (si.loaded > 0) si.pts = g.getLoadedPoints();
    size_t off = (size_t) si.grid_bytes;
    if (data.size() < off + 16){ si.err = "no stored-samples header"; return si; }
    uint64_t np, nv; std::memcpy(&np, &data[off], 8); std::memcpy(&nv, &data[off + 8], 8);
    if (np > data.size() || nv > data.size() || data.size() < off + 16 + 8 * (np + nv)){ si.err = "stored-samples section is shorter than its counts"; return si; }
    si.trailing = (long)(data.size() - (off + 16 + 8 * (np + nv))); // bytes after the documented content (none on the pinned tree)
    si.stored = (long)(np / (uint64_t) std::max(1, si.dims));
    for(uint64_t i=0; i<np; i++){ double v; std::memcpy(&v, &data[off + 16 + 8 * i], 8); si.pts.push_back(v); }
    si.ok = true; return si;
}

} // anonymous namespace
} // namespace vf

namespace vf{

void mon_c17(CaseCtx &c, Rng &){
    std::string mode = arg("mode", "run");
    bool par = argi("par", 0) != 0;
#if !defined(__SANITIZE_ADDRESS__)
    {   // a torn checkpoint can make the reader ask for an arbitrary amount of memory: keep such a request from hurting the machine
        // (under ASan the driver passes max_allocation_size_mb / hard_rss_limit_mb instead)
        struct rlimit rl; rl.rlim_cur = rl.rlim_max = (rlim_t) 3 << 30; if (!getenv("C17_NO_RLIMIT")) setrlimit(RLIMIT_AS, &rl);
    }
#endif
    std::string dir = arg("dir", ""), fclass = arg("fclass", "none");
    g_stage = (int) argi("stage", 0);

    if (mode == "dump"){
        emit_begin(c, J().str("mode", "dump").obj());
        SnapInfo si = parse_snapshot(arg("file", ""), "");
        printf("D %s\n", J().b("ok", si.ok).i("grid_bytes", si.grid_bytes).i("loaded", si.loaded).i("stored", si.stored).i("trailing", si.trailing).str("err", si.err).obj().c_str());
        c.sig("dump"); return;
    }

    Scen s = make_scenario(c.seed, c.index, par, c.thorough);
    TasmanianSparseGrid grid;
    try{ grid = make_initial(s); }
    catch(std::exception &e){ emit_begin(c, s.json()); c.inconc("initial-grid-rejected"); return; }
    TypeOneDRule initial_rule = grid.getRule(); // what the library reports for the user's grid (e.g. semi-localp of order 1 is localp)
    emit_begin(c, J().kv("scenario", s.json()).str("mode", mode).str("fault", fclass).i("stage", g_stage).obj());
    if (dir.empty()){ const char *t = getenv("VF_TMPDIR"); dir = std::string(t ? t : "/var/tmp") + "/c17_" + std::to_string((long) getpid()); mkdir(dir.c_str(), 0755); }
    std::string ckpt = arg("ckpt", dir + "/ckpt");
    std::string logname = dir + "/oplog_" + std::to_string(g_stage);
    g_logfd = ::open(logname.c_str(), O_WRONLY | O_CREAT | O_APPEND, 0644);

    // saved(last completed checkpoint): library-parsed loaded + stored points of the snapshot, plus (sequential mode) the points whose
    // evaluation had returned before that checkpoint was written (extracted from the merged log by the driver)
    std::set<PKey> saved;
    long saved_in_file = -1;        // loaded + stored points of the snapshot (the quantity the recovered hook event reports)
    bool have_saved = false;
    if (mode == "restart"){
        std::string sf = arg("saved", "");
        if (!sf.empty()){
            SnapInfo si = parse_snapshot(sf, ckpt);
            if (!si.ok){ c.inconc("snapshot-unreadable"); printf("N snapshot %s: %s\n", sf.c_str(), si.err.c_str()); }
            else{ have_saved = true; saved_in_file = si.loaded + si.stored; for(size_t i=0; i + (size_t) s.dims <= si.pts.size(); i += (size_t) s.dims) saved.insert(rkey(&si.pts[i], s.dims)); }
        }
        std::string pf = arg("savedpts", "");
        if (!pf.empty()){
            std::ifstream f(pf); std::string line;
            while(std::getline(f, line)){
                std::istringstream ls(line); std::string h; std::vector<double> x;
                while(ls >> h){ uint64_t u = strtoull(h.c_str(), nullptr, 16); double v; std::memcpy(&v, &u, 8); x.push_back(v); }
                if ((int) x.size() == s.dims){ saved.insert(rkey(x.data(), s.dims)); have_saved = true; }
            }
        }
    }

    std::mutex mu;
    std::vector<std::vector<double>> evaluated; // points handed to the model in this process
    std::atomic<long> launched(0), overlap(0);
    std::vector<std::atomic<int>> busy(64);
    for(auto &b : busy) b = 0;
    int dims = s.dims, outs = s.outs;
    bool bad_call = false; std::string bad_what;
    ModelSignature model = [&](std::vector<double> const &x, std::vector<double> &y, size_t tid)->void{
        log_points('M', tid, x, dims);
        size_t n = x.size() / (size_t) dims;
        if (tid < busy.size() && busy[tid].fetch_add(1) != 0) overlap++;
        {
            std::lock_guard<std::mutex> lk(mu);
            if (x.empty() || x.size() % (size_t) dims != 0 || n > (size_t) s.batch){ bad_call = true; bad_what = "x.size()=" + std::to_string(x.size()); }
            for(size_t i=0; i<n; i++) evaluated.push_back(std::vector<double>(x.begin() + (long)(i * (size_t) dims), x.begin() + (long)((i + 1) * (size_t) dims)));
        }
        launched += (long) n;
        if (s.latency_us > 0){
            uint64_t h = dbits(x[0]) * 0x9E3779B97F4A7C15ull + c.seed; splitmix(h);
            long us = (long)(splitmix(h) % (uint64_t)(s.latency_us + 1));
            struct timespec ts; ts.tv_sec = 0; ts.tv_nsec = us * 1000; nanosleep(&ts, nullptr);
        }
        y.resize(n * (size_t) outs);
        for(size_t i=0; i<n; i++) for(int k=0; k<outs; k++) y[i * (size_t) outs + (size_t) k] = H(&x[i * (size_t) dims], dims, k, 0);
        if (tid < busy.size()) busy[tid].fetch_sub(1);
        log_points('D', tid, x, dims);
    };

    g_hooks.recovered_source = -1; g_hooks.recovered_points = -1; g_hooks.ckpt_begin = g_hooks.ckpt_end = 0; g_hooks.active = true;
    g_hook_handler.store(&c17_hook);
    std::string thrown;
    try{
        size_t B = (size_t) s.budget, Jn = (size_t) s.jobs, Bt = (size_t) s.batch;
        #define C17_CALL(PAR, GUESS) \
            do{ if (s.overload == 0) constructSurrogate<PAR, GUESS>(model, B, Jn, Bt, grid, s.tol, s.crit, s.output, s.limits, ckpt); \
                else if (s.overload == 1) constructSurrogate<PAR, GUESS>(model, B, Jn, Bt, grid, s.type, s.aw, s.limits, ckpt); \
                else constructSurrogate<PAR, GUESS>(model, B, Jn, Bt, grid, s.type, s.output, s.limits, ckpt); }while(0)
        if (s.parallel){ if (s.guess) C17_CALL(mode_parallel, with_initial_guess); else C17_CALL(mode_parallel, no_initial_guess); }
        else           { if (s.guess) C17_CALL(mode_sequential, with_initial_guess); else C17_CALL(mode_sequential, no_initial_guess); }
        #undef C17_CALL
    }catch(std::exception &e){
        thrown = exception_class(e);
        c.viol(std::string(mode == "restart" ? "restart" : "run") + "-exception:" + thrown + "@" + fclass, J().str("what", e.what()).kv("scenario", s.json()).obj());
    }catch(...){
        thrown = "unknown";
        c.viol(std::string(mode == "restart" ? "restart" : "run") + "-exception:unknown@" + fclass, J().kv("scenario", s.json()).obj());
    }
    g_hook_handler.store(nullptr); g_hooks.active = false;
    if (g_logfd >= 0){ ::close(g_logfd); g_logfd = -1; }
    printf("R %s\n", J().i("launched", launched.load()).i("loaded", thrown.empty() ? grid.getNumLoaded() : -1).i("recovered_source", g_hooks.recovered_source)
           .i("recovered_points", g_hooks.recovered_points).i("ckpt_begin", g_hooks.ckpt_begin).i("ckpt_end", g_hooks.ckpt_end).i("saved", (long long) saved.size()).obj().c_str());
    if (!thrown.empty()) return;

    if (bad_call) c.viol("model-call-malformed@" + fclass, J().str("what", bad_what).obj());
    if (overlap.load() > 0) c.viol("thread-id-overlap@" + fclass, J().i("count", overlap.load()).obj());

    // (b) nothing that was in the last completed checkpoint is computed again
    long re = 0;
    if (mode == "restart" && have_saved){
        std::vector<double> first;
        for(auto const &x : evaluated) if (saved.count(rkey(x.data(), dims))){ if (re == 0) first = x; re++; }
        if (re > 0) c.viol("recompute-saved@" + fclass, J().i("recomputed_saved_points", re).i("saved_points", (long long) saved.size()).i("evaluated_here", (long long) evaluated.size())
                           .vec("first", first).i("recovered_source_hook", g_hooks.recovered_source).i("recovered_points_hook", g_hooks.recovered_points).obj());
        c.count("restarts_with_saved_points", saved.empty() ? 0 : 1);
        c.counters["max_saved_points"] = std::max(c.counters["max_saved_points"], (long long) saved.size());
    }
    // no point is evaluated twice within one call
    {
        std::set<PKey> seen; long dup = 0;
        for(auto const &x : evaluated) if (!seen.insert(rkey(x.data(), dims)).second) dup++;
        if (dup > 0) c.viol("evaluated-twice-in-one-call@" + fclass, J().i("duplicates", dup).obj());
    }
    // (c) budget: the samples that count against the budget are the distinct points that are saved or evaluated here (a recomputed point is
    //     charged to clause (b), not twice to the budget).  The class of the key is the input class, not the fault class: an overshoot
    //     depends on how much budget was left at the restart and on the kind of grid, not on where the previous process died.
    {
        // chains: the process before this one was itself a restart; when IT overshot (recorded finding F-ckpt3) its checkpoint already holds more
        // points than the budget and this process inherits the overshoot - reported under its own class, tied to chains
        bool inherited = (mode == "restart" && fclass.compare(0, 6, "chain-") == 0 && g_hooks.recovered_points > (long) s.budget);
        if (inherited)
            c.viol(std::string("budget-exceeded:inherited-from-the-checkpoint-of-an-earlier-restart:") + (s.parallel ? "parallel:" : "sequential:") + fam_name(s.family),
                   J().i("budget", s.budget).i("recovered", g_hooks.recovered_points).i("source", g_hooks.recovered_source).str("fault", fclass).obj());
        else if (g_hooks.recovered_points > (long) s.budget)
            c.viol("corrupt-grid:recovered-more-points-than-the-budget@" + fclass, J().i("budget", s.budget).i("recovered", g_hooks.recovered_points).i("source", g_hooks.recovered_source).obj());
        std::set<PKey> all = (mode == "restart" && have_saved) ? saved : std::set<PKey>();
        long nsaved = (long) all.size();
        for(auto const &x : evaluated) all.insert(rkey(x.data(), dims));
        long total = (re > 0) ? launched.load() : (long) all.size(); // after a recomputation (clause b) the union says nothing about the budget
        long known_before = nsaved;
        if (g_hooks.recovered_points >= 0 && g_hooks.recovered_points <= (long) s.budget){
            total = std::max(total, g_hooks.recovered_points + launched.load());
            known_before = std::max(known_before, g_hooks.recovered_points);
        }
        std::string cls = s.parallel ? (((long) s.budget - known_before < (long)(s.jobs * s.batch)) ? "parallel:remaining-budget-smaller-than-workers-x-batch" : std::string("parallel:") + fam_name(s.family))
                                     : std::string("sequential:") + fam_name(s.family);
        // recorded finding F-ckpt3: samples parked inside the grid's construction data at the time of the checkpoint are not counted after a
        // restart.  That specific cause is recognised by conservation: the library stayed within the budget for the samples it knows of
        // (recovered loaded + stored, plus what it launched here), yet the final grid holds more points than those two numbers explain -
        // the difference can only be samples that were parked in the recovered file.
        if (mode == "restart" && g_hooks.recovered_points >= 0){
            long unexplained = (long) grid.getNumLoaded() - g_hooks.recovered_points - launched.load();
            if (launched.load() + g_hooks.recovered_points <= (long) s.budget && unexplained > 0)
                cls = std::string(s.parallel ? "parallel:" : "sequential:") + fam_name(s.family) + ":restart-with-parked-samples-not-counted";
            // sequential mode: the model log gives the exact set of samples saved by the last completed checkpoint, parked ones included
            if (!s.parallel && have_saved){
                long parked = nsaved - g_hooks.recovered_points;
                long over = std::max(total, (long) grid.getNumLoaded()) - (long) s.budget;
                if (parked > 0 && over > 0 && over <= parked) cls = std::string("sequential:") + fam_name(s.family) + ":restart-with-parked-samples-not-counted";
            }
        }
        if (inherited){ /* reported above */ }
        else if (total > (long) s.budget)
            c.viol("budget-exceeded:" + cls, J().i("budget", s.budget).i("distinct_saved_or_evaluated", total).i("launched_here", launched.load()).i("saved_before", nsaved)
                   .i("recovered_points_hook", g_hooks.recovered_points).i("jobs", s.jobs).i("batch", s.batch).str("fault", fclass).obj());
        if (!inherited && grid.getNumLoaded() > s.budget)
            c.viol("budget-exceeded:final-grid:" + cls, J().i("budget", s.budget).i("loaded", grid.getNumLoaded()).str("fault", fclass).obj());
    }
    // (e) recovered event
    if (mode == "restart" && g_hooks.recovered_source >= 0){
        c.count("hook:recovered-events");
        c.count(g_hooks.recovered_source == 1 ? "recovered:main" : g_hooks.recovered_source == 2 ? "recovered:old" : "recovered:none");
        if (have_saved && !saved.empty() && g_hooks.recovered_source == 0)
            c.viol("recovered-nothing-although-a-checkpoint-completed@" + fclass, J().i("saved_points", (long long) saved.size()).obj());
        if (saved_in_file >= 0 && g_hooks.recovered_points < saved_in_file)
            c.viol("recovered-fewer-points-than-saved@" + fclass, J().i("loaded_plus_stored_in_last_completed_checkpoint", saved_in_file).i("recovered_points", g_hooks.recovered_points).i("source", g_hooks.recovered_source).obj());
    }
    if (g_hooks.ckpt_begin != g_hooks.ckpt_end) c.viol("checkpoint-begin-end-mismatch@" + fclass, J().i("begin", g_hooks.ckpt_begin).i("end", g_hooks.ckpt_end).obj());
    // (d) final grid: the right kind of grid, every loaded value is the model at its point, distinct points, surrogate reproduces them
    bool fam_ok = (s.family == fam_localp && grid.isLocalPolynomial()) || (s.family == fam_wavelet && grid.isWavelet()) || (s.family == fam_sequence && grid.isSequence())
               || (s.family == fam_global && grid.isGlobal()) || (s.family == fam_fourier && grid.isFourier());
    if (!fam_ok || grid.getNumDimensions() != dims || grid.getNumOutputs() != outs || grid.getRule() != initial_rule){
        c.viol("corrupt-grid:wrong-kind@" + fclass, J().i("dims", grid.getNumDimensions()).i("outs", grid.getNumOutputs()).str("rule", rname(grid.getRule())).obj());
        return;
    }
    int n = grid.getNumLoaded();
    if (n > 0){
        std::vector<double> p = grid.getLoadedPoints();
        const double *v = grid.getLoadedValues();
        std::set<PKey> seen; long bad = 0, dup = 0; std::vector<double> firstbad; double got = 0, want = 0;
        std::set<PKey> ev; for(auto const &x : evaluated) ev.insert(rkey(x.data(), dims));
        long recovered = 0;
        for(int i=0; i<n; i++){
            const double *x = &p[(size_t) i * (size_t) dims];
            if (!seen.insert(rkey(x, dims)).second) dup++;
            if (!ev.count(rkey(x, dims))) recovered++;
            for(int k=0; k<outs; k++){
                double w = H(x, dims, k, 0);
                if (!same_bits(w, v[(size_t) i * (size_t) outs + (size_t) k])){ if (bad == 0){ firstbad.assign(x, x + dims); got = v[(size_t) i * (size_t) outs + (size_t) k]; want = w; } bad++; }
            }
        }
        if (bad > 0) c.viol("corrupt-grid:loaded-value-is-not-the-model@" + fclass, J().i("bad_values", bad).i("loaded", n).vec("x", firstbad).num("got", got).num("model", want).obj());
        if (dup > 0) c.viol("corrupt-grid:duplicate-loaded-points@" + fclass, J().i("duplicates", dup).obj());
        c.count("final_points_checked", n);
        c.count("final_points_recovered_not_recomputed", recovered);
        if (bad == 0 && dup == 0){
            bool complete = true;
            if (grid.isLocalPolynomial()){ int ok = all_parents_loaded(grid); if (ok != 1){ complete = false; c.count("skipped-reproduction:incomplete-hierarchy"); } }
            if (complete){
                Rng r2(c.seed, 17, (uint64_t) c.index);
                check_reproduction(grid, c, r2, "final-not-interpolating", mode + "@" + fclass);
            }
        }
    }else if (s.budget > 0 && s.family != fam_global){
        c.viol("final-grid-empty@" + fclass, J().i("launched", launched.load()).obj());
    }
    c.count("model_points_evaluated", launched.load());
    c.sig(s.sig() + "|" + mode + "|" + fclass);
}

} // namespace vf
