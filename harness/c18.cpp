// C18 - parallel constructSurrogate and threaded loadNeededValues: terminate, exactly-once, same-thread-id never concurrent, budget respected,
//       values loaded where they were computed, no data race, no deadlock.   (DESIGN.md section 4 "C18", section 5 item 3)
//
// The monitor is the model callback plus the guarded schedule/trace hooks ("c18:..." tags, hooks/C18-construct.patch):
//  * all shared monitor state is relaxed atomics or thread-private buffers (one slot per thread, handed out with a relaxed fetch_add):
//    the monitor takes no lock and performs no release/acquire operation, so it adds no happens-before edge that could hide a race from TSan;
//  * tsg_verif_hook() appends (sequence number, tag, a, b) to the calling thread's slot and then yields / sleeps 0-200 us (seeded);
//  * after the run the slots are merged by sequence number and an offline checker validates the worker protocol, the work queue of
//    loadNeededValues, the model-call log (exactly-once, overlap, thread ids, budget) and the final grid (values, reproduction);
//  * an in-process watchdog thread detects "no event for stall_ms and every live thread's last event is a blocking point" = deadlock.
#include "monitors.hpp"
#include "TasmanianAddons.hpp"
#include <atomic>
#include <thread>
#include <chrono>
#include <time.h>
#include <sched.h>

#if defined(__SANITIZE_THREAD__)
extern "C" void __sanitizer_set_report_path(const char *path);
#endif
// The single definition of tsg_verif_hook lives in harness/hooks.cpp (relaxed load of vf::g_hook_handler, no happens-before edge added);
// this monitor installs c18_hook_handler for the duration of the library call.

namespace vf{
namespace c18{

constexpr int MAX_SLOTS = 24;          // 16 loader threads + main + margin
constexpr uint32_t SLOT_CAP = 1u << 13;
constexpr int MAX_TID = 64;

struct Ev{ std::atomic<uint64_t> seq; std::atomic<const char*> tag; std::atomic<long> a, b; };
struct Call{ // one model call (thread-private until the library has joined the thread)
    size_t tid; uint64_t seq; std::vector<double> x; size_t y_on_entry; int sample;
};
struct Slot{
    Ev *ev = nullptr;         // points into Mon::pool, set by the main thread before any other thread exists
    std::atomic<uint32_t> n{0}, dropped{0};
    std::vector<Call> calls; // owner thread only
    uint64_t rng = 0;         // owner thread only
};
struct Mon{
    uint64_t gen = 0;
    std::atomic<uint64_t> seq{0};
    std::atomic<int> nslots{0};
    std::atomic<int> slot_overflow{0};
    Slot slots[MAX_SLOTS];
    Ev *pool = nullptr;       // all event buffers, allocated by the main thread (an allocation is a write for TSan: no thread may allocate what the watchdog reads)
    std::atomic<int> inflight[MAX_TID];
    std::atomic<long> launched{0};
    std::vector<double> dom_a, dom_b; // domain box (read-only while threads run)
    // configuration read by the callbacks (written before any thread starts)
    int dims = 1, outs = 1, vmode = 0, gen_tag = 0;
    size_t jobs_eff = 1, batch_eff = 1;
    bool guess = false;
    int latency = 0; int slow_tid = 0; uint64_t lat_seed = 0;
    int perturb = 0; std::string focus; uint64_t perturb_seed = 0;
    const double *lpoints = nullptr; int lnum = 0; // loadNeededValues: the strip base is unknown, samples are identified by coordinates
    Mon(){
        for(auto &f : inflight) f.store(0, std::memory_order_relaxed);
        pool = new Ev[(size_t) MAX_SLOTS * SLOT_CAP];
        for(int i=0; i<MAX_SLOTS; i++) slots[i].ev = pool + (size_t) i * SLOT_CAP;
    }
    ~Mon(){ delete[] pool; }
};
static std::atomic<Mon*> g_mon{nullptr};
static uint64_t g_gen_counter = 0;
static thread_local Slot *tl_slot = nullptr;
static thread_local uint64_t tl_gen = 0;

static inline Slot* get_slot(Mon *m, const char *tag, long a){
    if (tl_gen == m->gen) return tl_slot;
    int idx = m->nslots.fetch_add(1, std::memory_order_relaxed);
    tl_gen = m->gen;
    if (idx >= MAX_SLOTS){ m->slot_overflow.store(1, std::memory_order_relaxed); tl_slot = nullptr; return nullptr; }
    Slot *s = &m->slots[idx];
    // the perturbation stream of a thread depends on the case and on the thread's role (first tag + id), not on arrival order
    s->rng = m->perturb_seed ^ ((uint64_t)(unsigned char) tag[0] * 0x9E3779B97F4A7C15ull) ^ ((uint64_t) a * 0xD1B54A32D192ED03ull);
    splitmix(s->rng);
    tl_slot = s;
    return s;
}
static inline uint64_t record(Mon *m, const char *tag, long a, long b){
    Slot *s = get_slot(m, tag, a);
    uint64_t q = m->seq.fetch_add(1, std::memory_order_relaxed);
    if (!s) return q;
    uint32_t i = s->n.load(std::memory_order_relaxed);
    if (i >= SLOT_CAP){ s->dropped.fetch_add(1, std::memory_order_relaxed); return q; }
    Ev *e = s->ev;
    e[i].seq.store(q, std::memory_order_relaxed); e[i].tag.store(tag, std::memory_order_relaxed);
    e[i].a.store(a, std::memory_order_relaxed); e[i].b.store(b, std::memory_order_relaxed);
    s->n.store(i + 1, std::memory_order_relaxed);
    return q;
}
static inline void nap_us(long us){
    if (us <= 0){ sched_yield(); return; }
    struct timespec ts; ts.tv_sec = 0; ts.tv_nsec = us * 1000L; nanosleep(&ts, nullptr);
}
static inline void perturb(Mon *m, const char *tag){
    if (m->perturb == 0) return;
    Slot *s = tl_slot; if (!s) return;
    uint64_t r = splitmix(s->rng);
    int p = (int)(r % 100);
    long us = (long)((r >> 8) % 201);
    bool focus = (!m->focus.empty() && m->focus == tag);
    if (focus){ if (p < 85) nap_us(100 + us / 2); return; }
    switch(m->perturb){
        case 1: if (p < 6) nap_us(0); else if (p < 12) nap_us(us); break;          // light
        case 2: if (p < 25) nap_us(0); else if (p < 50) nap_us(us); break;         // heavy
        default: if (p < 5) nap_us(0); else if (p < 8) nap_us(us / 4); break;      // focus mode: little noise elsewhere
    }
}

} // namespace c18
} // namespace vf

static void c18_hook_handler(const char *tag, long a, long b){
    if (std::strncmp(tag, "c18:", 4) != 0) return; // other monitors' tags
    vf::c18::Mon *m = vf::c18::g_mon.load(std::memory_order_relaxed);
    if (!m) return;
    vf::c18::record(m, tag + 4, a, b);
    vf::c18::perturb(m, tag + 4);
}

namespace vf{
namespace c18{

// ------------------------------------------------------------------------------------------------
// model: coordinate-tagged values, latency profiles
// ------------------------------------------------------------------------------------------------
static inline double model_value(Mon const *m, const double *x, int k, int gen){
    if (m->vmode == 0) return H(x, m->dims, k, gen);
    return Smooth(x, m->dims, k) + 1e-9 * H(x, m->dims, k, gen);
}
static inline void model_latency(Mon *m, const double *x, size_t tid){
    if (m->latency == 0) return;
    uint64_t s = m->lat_seed; for(int i=0; i<m->dims; i++){ s ^= dbits(x[i]); splitmix(s); }
    uint64_t r = splitmix(s);
    long us = 0;
    switch(m->latency){
        case 1: us = (long)(r % 300); break;                                             // uniform
        case 2: us = ((int) tid == m->slow_tid) ? 800 + (long)(r % 1500) : (long)(r % 40); break; // one slow worker
        case 3: us = (r % 10 == 0) ? 1500 + (long)((r >> 8) % 1000) : 0; break;          // bursty
        default:{ // coarse points slowest: a sample is the slower the more of its coordinates sit on a level-0/1 node (ends or middle of the domain),
                  // so that children tend to finish before their parents
            int coarse = 0;
            for(int i=0; i<m->dims; i++){
                double t = (x[i] - m->dom_a[(size_t) i]) / (m->dom_b[(size_t) i] - m->dom_a[(size_t) i]);
                if (std::fabs(t) < 1e-9 || std::fabs(t - 0.5) < 1e-9 || std::fabs(t - 1.0) < 1e-9) coarse++;
            }
            us = (coarse == m->dims) ? 2500 + (long)(r % 500) : (coarse == m->dims - 1) ? 300 : 0;
            break; }
    }
    if (us >= 30) nap_us(us); else if (us > 0) sched_yield();
}
// common part of all model callbacks; x holds npts points
static void model_common(const double *x, size_t npts, size_t xsize, double *y, size_t tid, size_t y_on_entry, int gen){
    Mon *m = g_mon.load(std::memory_order_relaxed);
    uint64_t q = record(m, "model-begin", (long) tid, (long) npts);
    bool tid_ok = (tid < m->jobs_eff && tid < (size_t) MAX_TID);
    if (!tid_ok) record(m, "x:bad-thread-id", (long) tid, (long) m->jobs_eff);
    else if (m->inflight[tid].exchange(1, std::memory_order_relaxed) != 0) record(m, "x:overlap", (long) tid, 0);
    m->launched.fetch_add((long) npts, std::memory_order_relaxed);
    if (xsize % (size_t) m->dims != 0 || npts == 0) record(m, "x:bad-x-size", (long) xsize, m->dims);
    if (npts > m->batch_eff) record(m, "x:batch-too-large", (long) npts, (long) m->batch_eff);
    Slot *s = tl_slot;
    if (s){ Call c; c.tid = tid; c.seq = q; c.x.assign(x, x + npts * (size_t) m->dims); c.y_on_entry = y_on_entry; c.sample = -1; s->calls.push_back(std::move(c)); }
    model_latency(m, x, tid);
    for(size_t i=0; i<npts; i++) for(int k=0; k<m->outs; k++)
        y[i * (size_t) m->outs + (size_t) k] = model_value(m, x + i * (size_t) m->dims, k, gen);
    if (tid_ok) m->inflight[tid].store(0, std::memory_order_relaxed);
    record(m, "model-end", (long) tid, (long) npts);
}

// ------------------------------------------------------------------------------------------------
// merged trace
// ------------------------------------------------------------------------------------------------
struct MEv{ uint64_t seq; std::string tag; long a, b; int slot; };
static std::vector<MEv> merged_trace(Mon *m){
    std::vector<MEv> t;
    int ns = std::min(m->nslots.load(std::memory_order_relaxed), MAX_SLOTS);
    for(int i=0; i<ns; i++){
        Slot &s = m->slots[i];
        Ev *e = s.ev;
        uint32_t n = s.n.load(std::memory_order_relaxed);
        for(uint32_t j=0; e && j<n; j++){
            const char *tg = e[j].tag.load(std::memory_order_relaxed);
            t.push_back(MEv{e[j].seq.load(std::memory_order_relaxed), tg ? tg : "?", e[j].a.load(std::memory_order_relaxed), e[j].b.load(std::memory_order_relaxed), i});
        }
    }
    std::sort(t.begin(), t.end(), [](MEv const &p, MEv const &q){ return p.seq < q.seq; });
    return t;
}
static std::string trace_tail(std::vector<MEv> const &t, size_t upto, size_t n = 14){
    std::string r = "[";
    size_t b = (upto + 1 > n) ? upto + 1 - n : 0;
    for(size_t i=b; i<=upto && i<t.size(); i++){
        if (i > b) r += ",";
        r += jstr("T" + std::to_string(t[i].slot) + " " + t[i].tag + "(" + std::to_string(t[i].a) + "," + std::to_string(t[i].b) + ")");
    }
    return r + "]";
}
static bool is_blocking_point(std::string const &tag){
    return (tag == "w-wait" || tag == "m-wait" || tag == "m-join" || tag == "w-lock" || tag == "l-lock" || tag == "l-join");
}
static bool is_final(std::string const &tag){ return (tag == "w-exit" || tag == "m-end" || tag == "l-end" || tag == "l-exit"); }

// ------------------------------------------------------------------------------------------------
// in-process watchdog: deadlock = no event at all for stall_ms while every live thread's last event is a blocking point
// ------------------------------------------------------------------------------------------------
struct Watchdog{
    std::atomic<int> stop{0};
    std::thread th;
    void start(Mon *m, CaseCtx *c, long stall_ms){
        th = std::thread([this, m, c, stall_ms](){
            uint64_t last = m->seq.load(std::memory_order_relaxed);
            auto t_last = std::chrono::steady_clock::now();
            while(stop.load(std::memory_order_relaxed) == 0){
                nap_us(20000);
                uint64_t now = m->seq.load(std::memory_order_relaxed);
                auto t_now = std::chrono::steady_clock::now();
                if (now != last){ last = now; t_last = t_now; continue; }
                long ms = (long) std::chrono::duration_cast<std::chrono::milliseconds>(t_now - t_last).count();
                if (ms < stall_ms || now == 0) continue;
                // logical criterion
                int ns = std::min(m->nslots.load(std::memory_order_relaxed), MAX_SLOTS);
                int live = 0, blocked = 0; std::string state = "[", kinds;
                std::set<std::string> lastset;
                for(int i=0; i<ns; i++){
                    Slot &s = m->slots[i];
                    uint32_t n = s.n.load(std::memory_order_relaxed);
                    Ev *e = s.ev;
                    if (!e || n == 0) continue;
                    std::string tag = e[n-1].tag.load(std::memory_order_relaxed);
                    if (is_final(tag)) continue;
                    live++;
                    if (is_blocking_point(tag)){ blocked++; lastset.insert(tag); }
                    state += std::string(live > 1 ? "," : "") + jstr("T" + std::to_string(i) + " last=" + tag + "(" + std::to_string(e[n-1].a.load(std::memory_order_relaxed)) + ","
                             + std::to_string(e[n-1].b.load(std::memory_order_relaxed)) + ") events=" + std::to_string(n));
                }
                state += "]";
                if (live > 0 && blocked == live){
                    for(auto const &k : lastset) kinds += (kinds.empty() ? "" : "+") + k;
                    // the case cannot be unwound (its threads are blocked): report and leave the process; check.py restarts at the next case
                    printf("V %lld deadlock:all-live-threads-blocked:%s %s\n", c->index, kinds.c_str(),
                           J().i("stalled_ms", ms).i("live_threads", live).kv("threads", state).i("events_total", (long long) now).obj().c_str());
                    fflush(stdout);
                    _exit(97);
                }
                // otherwise: somebody is inside a callback or running; keep waiting (check.py's wall-clock watchdog is the backstop)
            }
        });
    }
    void finish(){ stop.store(1, std::memory_order_relaxed); if (th.joinable()) th.join(); }
};

// ------------------------------------------------------------------------------------------------
// helpers for the final-grid oracles
// ------------------------------------------------------------------------------------------------
struct PointSet{ // exact-bit map with a tolerance fallback (coordinates of the same node computed on two routes)
    int d;
    std::map<PKey, int> m;
    std::vector<std::vector<double>> pts;
    explicit PointSet(int dims) : d(dims){}
    int find(const double *x) const{
        auto it = m.find(pkey(x, d));
        if (it != m.end()) return it->second;
        for(size_t i=0; i<pts.size(); i++){
            bool eq = true;
            for(int j=0; j<d && eq; j++) eq = (std::fabs(pts[i][(size_t) j] - x[j]) <= 1e-11 * (1.0 + std::fabs(x[j])));
            if (eq) return (int) i;
        }
        return -1;
    }
    int add(const double *x){ int id = (int) pts.size(); m[pkey(x, d)] = id; pts.emplace_back(x, x + d); return id; }
};
static std::vector<double> pt(const double *x, int d){ return std::vector<double>(x, x + d); }
static uint64_t hash_trace(std::vector<MEv> const &t){
    uint64_t h = 0xCBF29CE484222325ull;
    for(auto const &e : t){
        for(char ch : e.tag){ h ^= (unsigned char) ch; h *= 0x100000001B3ull; }
        h ^= (uint64_t) e.a * 0x9E3779B97F4A7C15ull; h *= 0x100000001B3ull;
        h ^= (uint64_t) e.b * 0xC2B2AE3D27D4EB4Full; h *= 0x100000001B3ull;
    }
    return h;
}
static std::string hex64(uint64_t v){ char b[20]; snprintf(b, sizeof(b), "%016llx", (unsigned long long) v); return b; }

// events recorded by the callbacks themselves (x:...) -> violations
static void report_callback_events(std::vector<MEv> const &t, CaseCtx &c, std::string const &ctx){
    for(size_t i=0; i<t.size(); i++){
        auto const &e = t[i];
        if (e.tag.compare(0, 2, "x:") != 0) continue;
        std::string what = e.tag.substr(2);
        std::string key = (what == "overlap") ? "model:concurrent-calls-same-thread-id" : (what == "bad-thread-id") ? "model:thread-id-out-of-range"
                        : (what == "bad-x-size") ? "model:bad-x-size" : (what == "batch-too-large") ? "model:more-samples-than-max-samples-per-job" : "model:" + what;
        c.viol(key + ":" + ctx, J().i("a", e.a).i("b", e.b).kv("trace", trace_tail(t, i)).obj());
    }
}

// ------------------------------------------------------------------------------------------------
// protocol checker for constructCommon<mode_parallel> (validates the merged trace against the intended protocol)
// ------------------------------------------------------------------------------------------------
struct ProtoResult{ long initial_assigned = 0, total_assigned = 0, lib_total = -1, lib_initial = -1, rounds = 0, jobs = 0; bool complete = false; };
static ProtoResult check_protocol_construct(std::vector<MEv> const &t, CaseCtx &c, std::string const &ctx){
    enum St{ none, computing, done, collected, shutdown };
    ProtoResult R;
    std::map<long, St> st; std::map<long, bool> has_thread, exited, in_model;
    std::map<long, long> assigned_n;
    long pending_done = 0, to_collect = -1, collected_in_round = 0;
    bool begun = false, initial_phase = true, ended = false;
    int reported = 0;
    auto bad = [&](std::string const &rule, size_t i){
        if (reported++ < 3) c.viol("protocol:" + rule + ":" + ctx, J().str("event", t[i].tag).i("a", t[i].a).i("b", t[i].b).kv("trace", trace_tail(t, i)).obj());
    };
    auto close_round = [&](size_t i){
        if (to_collect >= 0 && collected_in_round != to_collect) bad("count_done-differs-from-done-flags-collected", i);
        to_collect = -1; collected_in_round = 0;
    };
    for(size_t i=0; i<t.size(); i++){
        auto const &e = t[i];
        std::string const &g = e.tag;
        if (g == "m-begin"){ begun = true; R.jobs = e.a; R.lib_initial = e.b; continue; }
        if (g.compare(0, 2, "x:") == 0 || g[0] == 'l') continue;
        if (g == "model-begin" || g == "model-end") continue;
        if (!begun) continue;
        long id = e.a;
        if (g == "m-assign"){
            St s = st.count(id) ? st[id] : none;
            if (initial_phase){ if (s != none) bad("initial-assign-twice", i); R.initial_assigned += e.b; has_thread[id] = true; }
            else if (s != collected) bad((s == computing) ? "work-assigned-while-computing" : (s == shutdown) ? "work-assigned-after-shutdown" : "work-assigned-without-collect", i);
            if (e.b <= 0) bad("empty-job-assigned", i);
            st[id] = computing; assigned_n[id] = e.b; R.total_assigned += e.b;
        }else if (g == "m-shutdown"){
            St s = st.count(id) ? st[id] : none;
            if (initial_phase){ if (s != none) bad("initial-shutdown-of-assigned-worker", i); }
            else if (s != collected) bad("shutdown-without-collect", i);
            st[id] = shutdown;
        }else if (g == "w-model"){
            if (!st.count(id) || st[id] != computing) bad("model-call-without-assignment", i);
            if (in_model[id]) bad("worker-in-model-twice", i);
            if (assigned_n.count(id) && assigned_n[id] != e.b) bad("job-size-changed-under-worker", i);
            in_model[id] = true;
        }else if (g == "w-lock"){
            in_model[id] = false;
        }else if (g == "w-done"){
            if (!st.count(id) || st[id] != computing) bad("done-without-computing", i);
            st[id] = done; pending_done++;
            if (e.b != pending_done) bad("count_done-not-number-of-done-since-reset", i);
        }else if (g == "m-wait"){
            initial_phase = false;
            close_round(i);
            long outstanding = 0; for(auto const &kv : st) if (kv.second == computing || kv.second == done) outstanding++;
            if (e.a <= 0 || outstanding == 0) bad("main-waits-with-nothing-running", i);
            R.rounds++;
        }else if (g == "m-wake"){
            if (e.a != pending_done || e.a <= 0) bad("main-woke-with-wrong-count_done", i);
            to_collect = e.a; collected_in_round = 0; pending_done = 0;
        }else if (g == "m-collect"){
            if (!st.count(id) || st[id] != done) bad("collect-of-worker-not-done", i);
            st[id] = collected; collected_in_round++;
        }else if (g == "m-notify"){
            close_round(i);
            for(auto const &kv : st) if (kv.second == collected) bad("collected-worker-left-without-command", i);
        }else if (g == "w-wake"){
            St s = st.count(id) ? st[id] : none;
            if (e.b == 0) bad("worker-woke-with-done-flag", i);
            else if (e.b == 1 && s != computing) bad("worker-woke-computing-without-assignment", i);
            else if (e.b == 2 && s != shutdown) bad("worker-woke-shutdown-without-command", i);
        }else if (g == "w-exit"){
            if (!st.count(id) || st[id] != shutdown) bad("worker-exit-before-shutdown", i);
            exited[id] = true;
        }else if (g == "m-join"){
            initial_phase = false;
            close_round(i);
            for(auto const &kv : st) if (kv.second != shutdown) bad("join-with-worker-not-shut-down", i);
        }else if (g == "m-end"){
            ended = true; R.lib_total = e.a;
            for(auto const &kv : has_thread) if (kv.second && !exited[kv.first]) bad("worker-thread-not-finished-at-return", i);
        }
        if (st.count(id) && st[id] == shutdown && (g == "w-model" || g == "w-done")) bad("activity-after-shutdown", i);
    }
    R.complete = begun && ended;
    return R;
}

// work queue of the threaded loadNeededValues
static void check_protocol_load(std::vector<MEv> const &t, CaseCtx &c, int num_points, size_t num_threads, std::string const &ctx){
    std::vector<int> picked((size_t) num_points, 0);
    std::map<long, long> last_pick; std::set<long> finished;
    int reported = 0;
    auto bad = [&](std::string const &rule, size_t i){
        if (reported++ < 3) c.viol("protocol:" + rule + ":" + ctx, J().str("event", t[i].tag).i("a", t[i].a).i("b", t[i].b).kv("trace", trace_tail(t, i)).obj());
    };
    bool joined = false;
    for(size_t i=0; i<t.size(); i++){
        auto const &e = t[i];
        if (e.tag == "l-pick"){
            if (e.a < 0 || (size_t) e.a >= num_threads) bad("queue-thread-id-out-of-range", i);
            if (e.b < num_points){
                if (e.b < 0){ bad("queue-negative-sample", i); continue; }
                if (picked[(size_t) e.b]++) bad("sample-picked-twice", i);
                if (last_pick.count(e.a) && last_pick[e.a] >= e.b) bad("queue-pick-not-increasing", i);
                last_pick[e.a] = e.b;
            }else finished.insert(e.a);
            if (joined) bad("queue-activity-after-join", i);
        }else if (e.tag == "l-model"){
            if (!last_pick.count(e.a) || last_pick[e.a] != e.b) bad("model-call-for-sample-not-picked-by-thread", i);
        }else if (e.tag == "l-end"){
            joined = true;
            if (finished.size() != num_threads) bad("not-all-loader-threads-drained-the-queue", i);
        }
    }
    if (!joined) return;
    for(int i=0; i<num_points; i++) if (picked[(size_t) i] != 1){
        c.viol("protocol:sample-never-picked:" + ctx, J().i("sample", i).i("times", picked[(size_t) i]).obj());
        break;
    }
}

// ------------------------------------------------------------------------------------------------
// case generation
// ------------------------------------------------------------------------------------------------
struct CCase{
    Cfg cfg;
    int overload = 0;          // 0 surplus (tolerance, criteria), 1 anisotropic fixed weights, 2 anisotropic estimated (type, output)
    bool parallel = true, guess = false, preload = false, user_began = false, limits_in_call = false;
    size_t budget = 0, jobs = 1, batch = 1;
    std::string budget_class;
    double tol = 0.0; TypeRefinement crit = refine_classic; int output = -1;
    TypeDepth ctype = type_iptotal; std::vector<int> weights; std::vector<int> limits;
    int vmode = 0, latency = 0, slow_tid = 0, perturb = 0; std::string focus;
};
static const char* lat_name(int l){ static const char *n[] = {"zero", "uniform", "one-slow-worker", "bursty", "coarse-points-slowest"}; return n[l]; }
static const char* per_name(int p){ static const char *n[] = {"none", "light", "heavy", "focus"}; return n[p]; }

static void draw_schedule(Rng &rng, int &latency, int &perturb, std::string &focus, bool load){
    { static const int lw[] = {0, 0, 0, 1, 1, 1, 1, 2, 2, 2, 2, 3, 3, 3, 4, 4, 4, 4, 4, 4}; latency = lw[rng.range(0, 19)]; } // 30% coarse-points-slowest (children overtake parents)
    perturb = rng.range(0, 3);
    if (perturb == 3){
        static const std::vector<std::string> fc = {"w-model", "w-lock", "w-done", "w-notify", "w-wait", "w-wake", "m-wait", "m-wake", "m-collect", "m-assign", "m-shutdown", "m-notify", "m-join"};
        static const std::vector<std::string> fl = {"l-lock", "l-pick", "l-model", "l-join"};
        focus = load ? rng.pick(fl) : rng.pick(fc);
    }
}

static std::vector<TypeOneDRule> const& construct_global_rules(){
    static std::vector<TypeOneDRule> v = {rule_clenshawcurtis, rule_clenshawcurtis0, rule_fejer2, rule_leja, rule_rleja, rule_rlejadouble2, rule_rlejadouble4,
        rule_rlejashifted, rule_rlejashiftedeven, rule_minlebesgue, rule_mindelta};
    return v;
}

static CCase draw_construct(Rng &rng, bool thorough){
    CCase k;
    Cfg &c = k.cfg;
    int f = rng.range(0, 99);
    c.family = (f < 35) ? fam_localp : (f < 45) ? fam_wavelet : (f < 65) ? fam_global : (f < 85) ? fam_sequence : fam_fourier;
    c.dims = rng.range(1, 3); if (c.family == fam_wavelet) c.dims = rng.range(1, 2);
    c.outs = rng.range(1, 2);
    c.depth = rng.range(0, 2);
    switch(c.family){
        case fam_localp: c.rule = rng.pick(localp_rules()); { static const int ords[] = {0, 1, 1, 2, 2, 3, -1}; c.order = ords[rng.range(0, 6)]; } c.depth = rng.range(1, 3); break;
        case fam_wavelet: c.rule = rule_wavelet; c.order = rng.coin() ? 1 : 3; c.depth = rng.range(0, 1); break;
        case fam_global: c.rule = rng.pick(construct_global_rules()); c.type = rng.coin() ? type_level : type_iptotal; break;
        case fam_sequence: c.rule = rng.pick(sequence_rules()); c.type = rng.coin() ? type_level : type_iptotal; break;
        default: c.rule = rule_fourier; c.type = type_level; c.depth = rng.range(0, 1); break;
    }
    if (rng.coin(0.25)){
        c.ta.resize((size_t) c.dims); c.tb.resize((size_t) c.dims);
        for(int j=0; j<c.dims; j++){ double ce = rng.uni(-3.0, 3.0), h = std::exp(rng.uni(-2.0, 2.0)); c.ta[(size_t) j] = ce - h; c.tb[(size_t) j] = ce + h; }
    }
    // level limits bound the candidate pool (so that "budget larger than the pool" terminates)
    int maxlim = (c.dims == 1) ? 5 : (c.dims == 2) ? 3 : 2;
    if (c.family == fam_fourier) maxlim = (c.dims == 1) ? 3 : (c.dims == 2) ? 2 : 1;
    if (c.family == fam_wavelet) maxlim = (c.dims == 1) ? 4 : 2;
    if (c.family == fam_sequence || (c.family == fam_global && !(c.rule == rule_clenshawcurtis || c.rule == rule_clenshawcurtis0 || c.rule == rule_fejer2
        || c.rule == rule_rlejadouble2 || c.rule == rule_rlejadouble4))) maxlim = (c.dims == 1) ? 12 : (c.dims == 2) ? 7 : 4;
    bool limited = rng.coin(0.6);
    if ((c.family == fam_global || c.family == fam_sequence) && is_optimized_sequence(c.rule)) limited = true; // the nodes of the greedy sequences are optimised numerically: keep them few
    if (limited){
        k.limits.resize((size_t) c.dims);
        for(auto &l : k.limits) l = rng.range(std::min(maxlim, std::max(1, c.depth)), maxlim);
        k.limits_in_call = rng.coin(0.6);
        if (!k.limits_in_call) c.limits = k.limits; // limits given when the grid is made, construction must pick them up
    }
    k.overload = (c.family == fam_localp || c.family == fam_wavelet) ? 0 : rng.range(1, 2);
    k.parallel = !rng.coin(0.06);
    k.guess = rng.coin(0.3);
    k.preload = rng.coin(0.4);
    k.user_began = rng.coin(0.15);
    k.jobs = (size_t) rng.range(1, 8); if (rng.coin(0.03)) k.jobs = 0;
    k.batch = (size_t) rng.range(1, 4); if (rng.coin(0.4)) k.batch = 1; if (rng.coin(0.03)) k.batch = 0;
    k.vmode = rng.coin(0.5) ? 1 : 0;
    // budget classes (relative to the points loaded before the call; resolved in run_construct once the grid exists)
    static const std::vector<std::string> bc = {"below-loaded", "less-than-workers", "equal-workers-times-batch", "medium", "medium", "larger-than-pool", "tolerance-first"};
    k.budget_class = rng.pick(bc);
    // bounded work: an unlimited budget needs level limits (finite pool); "tolerance reached before the budget" needs the smooth model and a rule that
    // can approximate it (the zero-boundary rule refines towards the boundary for ever) and still gets a finite safety budget
    if (k.budget_class == "larger-than-pool" && !limited) k.budget_class = "medium";
    if (k.budget_class == "tolerance-first" && !(k.overload == 0 && c.rule != rule_localp0)) k.budget_class = limited ? "larger-than-pool" : "medium";
    if (k.budget_class == "tolerance-first") k.vmode = 1;
    if (k.overload == 0 && !limited){
        // surplus refinement can chase a non-decaying surplus (zero-boundary rule on a non-vanishing model, classic criterion with missing parents) down one
        // direction; at level 30 the library's int point index overflows (UB / endless loop in intlog2) - that is C08's subject, keep the depth bounded here
        int safe = (c.family == fam_wavelet) ? ((c.dims == 1) ? 6 : 4) : ((c.dims == 1) ? 10 : (c.dims == 2) ? 7 : 5);
        k.limits.assign((size_t) c.dims, safe);
        k.limits_in_call = rng.coin(0.6);
        if (!k.limits_in_call) c.limits = k.limits;
    }
    k.budget = (size_t) rng.range(12, thorough ? 160 : 90); // the "medium" value
    if (k.overload == 0){
        k.tol = (k.vmode == 1) ? std::exp(rng.uni(std::log(2e-3), std::log(5e-2))) : (rng.coin(0.5) ? 0.0 : rng.uni(0.05, 0.5));
        static const TypeRefinement cr[] = {refine_classic, refine_parents_first, refine_direction_selective, refine_fds, refine_stable};
        k.crit = cr[rng.range(0, 4)];
        k.output = rng.range(-1, c.outs - 1);
    }else{
        static const TypeDepth ty[] = {type_level, type_iptotal, type_qptotal, type_ipcurved, type_iphyperbolic, type_iptensor};
        k.ctype = ty[rng.range(0, 5)];
        if (k.ctype == type_iphyperbolic && limited) k.ctype = type_iptotal;
        if (k.overload == 1){
            size_t n = (size_t) c.dims * (is_curved(k.ctype) ? 2 : 1);
            k.weights.resize(n);
            for(size_t i=0; i<n; i++) k.weights[i] = (i < (size_t) c.dims) ? rng.range(1, 3) : rng.range(0, 1);
        }else k.output = rng.range((c.family == fam_global) ? 0 : -1, c.outs - 1); // -1 = all outputs is documented for Sequence and Fourier grids only
    }
    draw_schedule(rng, k.latency, k.perturb, k.focus, false);
    k.slow_tid = rng.range(0, (int) std::max<size_t>(k.jobs, 1) - 1);
    return k;
}

static std::string ccase_json(CCase const &k, size_t initial_loaded, size_t budget){
    J j;
    j.str("mode", k.parallel ? "construct-parallel" : "construct-sequential").kv("grid", k.cfg.json()).i("overload", k.overload).b("initial_guess", k.guess)
     .i("num_parallel_jobs", (long long) k.jobs).i("max_samples_per_job", (long long) k.batch).str("budget_class", k.budget_class)
     .str("max_num_points", budget == std::numeric_limits<size_t>::max() ? "max" : std::to_string(budget)).i("loaded_before", (long long) initial_loaded)
     .b("beginConstruction_by_user", k.user_began);
    if (k.overload == 0) j.num("tolerance", k.tol).str("criteria", refname(k.crit)).i("output", k.output);
    else{ j.str("type", tname(k.ctype)); if (k.overload == 1) j.vec("weights", k.weights); else j.i("output", k.output); }
    if (!k.limits.empty()){ j.vec("level_limits", k.limits); j.b("limits_in_call", k.limits_in_call); }
    j.str("values", k.vmode ? "smooth+tag" : "hash").str("latency", lat_name(k.latency)).str("perturb", per_name(k.perturb));
    if (!k.focus.empty()) j.str("focus", k.focus);
    return j.obj();
}

template<bool par, bool guess>
static void call_construct(CCase const &k, ModelSignature model, size_t budget, TasmanianSparseGrid &g){
    std::vector<int> lim = k.limits_in_call ? k.limits : std::vector<int>();
    if (k.overload == 0) constructSurrogate<par, guess>(model, budget, k.jobs, k.batch, g, k.tol, k.crit, k.output, lim);
    else if (k.overload == 1) constructSurrogate<par, guess>(model, budget, k.jobs, k.batch, g, k.ctype, k.weights, lim);
    else constructSurrogate<par, guess>(model, budget, k.jobs, k.batch, g, k.ctype, k.output, lim);
}
static std::vector<double> candidates_of(CCase const &k, TasmanianSparseGrid &g){
    std::vector<int> lim = k.limits; // by now the limits are stored in the grid either way; passing them again is equivalent
    if (k.overload == 0) return g.getCandidateConstructionPoints(k.tol, k.crit, k.output, lim);
    if (k.overload == 1) return g.getCandidateConstructionPoints(k.ctype, k.weights, lim);
    return g.getCandidateConstructionPoints(k.ctype, k.output, lim);
}

static void set_tsan_log(CaseCtx const &c){
#if defined(__SANITIZE_THREAD__)
    static std::string dir = [](){ const char *e = getenv("VF_TSAN_LOGDIR"); return std::string(e ? e : ""); }();
    if (!dir.empty()){
        std::string p = dir + "/c18." + std::to_string(c.seed) + "." + std::to_string(c.index);
        __sanitizer_set_report_path(p.c_str());
    }
#else
    (void) c;
#endif
}

// ------------------------------------------------------------------------------------------------
// constructSurrogate
// ------------------------------------------------------------------------------------------------
static void run_construct(CaseCtx &c, Rng &rng){
    CCase k = draw_construct(rng, c.thorough);
    TasmanianSparseGrid g;
    std::string err;
    if (!make_grid(g, k.cfg, 120, &err)){ emit_begin(c, ccase_json(k, 0, 0)); c.inconc("make-grid-failed"); return; }
    int d = k.cfg.dims, outs = k.cfg.outs;

    std::unique_ptr<Mon> mon(new Mon());
    Mon *m = mon.get();
    m->gen = ++g_gen_counter;
    m->dims = d; m->outs = outs; m->vmode = k.vmode; m->gen_tag = 0;
    m->jobs_eff = k.parallel ? std::max<size_t>(1, k.jobs) : 1; m->batch_eff = std::max<size_t>(1, k.batch); m->guess = k.guess;
    m->latency = k.latency; m->slow_tid = k.slow_tid; m->lat_seed = rng.next();
    m->perturb = k.perturb; m->focus = k.focus; m->perturb_seed = rng.next();
    domain_box(g, m->dom_a, m->dom_b);

    // state before the call
    PointSet before(d);
    if (k.preload && g.getNumNeeded() > 0){
        std::vector<double> p = g.getNeededPoints();
        std::vector<double> v((size_t) g.getNumNeeded() * (size_t) outs);
        for(int i=0; i<g.getNumNeeded(); i++) for(int o=0; o<outs; o++) v[(size_t) i * (size_t) outs + (size_t) o] = model_value(m, &p[(size_t) i * (size_t) d], o, 0);
        g.loadNeededValues(v);
        for(int i=0; i<g.getNumLoaded(); i++) before.add(&p[(size_t) i * (size_t) d]);
    }
    size_t initial_loaded = (size_t) g.getNumLoaded();
    size_t W = m->jobs_eff, B = m->batch_eff;
    size_t budget;
    if (k.budget_class == "below-loaded") budget = (initial_loaded == 0) ? 0 : (size_t) rng.range(0, (int) initial_loaded);
    else if (k.budget_class == "less-than-workers") budget = initial_loaded + (size_t) rng.range(1, (int) std::max<size_t>(1, W * B - 1));
    else if (k.budget_class == "equal-workers-times-batch") budget = initial_loaded + W * B;
    else if (k.budget_class == "larger-than-pool") budget = rng.coin(0.5) ? std::numeric_limits<size_t>::max() : initial_loaded + 100000;
    else if (k.budget_class == "tolerance-first") budget = initial_loaded + (size_t)(k.cfg.family == fam_wavelet ? 150 : (c.thorough ? 900 : 500));
    else budget = initial_loaded + k.budget;
    size_t allowed = (budget > initial_loaded) ? budget - initial_loaded : 0;
    if (k.user_began) g.beginConstruction();
    emit_begin(c, ccase_json(k, initial_loaded, budget));
    set_tsan_log(c);

    std::string ctx = std::string(k.parallel ? "parallel" : "sequential");
    ModelSignature model = [m, d, outs](std::vector<double> const &x, std::vector<double> &y, size_t tid)->void{
        size_t npts = x.size() / (size_t) d;
        size_t y_on_entry = y.size();
        y.resize(npts * (size_t) outs);
        model_common(x.data(), npts, x.size(), y.data(), tid, y_on_entry, 0);
    };

    Watchdog wd;
    g_mon.store(m, std::memory_order_relaxed);
    g_hook_handler.store(&c18_hook_handler, std::memory_order_relaxed);
    wd.start(m, &c, (long) argi("stall_ms", 4000));
    std::string thrown;
    try{
        if (k.parallel){ if (k.guess) call_construct<true, true>(k, model, budget, g); else call_construct<true, false>(k, model, budget, g); }
        else{ if (k.guess) call_construct<false, true>(k, model, budget, g); else call_construct<false, false>(k, model, budget, g); }
    }catch(std::exception &e){ thrown = exception_class(e) + ": " + e.what(); }
    wd.finish();
    g_hook_handler.store(nullptr, std::memory_order_relaxed);
    g_mon.store(nullptr, std::memory_order_relaxed);

    std::vector<MEv> t = merged_trace(m);
    if (!thrown.empty()){
        c.viol("exception:" + thrown.substr(0, thrown.find(':')) + ":" + ctx + ":" + fam_name(k.cfg.family), J().str("what", thrown).kv("trace", trace_tail(t, t.empty() ? 0 : t.size() - 1)).obj());
        return;
    }
    bool dropped = m->slot_overflow.load() != 0;
    for(int i=0; i<std::min(m->nslots.load(), MAX_SLOTS); i++) if (m->slots[i].dropped.load()) dropped = true;

    // ---- model-call log -------------------------------------------------------------------------
    report_callback_events(t, c, ctx);
    std::vector<Call const*> calls;
    for(int i=0; i<std::min(m->nslots.load(), MAX_SLOTS); i++) for(auto const &cl : m->slots[i].calls) calls.push_back(&cl);
    std::sort(calls.begin(), calls.end(), [](Call const *p, Call const *q){ return p->seq < q->seq; });
    PointSet computed(d);
    size_t samples = 0;
    for(auto cl : calls){
        size_t npts = cl->x.size() / (size_t) d;
        samples += npts;
        // documented state of y on entry
        if (k.guess){ if (cl->y_on_entry != 0 && cl->y_on_entry != npts * (size_t) outs) c.viol("model:y-size-on-entry:with-initial-guess:" + ctx, J().i("y_size", (long long) cl->y_on_entry).i("samples", (long long) npts).obj()); }
        else if (cl->y_on_entry != npts * (size_t) outs) c.viol("model:y-size-on-entry:no-initial-guess:" + ctx, J().i("y_size", (long long) cl->y_on_entry).i("samples", (long long) npts).i("outputs", outs).obj());
        for(size_t i=0; i<npts; i++){
            const double *x = &cl->x[i * (size_t) d];
            if (before.find(x) >= 0) c.viol("exactly-once:model-called-on-point-loaded-before-the-call:" + ctx, J().vec("x", pt(x, d)).i("thread_id", (long long) cl->tid).obj());
            if (computed.find(x) >= 0) c.viol("exactly-once:model-called-twice-for-a-point:" + ctx, J().vec("x", pt(x, d)).i("thread_id", (long long) cl->tid).i("call_seq", (long long) cl->seq).obj());
            else computed.add(x);
        }
    }
    c.count("samples_computed", (long long) samples);
    c.count("model_calls", (long long) calls.size());
    if (argi("dump", 0) && c.nviol > 0){ // debugging aid: the merged trace and the model calls on stderr
        for(auto const &e : t) fprintf(stderr, "EV %llu T%d %s(%ld,%ld)\n", (unsigned long long) e.seq, e.slot, e.tag.c_str(), e.a, e.b);
        for(auto cl : calls){ fprintf(stderr, "CALL seq=%llu tid=%zu x=", (unsigned long long) cl->seq, cl->tid); for(double v : cl->x) fprintf(stderr, "%g ", v); fprintf(stderr, "\n"); }
    }

    // ---- protocol -------------------------------------------------------------------------------
    ProtoResult pr;
    if (k.parallel && !dropped){
        pr = check_protocol_construct(t, c, ctx);
        if (!pr.complete) c.viol("protocol:trace-incomplete:" + ctx, J().i("events", (long long) t.size()).obj());
        else{
            if (pr.total_assigned != (long) samples) c.viol("protocol:samples-assigned-differ-from-samples-seen-by-model:" + ctx, J().i("assigned", pr.total_assigned).i("model", (long long) samples).obj());
            if (pr.lib_total - pr.lib_initial != (long) samples) c.viol("protocol:library-launch-counter-differs-from-model-samples:" + ctx, J().i("library", pr.lib_total - pr.lib_initial).i("model", (long long) samples).obj());
            if (pr.lib_initial != (long) initial_loaded) c.viol("protocol:launch-counter-does-not-start-at-loaded-points:" + ctx, J().i("library", pr.lib_initial).i("loaded", (long long) initial_loaded).obj());
        }
        c.count("main_loop_rounds", pr.rounds);
        c.counters["max_workers"] = std::max(c.counters["max_workers"], (long long) W);
    }
    if (dropped) c.count("trace_buffer_overflow");

    // ---- budget ---------------------------------------------------------------------------------
    if (samples > allowed){
        std::string site = !k.parallel ? "sequential" : ((size_t) pr.initial_assigned > allowed ? "initial-launch-loop" : "refill");
        std::string cls = (budget <= initial_loaded) ? "budget-not-above-loaded-points" : (allowed < W ? "remaining-budget-below-worker-count" : (allowed < W * B ? "remaining-budget-below-workers-times-batch" : "other"));
        c.viol("budget-exceeded:" + site + ":" + cls, J().i("max_num_points", (long long) budget).i("loaded_before", (long long) initial_loaded).i("allowed_samples", (long long) allowed)
               .i("samples_launched", (long long) samples).i("initial_launch", pr.initial_assigned).i("workers", (long long) W).i("max_samples_per_job", (long long) B).obj());
    }

    // ---- final grid: every loaded value is the model at its point --------------------------------
    int nl = g.getNumLoaded();
    std::vector<double> lp = (nl > 0) ? g.getLoadedPoints() : std::vector<double>();
    const double *lv = (nl > 0) ? g.getLoadedValues() : nullptr;
    size_t from_model = 0;
    for(int i=0; i<nl; i++){
        const double *x = &lp[(size_t) i * (size_t) d];
        int ib = before.find(x), ic = computed.find(x);
        if (ib < 0 && ic < 0){ c.viol("values:loaded-point-never-computed:" + ctx, J().vec("x", pt(x, d)).i("point", i).obj()); break; }
        const double *xs = (ic >= 0) ? computed.pts[(size_t) ic].data() : before.pts[(size_t) ib].data(); // the coordinates the model saw
        if (ic >= 0) from_model++;
        bool okv = true;
        for(int o=0; o<outs && okv; o++) okv = same_bits(lv[(size_t) i * (size_t) outs + (size_t) o], model_value(m, xs, o, 0));
        if (!okv){
            c.viol("values:loaded-value-is-not-the-model-at-its-point:" + ctx, J().vec("x", pt(x, d)).i("point", i).num("loaded", lv[(size_t) i * (size_t) outs]).num("model", model_value(m, xs, 0, 0)).obj());
            break;
        }
    }
    if ((size_t) nl < before.pts.size()) c.viol("values:points-loaded-before-the-call-lost:" + ctx, J().i("before", (long long) before.pts.size()).i("after", nl).obj());
    c.count("loaded_points_checked", nl);
    c.count("samples_pending_not_in_grid", (long long)(samples - std::min(samples, from_model)));

    // ---- documented termination reasons: budget, tolerance/limits (no candidate left) -----------
    if (g.isUsingConstruction()){
        std::vector<double> cand;
        try{ cand = candidates_of(k, g); }catch(std::exception &e){ c.viol("exception-after:" + exception_class(e) + ":candidates", J().str("what", e.what()).obj()); return; }
        size_t nc = cand.size() / (size_t) d;
        if (samples < allowed && nc > 0)
            c.viol("terminated-early:budget-left-and-candidates-left:" + ctx, J().i("allowed_samples", (long long) allowed).i("samples", (long long) samples).i("candidates", (long long) nc).obj());
        for(size_t i=0; i<nc; i++) if (computed.find(&cand[i * (size_t) d]) >= 0){
            c.viol("values:computed-sample-offered-again-as-candidate:" + ctx, J().vec("x", pt(&cand[i * (size_t) d], d)).obj()); break;
        }
        std::string why = (samples >= allowed) ? "budget" : "no-candidates";
        c.count("stop:" + why);
    }else c.viol("state:not-using-construction-after-return:" + ctx, "{}");

    // ---- surrogate reproduces the loaded values --------------------------------------------------
    if (nl > 0){
        bool can = true;
        if (g.isLocalPolynomial()){ int ok = all_parents_loaded(g); if (ok != 1){ can = false; c.count("reproduction-skipped:incomplete-hierarchy-or-order0"); } }
        if (can){ TasmanianSparseGrid fin = g; fin.finishConstruction(); if (fin.getNumLoaded() == nl) check_reproduction(fin, c, rng, "reproduce", "constructSurrogate"); }
    }
    if (nl == 0 && samples == 0){ c.count("trivial:nothing-to-do"); if (allowed > 0 && !k.preload) c.inconc("no-candidates-at-all"); }

    // ---- coverage -------------------------------------------------------------------------------
    c.count(std::string("mode:") + (k.parallel ? "construct-parallel" : "construct-sequential"));
    c.count(std::string("family:") + fam_name(k.cfg.family));
    c.count("budget_class:" + k.budget_class);
    c.count(std::string("latency:") + lat_name(k.latency));
    c.count("trace_events", (long long) t.size());
    if (samples > 0 || nl > 0) c.sig(std::string(k.parallel ? "P:" : "S:") + hex64(hash_trace(t)));
}

// ------------------------------------------------------------------------------------------------
// loadNeededValues
// ------------------------------------------------------------------------------------------------
static void run_load(CaseCtx &c, Rng &rng){
    GenOpts go; go.max_dims = 3; go.max_outs = 3; go.min_outs = 1; go.conformal = false; go.max_depth = 5; go.max_points = 200; go.unbounded = true;
    Cfg cfg = gen_cfg(rng, go);
    bool overwrite = rng.coin(0.35), par = !rng.coin(0.1), vec_overload = rng.coin(0.4), alias = rng.coin(0.3), refined = rng.coin(0.45);
    static const int tcount[] = {1, 2, 2, 3, 4, 4, 6, 8, 8, 12, 16, 16};
    size_t threads = (size_t) tcount[rng.range(0, 11)]; if (rng.coin(0.05)) threads = 0;
    int latency, per; std::string focus;
    draw_schedule(rng, latency, per, focus, true);
    TasmanianSparseGrid g;
    std::string err;
    bool made = make_grid(g, cfg, 200, &err);
    J j; j.str("mode", "loadNeededValues").kv("grid", cfg.json()).i("num_threads", (long long) threads).b("parallel", par).b("overwrite_loaded", overwrite)
          .b("vector_overload", vec_overload).b("alias_loadNeededPoints", alias).b("refined_state", refined).str("latency", lat_name(latency)).str("perturb", per_name(per));
    if (!focus.empty()) j.str("focus", focus);
    if (!made){ emit_begin(c, j.obj()); c.inconc("make-grid-failed"); return; }
    int d = cfg.dims, outs = cfg.outs;

    std::unique_ptr<Mon> mon(new Mon());
    Mon *m = mon.get();
    m->gen = ++g_gen_counter;
    m->dims = d; m->outs = outs; m->vmode = 0;
    m->jobs_eff = (par && threads > 0) ? threads : 1; m->batch_eff = 1;
    m->latency = latency; m->slow_tid = rng.range(0, (int) std::max<size_t>(threads, 1) - 1); m->lat_seed = rng.next();
    m->perturb = per; m->focus = focus; m->perturb_seed = rng.next();
    domain_box(g, m->dom_a, m->dom_b);

    // state before the call: nothing loaded / loaded (generation 1) / loaded and refined (needed points present)
    PointSet before(d);
    if (refined || overwrite){
        std::vector<double> p = g.getNeededPoints();
        std::vector<double> v((size_t) g.getNumNeeded() * (size_t) outs);
        for(int i=0; i<g.getNumNeeded(); i++) for(int o=0; o<outs; o++) v[(size_t) i * (size_t) outs + (size_t) o] = H(&p[(size_t) i * (size_t) d], d, o, 1);
        g.loadNeededValues(v);
        if (refined){
            try{
                if (g.isLocalPolynomial() || g.isWavelet()) g.setSurplusRefinement(0.05, refine_classic);
                else if (g.isSequence() || (g.isGlobal() && std::find(nested_global_rules().begin(), nested_global_rules().end(), cfg.rule) != nested_global_rules().end()) || g.isFourier())
                    g.setAnisotropicRefinement(type_iptotal, 3, 0);
            }catch(std::exception &){ g.clearRefinement(); }
            if (g.getNumNeeded() > 400) g.clearRefinement();
        }
        std::vector<double> lp = g.getLoadedPoints();
        for(int i=0; i<g.getNumLoaded(); i++) before.add(&lp[(size_t) i * (size_t) d]);
    }
    int n_loaded0 = g.getNumLoaded(), n_needed0 = g.getNumNeeded();
    int expect_calls = overwrite ? n_loaded0 : n_needed0;
    j.i("loaded_before", n_loaded0).i("needed_before", n_needed0);
    emit_begin(c, j.obj());
    set_tsan_log(c);
    std::vector<double> target = overwrite ? g.getLoadedPoints() : g.getNeededPoints(); // the points the model must see, in library order

    auto model_arr = [m, d](double const x[], double y[], size_t tid)->void{ model_common(x, 1, (size_t) d, y, tid, 0, 2); };
    auto model_vec = [m, d, outs](std::vector<double> const &x, std::vector<double> &y, size_t tid)->void{
        size_t y_on_entry = y.size(); y.resize((size_t) outs);
        model_common(x.data(), x.size() / (size_t) d, x.size(), y.data(), tid, y_on_entry, 2);
    };
    std::function<void(double const*, double*, size_t)> farr = model_arr;
    std::function<void(std::vector<double> const&, std::vector<double>&, size_t)> fvec = model_vec;

    Watchdog wd;
    g_mon.store(m, std::memory_order_relaxed);
    g_hook_handler.store(&c18_hook_handler, std::memory_order_relaxed);
    wd.start(m, &c, (long) argi("stall_ms", 4000));
    std::string thrown;
    try{
        #define C18_CALL(P, O) do{ if (alias){ if (vec_overload) loadNeededPoints<P, O>(fvec, g, threads); else loadNeededPoints<P, O>(farr, g, threads); } \
                                   else{ if (vec_overload) loadNeededValues<P, O>(fvec, g, threads); else loadNeededValues<P, O>(farr, g, threads); } }while(0)
        if (par){ if (overwrite) C18_CALL(true, true); else C18_CALL(true, false); }
        else{ if (overwrite) C18_CALL(false, true); else C18_CALL(false, false); }
        #undef C18_CALL
    }catch(std::exception &e){ thrown = exception_class(e) + ": " + e.what(); }
    wd.finish();
    g_hook_handler.store(nullptr, std::memory_order_relaxed);
    g_mon.store(nullptr, std::memory_order_relaxed);

    std::string ctx = "loadNeededValues";
    std::vector<MEv> t = merged_trace(m);
    if (!thrown.empty()){ c.viol("exception:" + thrown.substr(0, thrown.find(':')) + ":" + ctx, J().str("what", thrown).obj()); return; }
    bool dropped = m->slot_overflow.load() != 0;
    for(int i=0; i<std::min(m->nslots.load(), MAX_SLOTS); i++) if (m->slots[i].dropped.load()) dropped = true;

    report_callback_events(t, c, ctx);
    std::vector<Call const*> calls;
    for(int i=0; i<std::min(m->nslots.load(), MAX_SLOTS); i++) for(auto const &cl : m->slots[i].calls) calls.push_back(&cl);
    PointSet computed(d);
    for(auto cl : calls){
        if (cl->x.size() != (size_t) d){ c.viol("model:bad-x-size:" + ctx, J().i("size", (long long) cl->x.size()).obj()); continue; }
        if (vec_overload && cl->y_on_entry != (size_t) outs) c.viol("model:y-size-on-entry:vector-overload:" + ctx, J().i("y_size", (long long) cl->y_on_entry).obj());
        if (computed.find(cl->x.data()) >= 0) c.viol("exactly-once:model-called-twice-for-a-point:" + ctx, J().vec("x", cl->x).i("thread_id", (long long) cl->tid).obj());
        else computed.add(cl->x.data());
    }
    if ((int) calls.size() != expect_calls) c.viol("exactly-once:number-of-model-calls-differs-from-number-of-points:" + ctx, J().i("calls", (long long) calls.size()).i("points", expect_calls).obj());
    for(int i=0; i<expect_calls; i++) if (computed.find(&target[(size_t) i * (size_t) d]) < 0){
        c.viol("exactly-once:point-never-passed-to-the-model:" + ctx, J().i("point", i).vec("x", pt(&target[(size_t) i * (size_t) d], d)).obj()); break;
    }
    if (par && threads > 0 && expect_calls > 0 && !dropped) check_protocol_load(t, c, expect_calls, threads, ctx);

    // final grid
    if (expect_calls > 0 && g.getNumNeeded() != 0) c.viol("values:needed-points-left-after-loading:" + ctx, J().i("needed", g.getNumNeeded()).obj());
    int nl = g.getNumLoaded();
    std::vector<double> lp = (nl > 0) ? g.getLoadedPoints() : std::vector<double>();
    const double *lv = (nl > 0) ? g.getLoadedValues() : nullptr;
    for(int i=0; i<nl; i++){
        const double *x = &lp[(size_t) i * (size_t) d];
        int ic = computed.find(x), ib = before.find(x);
        if (ic < 0 && ib < 0){ c.viol("values:loaded-point-never-computed:" + ctx, J().vec("x", pt(x, d)).obj()); break; }
        const double *xs = (ic >= 0) ? computed.pts[(size_t) ic].data() : before.pts[(size_t) ib].data();
        int gen = (ic >= 0) ? 2 : 1; // a point passed to the model must carry the new value (also when it overwrites), any other point keeps its old one
        bool okv = true;
        for(int o=0; o<outs && okv; o++) okv = same_bits(lv[(size_t) i * (size_t) outs + (size_t) o], H(xs, d, o, gen));
        if (!okv){
            bool old = true; for(int o=0; o<outs && old; o++) old = same_bits(lv[(size_t) i * (size_t) outs + (size_t) o], H(xs, d, o, 1));
            c.viol(std::string("values:loaded-value-is-not-the-model-at-its-point:") + (old && gen == 2 ? "old-value-kept:" : "") + ctx,
                   J().vec("x", pt(x, d)).i("point", i).num("loaded", lv[(size_t) i * (size_t) outs]).num("model", H(xs, d, 0, gen)).obj());
            break;
        }
    }
    if (overwrite ? (nl != n_loaded0) : (nl != n_loaded0 + n_needed0))
        if (expect_calls > 0) c.viol("values:number-of-loaded-points-after-the-call:" + ctx, J().i("loaded", nl).i("loaded_before", n_loaded0).i("needed_before", n_needed0).b("overwrite", overwrite).obj());
    c.count("loaded_points_checked", nl);
    c.count("samples_computed", (long long) calls.size());
    bool nested = !(cfg.family == fam_global && std::find(nested_global_rules().begin(), nested_global_rules().end(), cfg.rule) == nested_global_rules().end());
    if (nl > 0 && nested && cfg.custom == 0){
        bool can = true;
        if (g.isLocalPolynomial()){ int ok = all_parents_loaded(g); if (ok == 0) can = false; }
        if (can) check_reproduction(g, c, rng, "reproduce", "loadNeededValues");
    }
    c.count("mode:loadNeededValues");
    c.count(std::string("family:") + fam_name(cfg.family));
    c.count(std::string("latency:") + lat_name(latency));
    c.count("trace_events", (long long) t.size());
    c.counters["max_workers"] = std::max(c.counters["max_workers"], (long long) threads);
    if (expect_calls == 0){ c.count("trivial:nothing-to-do"); return; }
    c.sig("L:" + hex64(hash_trace(t)));
}

} // namespace c18

void mon_c18(CaseCtx &c, Rng &rng){
    std::string only = arg("mode", "");
    bool load = rng.coin(0.28);
    if (only == "load") load = true;
    if (only == "construct") load = false;
    if (load) c18::run_load(c, rng); else c18::run_construct(c, rng);
}

} // namespace vf
