// C19 - GradientDescent returns its best accepted iterate within the iteration cap; the constant-step variant performs
//       exactly min(cap, first step reaching the tolerance) steps.
//
// One case = one problem (objective/gradient pair, projection, start, step parameters, tolerance) that is solved with every
// iteration cap 0,1,..,T+2 (T = number of trial steps the library needs with a non-binding cap).  Objective, gradient and
// projection are logging closures.  For every cap the log is replayed through a reference model written from the documentation
// of GradientDescent() (adaptive step: optimistic increase by increase_coeff, back-tracking by decrease_coeff until the descent
// inequality f(x+) <= f(x) + <g, x+ - x> + |x+ - x|^2 / (2 lambda) holds up to Maths::num_tol, stationarity residual of
// computeStationarityResidual(), every trial step counts as one iteration).  The model decides accept/reject from the *logged*
// callback values, so it yields for every cap the last accepted iterate without re-implementing the library's bookkeeping.
#include "monitors.hpp"
#include "TasmanianOptimization.hpp"

namespace vf{
namespace {

typedef std::vector<double> Vec;

// ------------------------------------------------------------------------------------------------
// problems: pure functions of x (same x -> same bits)
// ------------------------------------------------------------------------------------------------
struct Problem{
    int kind = 0;  // 0 convex quadratic, 1 Rosenbrock chain / double well, 2 smooth convex non-quadratic, 3 non-convex trigonometric
    int d = 1;
    Vec A;         // d x d symmetric (kind 0), rows a_i (kind 2)
    Vec c, b, w, ph;
    double a = 1.0, bias = 0.0, cond = 1.0;
    const char* name() const{ static const char *n[] = {"quadratic", "rosenbrock", "sqrt-convex", "trig-nonconvex"}; return n[kind]; }
    double f(Vec const &x) const{
        size_t n = (size_t) d;
        if (kind == 0){
            double s = 0.0;
            for(size_t i=0; i<n; i++){
                double r = 0.0;
                for(size_t j=0; j<n; j++) r += A[i * n + j] * (x[j] - c[j]);
                s += 0.5 * (x[i] - c[i]) * r;
            }
            return s + bias;
        }else if (kind == 1){
            if (d == 1){ double t = x[0] * x[0] - 1.0; return t * t + 0.3 * x[0] + bias; }
            double s = 0.0;
            for(size_t i=0; i+1<n; i++){ double t = x[i+1] - x[i] * x[i]; double u = 1.0 - x[i]; s += a * t * t + u * u; }
            return s + bias;
        }else if (kind == 2){
            double s = 0.0;
            for(size_t i=0; i<n; i++){
                double r = -b[i];
                for(size_t j=0; j<n; j++) r += A[i * n + j] * x[j];
                s += w[i] * std::sqrt(1.0 + r * r);
            }
            return s + bias;
        }else{
            double s = 0.0;
            for(size_t i=0; i<n; i++) s += 0.5 * w[i] * x[i] * x[i] + a * std::cos(b[i] * x[i] + ph[i]);
            return s + bias;
        }
    }
    void g(Vec const &x, Vec &out) const{
        size_t n = (size_t) d;
        if (kind == 0){
            for(size_t i=0; i<n; i++){
                double r = 0.0;
                for(size_t j=0; j<n; j++) r += A[i * n + j] * (x[j] - c[j]);
                out[i] = r;
            }
        }else if (kind == 1){
            if (d == 1){ out[0] = 4.0 * x[0] * (x[0] * x[0] - 1.0) + 0.3; return; }
            for(size_t i=0; i<n; i++) out[i] = 0.0;
            for(size_t i=0; i+1<n; i++){
                double t = x[i+1] - x[i] * x[i];
                out[i] += -4.0 * a * t * x[i] - 2.0 * (1.0 - x[i]);
                out[i+1] += 2.0 * a * t;
            }
        }else if (kind == 2){
            for(size_t j=0; j<n; j++) out[j] = 0.0;
            for(size_t i=0; i<n; i++){
                double r = -b[i];
                for(size_t j=0; j<n; j++) r += A[i * n + j] * x[j];
                double q = w[i] * r / std::sqrt(1.0 + r * r);
                for(size_t j=0; j<n; j++) out[j] += q * A[i * n + j];
            }
        }else{
            for(size_t i=0; i<n; i++) out[i] = w[i] * x[i] - a * b[i] * std::sin(b[i] * x[i] + ph[i]);
        }
    }
};

static void random_orthogonal(Rng &rng, int d, Vec &Q){
    size_t n = (size_t) d;
    Q.assign(n * n, 0.0);
    for(size_t i=0; i<n; i++){
        for(int attempt=0; attempt<20; attempt++){
            for(size_t j=0; j<n; j++) Q[i * n + j] = rng.uni(-1.0, 1.0);
            for(size_t k=0; k<i; k++){
                double dot = 0.0; for(size_t j=0; j<n; j++) dot += Q[i * n + j] * Q[k * n + j];
                for(size_t j=0; j<n; j++) Q[i * n + j] -= dot * Q[k * n + j];
            }
            double nrm = 0.0; for(size_t j=0; j<n; j++) nrm += Q[i * n + j] * Q[i * n + j];
            nrm = std::sqrt(nrm);
            if (nrm > 1e-3){ for(size_t j=0; j<n; j++) Q[i * n + j] /= nrm; break; }
        }
    }
}

static Problem make_problem(Rng &rng, bool thorough, int forced_kind = -1, double max_log_cond = 6.0){
    Problem p;
    int r = rng.range(0, 99);
    p.kind = (forced_kind >= 0) ? forced_kind : (r < 45) ? 0 : (r < 65) ? 1 : (r < 82) ? 2 : 3;
    p.d = rng.range(1, thorough ? 6 : 4);
    size_t n = (size_t) p.d;
    p.bias = rng.coin(0.3) ? rng.uni(-50.0, 50.0) : 0.0;
    p.c.resize(n); p.b.resize(n); p.w.resize(n); p.ph.resize(n);
    for(size_t i=0; i<n; i++){ p.c[i] = rng.uni(-2.0, 2.0); p.b[i] = rng.uni(-2.0, 2.0); p.w[i] = rng.uni(0.2, 3.0); p.ph[i] = rng.uni(0.0, 6.28); }
    if (p.kind == 0){
        p.cond = std::pow(10.0, rng.uni(0.0, max_log_cond));
        double base = std::pow(10.0, rng.uni(-2.0, 1.0));
        Vec Q; random_orthogonal(rng, p.d, Q);
        Vec eig(n);
        for(size_t i=0; i<n; i++) eig[i] = base * std::pow(p.cond, (n == 1) ? 1.0 : (double) i / (double)(n - 1));
        p.A.assign(n * n, 0.0);
        for(size_t i=0; i<n; i++) for(size_t j=0; j<=i; j++){
            double s = 0.0;
            for(size_t k=0; k<n; k++) s += Q[k * n + i] * eig[k] * Q[k * n + j];
            p.A[i * n + j] = s; p.A[j * n + i] = s;
        }
    }else if (p.kind == 1){
        p.a = std::pow(10.0, rng.uni(0.0, 2.0));
    }else if (p.kind == 2){
        p.A.resize(n * n);
        double sc = std::pow(10.0, rng.uni(-1.0, 1.5));
        for(auto &v : p.A) v = sc * rng.uni(-1.0, 1.0);
    }else{
        p.a = rng.uni(0.2, 3.0);
        for(size_t i=0; i<n; i++) p.b[i] = rng.uni(0.5, 6.0);
    }
    return p;
}

// projections onto convex sets (exact up to rounding)
struct Proj{
    int kind = 0;  // 0 none (the overload without projection), 1 identity passed as projection, 2 box, 3 ball, 4 half-space
    Vec lo, hi, ctr, nrm;
    double rad = 1.0, off = 0.0;
    const char* name() const{ static const char *n[] = {"none", "identity", "box", "ball", "halfspace"}; return n[kind]; }
    void apply(Vec const &x, Vec &p) const{
        size_t n = x.size();
        if (kind <= 1){ for(size_t i=0; i<n; i++) p[i] = x[i]; }
        else if (kind == 2){ for(size_t i=0; i<n; i++) p[i] = std::min(std::max(x[i], lo[i]), hi[i]); }
        else if (kind == 3){
            double s = 0.0; for(size_t i=0; i<n; i++) s += (x[i] - ctr[i]) * (x[i] - ctr[i]);
            s = std::sqrt(s);
            if (s <= rad){ for(size_t i=0; i<n; i++) p[i] = x[i]; }
            else{ double t = rad / s; for(size_t i=0; i<n; i++) p[i] = ctr[i] + t * (x[i] - ctr[i]); }
        }else{
            double s = -off; for(size_t i=0; i<n; i++) s += nrm[i] * x[i];   // nrm has unit length
            if (s <= 0.0){ for(size_t i=0; i<n; i++) p[i] = x[i]; }
            else{ for(size_t i=0; i<n; i++) p[i] = x[i] - s * nrm[i]; }
        }
    }
    bool contains(Vec const &x) const{
        Vec p(x.size()); apply(x, p);
        for(size_t i=0; i<x.size(); i++) if (!same_bits(p[i], x[i])) return false;
        return true;
    }
};

static Proj make_proj(Rng &rng, int d){
    Proj q; size_t n = (size_t) d;
    int r = rng.range(0, 99);
    q.kind = (r < 30) ? 0 : (r < 40) ? 1 : (r < 65) ? 2 : (r < 85) ? 3 : 4;
    q.lo.resize(n); q.hi.resize(n); q.ctr.resize(n); q.nrm.resize(n);
    for(size_t i=0; i<n; i++){ double a = rng.uni(-3.0, 3.0), b = rng.uni(-3.0, 3.0); q.lo[i] = std::min(a, b); q.hi[i] = std::max(a, b) + 0.1; q.ctr[i] = rng.uni(-2.0, 2.0); }
    q.rad = rng.uni(0.2, 3.0);
    double s = 0.0;
    for(size_t i=0; i<n; i++){ q.nrm[i] = rng.uni(-1.0, 1.0); s += q.nrm[i] * q.nrm[i]; }
    s = std::sqrt(s); if (s < 1e-3){ q.nrm[0] = 1.0; s = 0.0; for(size_t i=0; i<n; i++) s += q.nrm[i] * q.nrm[i]; s = std::sqrt(s); }
    for(size_t i=0; i<n; i++) q.nrm[i] /= s;
    q.off = rng.uni(-2.0, 2.0);
    return q;
}

// ------------------------------------------------------------------------------------------------
// the log of callback invocations and the lock-step reference model
// ------------------------------------------------------------------------------------------------
struct Event{ char type; Vec in, out; double val; };

static bool vec_bits_equal(Vec const &a, Vec const &b){
    if (a.size() != b.size()) return false;
    for(size_t i=0; i<a.size(); i++) if (!same_bits(a[i], b[i])) return false;
    return true;
}
static bool vec_close(Vec const &a, Vec const &b, double rel){
    if (a.size() != b.size()) return false;
    double sc = 0.0; for(size_t i=0; i<a.size(); i++) sc = std::max(sc, std::max(std::fabs(a[i]), std::fabs(b[i])));
    for(size_t i=0; i<a.size(); i++) if (!(std::fabs(a[i] - b[i]) <= rel * (sc + 1e-300))) return false;
    return true;
}

struct ModelOut{
    bool ok = true; std::string diverged; size_t at = 0;      // replay failure (log does not follow the documented algorithm)
    int trials = 0, accepted = 0, rejected_in_last_search = 0, ties = 0;
    int f_calls = 0, g_calls = 0, p_calls = 0;
    bool converged = false, cap_inside_linesearch = false, more_than_cap = false, nonfinite = false;
    Vec last_accepted; double f_last = 0.0, lambda = 0.0, residual = 0.0;
    bool has_residual = false;
    double proj_rounding = 0.0;   // max over the trials of |g| * (|z| + |P(z)| + 1): scale of the rounding error of a computed projection, seen through f
    std::vector<Vec> candidates;                               // start and every point returned by the projection
};

// replays the log of one GradientDescent() call.  with_proj: projection calls are visible in the log.
static ModelOut replay_adaptive(std::vector<Event> const &log, Vec const &start, double lambda0, double inc, double dec, int cap, double tol, bool with_proj){
    ModelOut m; size_t n = start.size(); size_t pos = 0;
    auto fail = [&](std::string const &why){ m.ok = false; m.diverged = why; m.at = pos; return m; };
    m.last_accepted = start; m.candidates.push_back(start); m.lambda = lambda0;
    for(auto const &e : log){ if (e.type == 'F') m.f_calls++; else if (e.type == 'G') m.g_calls++; else m.p_calls++; }
    // the objective and the gradient at the starting point (either order)
    Vec g; double fx = 0.0; bool have_f = false, have_g = false;
    while(pos < log.size() && pos < 2){
        Event const &e = log[pos];
        if (e.type == 'F' && !have_f){ if (!vec_bits_equal(e.in, start)) return fail("first-objective-call-not-at-start"); fx = e.val; have_f = true; }
        else if (e.type == 'G' && !have_g){ if (!vec_bits_equal(e.in, start)) return fail("first-gradient-call-not-at-start"); g = e.out; have_g = true; }
        else break;
        pos++;
    }
    if (!have_f || !have_g) return fail("start-not-evaluated");
    m.f_last = fx;
    if (!std::isfinite(fx)) m.nonfinite = true;
    Vec x = start, z(n);
    double lambda = lambda0, residual = tol + 1.0;
    bool first = true;
    while(residual > tol && m.trials < cap){
        if (!first) lambda *= inc;   // optimistic increase; the first trial uses the step-size supplied by the user
        first = false;
        m.rejected_in_last_search = 0;
        Vec p; double fs = 0.0;
        while(true){
            if (m.trials >= cap){ m.cap_inside_linesearch = true; break; }
            for(size_t j=0; j<n; j++) z[j] = x[j] - g[j] * lambda;
            if (with_proj){
                if (pos >= log.size()) return fail("log-ends-before-cap-or-convergence");
                if (log[pos].type != 'P') return fail("expected-projection-call");
                if (!vec_close(log[pos].in, z, 1e-10)) return fail("projection-argument-not-x-minus-lambda-g");
                p = log[pos].out; pos++;
                double ng = 0.0, nz = 0.0, npj = 0.0;
                for(size_t j=0; j<n; j++){ ng += g[j] * g[j]; nz += z[j] * z[j]; npj += p[j] * p[j]; }
                m.proj_rounding = std::max(m.proj_rounding, std::sqrt(ng) * (std::sqrt(nz) + std::sqrt(npj) + 1.0));
            }
            if (pos >= log.size()) return fail("log-ends-before-cap-or-convergence");
            if (log[pos].type != 'F') return fail("expected-objective-call");
            if (with_proj){ if (!vec_bits_equal(log[pos].in, p)) return fail("objective-argument-not-projection-output"); }
            else{ if (!vec_close(log[pos].in, z, 1e-10)) return fail("objective-argument-not-x-minus-lambda-g"); p = log[pos].in; }
            fs = log[pos].val; pos++;
            m.trials++;
            m.candidates.push_back(p);
            if (!std::isfinite(fs)) m.nonfinite = true;
            double lhs = fs - fx, rhs = 0.0, mag = std::fabs(fs) + std::fabs(fx);
            for(size_t j=0; j<n; j++){
                double delta = p[j] - x[j];
                rhs += delta * delta / (2.0 * lambda);
                lhs -= g[j] * delta; mag += std::fabs(g[j] * delta);
            }
            bool accept = (lhs <= rhs + Maths::num_tol);
            if (std::fabs(lhs - rhs - Maths::num_tol) <= 32.0 * std::numeric_limits<double>::epsilon() * (mag + rhs)){
                // tie at the tolerance of the descent test: follow what the log shows (next event G = accepted)
                m.ties++;
                if (pos < log.size()) accept = (log[pos].type == 'G');
                else if (m.trials >= cap) accept = false; // undecidable from the log; the caller treats the cap as inconclusive
            }
            if (accept) break;
            lambda /= dec;
            m.rejected_in_last_search++;
        }
        if (m.cap_inside_linesearch) break;
        // accepted: gradient at the new point, residual
        if (pos >= log.size()) return fail("no-gradient-call-after-accepted-step");
        if (log[pos].type != 'G') return fail("expected-gradient-call-after-accepted-step");
        if (!vec_bits_equal(log[pos].in, p)) return fail("gradient-argument-not-accepted-point");
        Vec gp = log[pos].out; pos++;
        double r = 0.0;
        for(size_t j=0; j<n; j++){ double s = (x[j] - p[j]) / lambda + gp[j] - g[j]; r += s * s; }
        residual = std::sqrt(r);
        x = p; fx = fs; g = gp; m.accepted++;
        m.last_accepted = p; m.f_last = fs; m.residual = residual; m.has_residual = true;
    }
    m.lambda = lambda;
    m.converged = (residual <= tol);
    if (pos < log.size()){
        bool trial_follows = false; // another objective / projection call = another trial step
        for(size_t k=pos; k<log.size(); k++) if (log[k].type != 'G') trial_follows = true;
        m.more_than_cap = (m.trials >= cap && !m.converged && trial_follows);
        return fail(m.more_than_cap ? "trial-steps-after-the-cap" : m.converged ? "callbacks-after-convergence" : "step-accepted-although-descent-test-fails");
    }
    return m;
}

struct RunOut{ TasOptimization::OptimizationStatus st; Vec x; double lambda; std::vector<Event> log; };

struct Setup{
    Problem pb; Proj pj; Vec start; double lambda0, inc, dec, tol; bool feasible_start;
};

// the extern "C" entry points of libtasmaniandream (the route of the Python module): same algorithm, C callbacks with an error flag
} // anonymous namespace
} // namespace vf
namespace TasOptimization{ extern "C"{
    void* tsgGradientDescentState_Construct(const int num_dimensions, const double x0[], const double initial_stepsize);
    void tsgGradientDescentState_Destruct(void* state);
    double tsgGradientDescentState_GetAdaptiveStepsize(void* state);
    void tsgGradientDescentState_GetX(void* state, double x_out[]);
    OptimizationStatus tsgGradientDescent_AdaptProj(double (*f)(const int, const double[], int[]), void (*g)(const int, const double[], double[], int[]),
                                                    void (*p)(const int, const double[], double[], int[]), const double increase_coeff, const double decrease_coeff,
                                                    const int max_iterations, const double tolerance, void* state, int* err);
    OptimizationStatus tsgGradientDescent_Adapt(double (*f)(const int, const double[], int[]), void (*g)(const int, const double[], double[], int[]),
                                                const double increase_coeff, const double decrease_coeff, const int max_iterations, const double tolerance, void* state, int* err);
    OptimizationStatus tsgGradientDescent_Const(void (*g)(const int, const double[], double[], int[]), const double stepsize, const int max_iterations,
                                                const double tolerance, void* state, int* err);
}}
namespace vf{
namespace {
static bool g_c19_via_c = false; // set per case by mon_c19: one case in three goes through the C entry points
struct CRoute{ std::function<double(Vec const&)> f; std::function<void(Vec const&, Vec&)> g, p; };
static CRoute *g_c19_route = nullptr;
static double c19_c_obj(const int n, const double x[], int err[]){ err[0] = 0; return g_c19_route->f(Vec(x, x + n)); }
static void c19_c_grad(const int n, const double x[], double out[], int err[]){ err[0] = 0; Vec o((size_t) n); g_c19_route->g(Vec(x, x + n), o); std::copy(o.begin(), o.end(), out); }
static void c19_c_proj(const int n, const double x[], double out[], int err[]){ err[0] = 0; Vec o((size_t) n); g_c19_route->p(Vec(x, x + n), o); std::copy(o.begin(), o.end(), out); }

static RunOut run_adaptive(Setup const &s, int cap){
    RunOut r;
    if (g_c19_via_c){
        std::vector<Event> &log = r.log;
        CRoute route;
        route.f = [&](Vec const &x)->double{ double v = s.pb.f(x); log.push_back(Event{'F', x, Vec(), v}); return v; };
        route.g = [&](Vec const &x, Vec &out)->void{ s.pb.g(x, out); log.push_back(Event{'G', x, out, 0.0}); };
        route.p = [&](Vec const &x, Vec &out)->void{ s.pj.apply(x, out); log.push_back(Event{'P', x, out, 0.0}); };
        g_c19_route = &route;
        void *state = TasOptimization::tsgGradientDescentState_Construct((int) s.start.size(), s.start.data(), s.lambda0);
        int err = -1;
        if (s.pj.kind == 0) r.st = TasOptimization::tsgGradientDescent_Adapt(c19_c_obj, c19_c_grad, s.inc, s.dec, cap, s.tol, state, &err);
        else r.st = TasOptimization::tsgGradientDescent_AdaptProj(c19_c_obj, c19_c_grad, c19_c_proj, s.inc, s.dec, cap, s.tol, state, &err);
        r.x.resize(s.start.size()); TasOptimization::tsgGradientDescentState_GetX(state, r.x.data());
        r.lambda = TasOptimization::tsgGradientDescentState_GetAdaptiveStepsize(state);
        TasOptimization::tsgGradientDescentState_Destruct(state);
        g_c19_route = nullptr;
        if (err != 0) throw std::runtime_error("c-interface reported an error flag although no callback failed");
        return r;
    }
    std::vector<Event> &log = r.log;
    TasOptimization::ObjectiveFunctionSingle F = [&](Vec const &x)->double{ double v = s.pb.f(x); log.push_back(Event{'F', x, Vec(), v}); return v; };
    TasOptimization::GradientFunctionSingle G = [&](Vec const &x, Vec &out)->void{ s.pb.g(x, out); log.push_back(Event{'G', x, out, 0.0}); };
    TasOptimization::ProjectionFunctionSingle P = [&](Vec const &x, Vec &out)->void{ s.pj.apply(x, out); log.push_back(Event{'P', x, out, 0.0}); };
    TasOptimization::GradientDescentState state(s.start, s.lambda0);
    if (s.pj.kind == 0) r.st = TasOptimization::GradientDescent(F, G, s.inc, s.dec, cap, s.tol, state);
    else r.st = TasOptimization::GradientDescent(F, G, P, s.inc, s.dec, cap, s.tol, state);
    r.x = state.getX(); r.lambda = state.getAdaptiveStepsize();
    return r;
}

static std::string site_of(ModelOut const &m, int cap){
    if (cap == 0) return "cap-zero";
    if (m.cap_inside_linesearch) return "cap-hit-inside-linesearch";
    if (m.converged) return "converged";
    return "cap-hit-after-accepted-step";
}

// ------------------------------------------------------------------------------------------------
static void adaptive_case(CaseCtx &c, Rng &rng){
    Setup s;
    s.pb = make_problem(rng, c.thorough);
    s.pj = make_proj(rng, s.pb.d);
    size_t n = (size_t) s.pb.d;
    s.start.resize(n);
    for(size_t i=0; i<n; i++) s.start[i] = rng.uni(-3.0, 3.0);
    bool want_feasible = rng.coin(0.75);
    if (want_feasible && s.pj.kind >= 2){
        Vec t(n); s.pj.apply(s.start, t);
        if (s.pj.kind == 3) for(size_t i=0; i<n; i++) t[i] = s.pj.ctr[i] + 0.9 * (t[i] - s.pj.ctr[i]); // strictly inside
        if (s.pj.kind == 4){ Vec u(n); for(size_t i=0; i<n; i++) u[i] = t[i] - 0.05 * s.pj.nrm[i]; t = u; }
        s.start = t;
    }
    s.feasible_start = s.pj.contains(s.start);
    s.lambda0 = std::pow(10.0, rng.uni(-3.0, 3.0));
    s.inc = rng.coin(0.15) ? 1.0 : rng.uni(1.02, 2.5);
    s.dec = rng.uni(1.1, 3.0);
    int tk = rng.range(0, 9);
    s.tol = (tk == 0) ? 0.0 : (tk == 1) ? std::pow(10.0, rng.uni(0.0, 3.0)) : std::pow(10.0, rng.uni(-8.0, -1.0));
    int cbig = c.thorough ? 260 : 110;
    emit_begin(c, J().str("variant", "adaptive").str("objective", s.pb.name()).i("dims", s.pb.d).str("projection", s.pj.name()).num("cond", s.pb.cond)
                  .vec("start", s.start).b("feasible_start", s.feasible_start).num("stepsize0", s.lambda0).num("increase", s.inc).num("decrease", s.dec)
                  .num("tolerance", s.tol).i("cap_max", cbig).obj());

    // non-binding run: how many trial steps does the library use
    RunOut big = run_adaptive(s, cbig);
    ModelOut mbig = replay_adaptive(big.log, s.start, s.lambda0, s.inc, s.dec, cbig, s.tol, s.pj.kind != 0);
    if (mbig.nonfinite){ c.inconc("non-finite-objective-value"); return; }
    int T = std::min(cbig, std::max(big.st.performed_iterations, mbig.trials));
    int cmax = std::min(cbig, T + 2);
    const double eps = std::numeric_limits<double>::epsilon();
    double f_start = s.pb.f(s.start);
    double best_so_far = std::numeric_limits<double>::infinity(); int best_cap = -1;   // smallest value returned with a smaller cap
    std::set<std::string> done;  // one witness per key (the smallest cap)
    auto viol = [&](std::string const &key, std::string const &detail){ if (done.insert(key).second) c.viol(key, detail); };
    int inside_ls = 0, after_acc = 0, conv = 0, max_rej = 0, ties = 0;
    for(int cap=0; cap<=cmax; cap++){
        RunOut r = (cap == cbig) ? big : run_adaptive(s, cap);
        ModelOut m = replay_adaptive(r.log, s.start, s.lambda0, s.inc, s.dec, cap, s.tol, s.pj.kind != 0);
        c.count("runs");
        c.count("callback_events", (long long) r.log.size());
        ties += m.ties;
        if (m.nonfinite){ c.inconc("non-finite-objective-value"); return; }
        std::string var = (s.pj.kind == 0) ? "adaptive" : "projected";
        if (!m.ok){
            if (m.ties > 0 && !m.more_than_cap){ c.count("tie_divergence"); c.inconc("tie-at-descent-tolerance"); return; }
            viol((m.more_than_cap ? std::string("exceeds-cap:") : std::string("model-divergence:")) + m.diverged + ":" + var,
                 J().i("cap", cap).i("log_position", (long long) m.at).i("log_size", (long long) r.log.size()).i("model_trials", m.trials)
                    .i("status_iterations", r.st.performed_iterations).obj());
            if (r.st.performed_iterations > cap)
                viol("exceeds-cap:status:" + var, J().i("cap", cap).i("status_iterations", r.st.performed_iterations).obj());
            continue; // the model could not follow this run: no further clauses for this cap
        }
        std::string site = site_of(m, cap);
        if (m.cap_inside_linesearch) inside_ls++; else if (m.converged) conv++; else if (cap > 0) after_acc++;
        max_rej = std::max(max_rej, m.rejected_in_last_search);
        // --- iteration count ---
        if (r.st.performed_iterations > cap)
            viol("exceeds-cap:status:" + var, J().i("cap", cap).i("status_iterations", r.st.performed_iterations).obj());
        if (r.st.performed_iterations != m.trials)
            viol("iteration-count-mismatch:" + site + ":" + var, J().i("cap", cap).i("status_iterations", r.st.performed_iterations).i("trial_steps_in_log", m.trials).obj());
        if (m.f_calls != m.trials + 1 || m.g_calls != m.accepted + 1 || (s.pj.kind != 0 && m.p_calls != m.trials))
            viol("callback-count-mismatch:" + site + ":" + var, J().i("cap", cap).i("objective_calls", m.f_calls).i("gradient_calls", m.g_calls).i("projection_calls", m.p_calls)
                 .i("trials", m.trials).i("accepted", m.accepted).obj());
        int expect_trials = std::min(cap, T);
        if (mbig.ok && m.trials != expect_trials && !(mbig.ties > 0))
            viol("iteration-count-not-min-cap-needed:" + site + ":" + var, J().i("cap", cap).i("trials", m.trials).i("needed_without_cap", T).obj());
        // --- the returned point ---
        double f_ret = s.pb.f(r.x);
        bool is_candidate = false;
        for(auto const &p : m.candidates) if (vec_bits_equal(p, r.x)){ is_candidate = true; break; }
        if (!is_candidate)
            viol("returned-point-not-start-nor-projection-output:" + site + ":" + var, J().i("cap", cap).vec("returned", r.x).obj());
        if (!vec_bits_equal(r.x, m.last_accepted)){
            int which = -1; // which trial point was returned (0 = start)
            for(size_t k=0; k<m.candidates.size(); k++) if (vec_bits_equal(m.candidates[k], r.x)){ which = (int) k; break; }
            viol(site + ":returned-not-last-accepted:" + var,
                 J().i("cap", cap).vec("returned", r.x).num("f_returned", f_ret).vec("last_accepted", m.last_accepted).num("f_last_accepted", m.f_last)
                    .i("accepted_steps", m.accepted).i("rejected_trials_in_open_linesearch", m.rejected_in_last_search)
                    .i("returned_is_trial_point", which).b("returned_is_start", vec_bits_equal(r.x, s.start)).num("f_start", f_start).obj());
        }
        // --- objective value: not above the start, not above what a smaller cap returned ---
        // an accepted step decreases f by |x+ - x|^2 / (2 lambda) up to num_tol (descent lemma + projection onto a convex set); the computed
        // projection is exact only up to rounding relative to the size of its argument x - lambda g, which f sees multiplied by |g|
        double slack = (double)(m.accepted + 1) * (Maths::num_tol + 64.0 * eps * (std::fabs(f_start) + std::fabs(f_ret) + 1.0 + m.proj_rounding));
        if (s.feasible_start && !(f_ret <= f_start + slack))
            viol(site + ":worse-than-start:" + var, J().i("cap", cap).num("f_returned", f_ret).num("f_start", f_start).num("slack", slack).obj());
        // (with an infeasible start the first accepted step may legitimately increase f: only points of the feasible set are compared)
        bool ret_feasible = s.feasible_start || s.pj.contains(r.x);
        if (best_cap >= 0 && ret_feasible && !(f_ret <= best_so_far + slack))
            viol(site + ":worse-than-smaller-cap:" + var, J().i("cap", cap).num("f_returned", f_ret).i("smaller_cap", best_cap).num("f_smaller_cap", best_so_far)
                 .b("returned_is_start", vec_bits_equal(r.x, s.start)).num("slack", slack).obj());
        if (ret_feasible && f_ret < best_so_far){ best_so_far = f_ret; best_cap = cap; }
        // --- status / step-size ---
        if (m.has_residual){
            if (!(std::fabs(r.st.residual - m.residual) <= 1e-9 * (std::fabs(m.residual) + 1e-300) + 1e-300))
                viol("status-residual-mismatch:" + site + ":" + var, J().i("cap", cap).num("status", r.st.residual).num("model", m.residual).obj());
        }
        if (m.converged != (r.st.residual <= s.tol))
            viol("status-convergence-mismatch:" + site + ":" + var, J().i("cap", cap).num("status_residual", r.st.residual).num("tolerance", s.tol).obj());
        if (!(r.lambda > 0.0) || !std::isfinite(r.lambda))
            viol("stepsize-not-positive-finite:" + site + ":" + var, J().i("cap", cap).num("stepsize", r.lambda).obj());
        if (cap > 0 && !(std::fabs(r.lambda - m.lambda) <= 1e-9 * m.lambda)) c.count("note_stepsize_differs_from_model");
        if (cap == 0 && !same_bits(r.lambda, s.lambda0)) c.count("note_stepsize_changed_by_zero_iteration_call");
    }
    c.count("caps_inside_linesearch", inside_ls); c.count("caps_after_accepted_step", after_acc); c.count("caps_converged", conv);
    c.count("descent_ties", ties);
    c.counters["max_rejected_trials_in_one_linesearch"] = std::max(c.counters["max_rejected_trials_in_one_linesearch"], (long long) max_rej);
    c.counters["max_trials_needed"] = std::max(c.counters["max_trials_needed"], (long long) T);
    if (inside_ls == 0){ c.count("trivial:no-cap-inside-a-linesearch"); return; }
    char sg[200];
    snprintf(sg, sizeof(sg), "adaptive|%s|d%d|%s|%s|T%d|ls%d|conv%d|c%d", s.pb.name(), s.pb.d, s.pj.name(), s.feasible_start ? "feas" : "infeas",
             T / 10, std::min(inside_ls, 20) / 4, conv > 0 ? 1 : 0, (int) std::floor(std::log10(s.pb.cond)));
    c.sig(sg);
}

// ------------------------------------------------------------------------------------------------
// constant step-size variant: exactly min(cap, first step k >= 1 with |grad f(x_k)| <= tolerance) updates x <- x - s grad f(x)
// ------------------------------------------------------------------------------------------------
static void constant_case(CaseCtx &c, Rng &rng){
    Problem pb = make_problem(rng, c.thorough, rng.coin(0.6) ? 0 : (rng.coin() ? 2 : 3), rng.coin(0.8) ? 1.5 : 4.0);
    size_t n = (size_t) pb.d;
    Vec start(n); for(size_t i=0; i<n; i++) start[i] = rng.uni(-3.0, 3.0);
    // Lipschitz estimate of the gradient, used only to choose a step-size class
    double L = 1.0;
    if (pb.kind == 0){ L = 0.0; for(size_t i=0; i<n; i++){ double rs = 0.0; for(size_t j=0; j<n; j++) rs += std::fabs(pb.A[i * n + j]); L = std::max(L, rs); } }
    else if (pb.kind == 2){ double fro = 0.0; for(double v : pb.A) fro += v * v; double wm = 0.0; for(double v : pb.w) wm = std::max(wm, v); L = wm * fro; }
    else { double wm = 0.0, bm = 0.0; for(size_t i=0; i<n; i++){ wm = std::max(wm, pb.w[i]); bm = std::max(bm, pb.b[i] * pb.b[i]); } L = wm + pb.a * bm; }
    int sk = rng.range(0, 9);
    double step = ((sk == 0) ? rng.uni(2.05, 2.6) : (sk <= 2) ? rng.uni(1.0, 1.99) : rng.uni(0.05, 1.0)) / L;   // sk == 0: divergent on purpose (bounded by the cap)
    int tk = rng.range(0, 9);
    double tol = (tk == 0) ? 0.0 : (tk == 1) ? 1e6 : std::pow(10.0, rng.uni(-9.0, 0.5));
    bool use_state_object = rng.coin(0.5); // the signature accepts a GradientDescentState through the implicit conversion
    int cbig = c.thorough ? 400 : 150;
    emit_begin(c, J().str("variant", "constant").str("objective", pb.name()).i("dims", pb.d).num("cond", pb.cond).vec("start", start).num("stepsize", step)
                  .num("tolerance", tol).b("state_object", use_state_object).i("cap_max", cbig).obj());
    struct GLog{ Vec in, out; };
    auto run = [&](int cap, std::vector<GLog> &log, Vec &xout)->TasOptimization::OptimizationStatus{
        TasOptimization::GradientFunctionSingle G = [&](Vec const &x, Vec &out)->void{ pb.g(x, out); log.push_back(GLog{x, out}); };
        if (g_c19_via_c){
            CRoute route; route.g = [&](Vec const &x, Vec &out)->void{ pb.g(x, out); log.push_back(GLog{x, out}); };
            g_c19_route = &route;
            void *state = TasOptimization::tsgGradientDescentState_Construct((int) start.size(), start.data(), 1.0);
            int err = -1;
            auto status = TasOptimization::tsgGradientDescent_Const(c19_c_grad, step, cap, tol, state, &err);
            xout.resize(start.size()); TasOptimization::tsgGradientDescentState_GetX(state, xout.data());
            TasOptimization::tsgGradientDescentState_Destruct(state);
            g_c19_route = nullptr;
            if (err != 0) throw std::runtime_error("c-interface reported an error flag although no callback failed");
            return status;
        }
        if (use_state_object){
            TasOptimization::GradientDescentState st(start, 1.0);
            auto status = TasOptimization::GradientDescent(G, step, cap, tol, st);
            xout = st.getX();
            if (!same_bits(st.getAdaptiveStepsize(), 1.0)) c.count("note_constant_variant_touched_adaptive_stepsize");
            return status;
        }
        xout = start;
        return TasOptimization::GradientDescent(G, step, cap, tol, xout);
    };
    // reference: iterate the documented recursion with the monitor's own gradient
    int K = -1; // first step reaching the tolerance
    std::vector<Vec> traj; traj.push_back(start);
    {
        Vec x = start, g(n);
        for(int k=1; k<=cbig + 2; k++){
            pb.g(x, g);
            for(size_t j=0; j<n; j++) x[j] = x[j] - g[j] * step;
            traj.push_back(x);
            Vec gn(n); pb.g(x, gn);
            double r = 0.0; for(size_t j=0; j<n; j++) r += gn[j] * gn[j];
            if (!std::isfinite(r)){ c.inconc("non-finite-gradient"); return; }
            if (std::sqrt(r) <= tol){ K = k; break; }
        }
    }
    int cmax = (K > 0) ? std::min(cbig, K + 2) : cbig;
    std::set<std::string> done;
    auto viol = [&](std::string const &key, std::string const &detail){ if (done.insert(key).second) c.viol(key, detail); };
    // near-tie at the tolerance: the residual of the reference and of the library may round differently
    for(int cap=0; cap<=cmax; cap++){
        if (cmax > 60 && cap > 20 && cap < cmax - 20 && (cap % 7) != 0) continue; // long runs: all small caps, all caps near K, a stride in between
        std::vector<GLog> log; Vec x;
        auto st = run(cap, log, x);
        c.count("runs");
        int expect = (K > 0) ? std::min(cap, K) : cap;
        std::string site = (cap == 0) ? "cap-zero" : (K > 0 && cap >= K) ? "tolerance-reached" : "cap-binding";
        if (st.performed_iterations > cap) viol("constant:exceeds-cap", J().i("cap", cap).i("status_iterations", st.performed_iterations).obj());
        // tie guard: the residual at the deciding step is within rounding of the tolerance
        bool tie = false;
        for(size_t k=1; k<log.size(); k++){
            double r = 0.0; for(double v : log[k].out) r += v * v;
            r = std::sqrt(r);
            if (r != tol && std::fabs(r - tol) <= 1e-12 * tol) tie = true; // exact equality is decidable: both sides compute the same bits
        }
        if (tie){ c.count("residual_ties"); c.inconc("tie-at-stationarity-tolerance"); return; }
        if (st.performed_iterations != expect)
            viol("constant:step-count:" + site, J().i("cap", cap).i("status_iterations", st.performed_iterations).i("expected", expect).i("first_step_reaching_tolerance", K).obj());
        if ((int) log.size() != st.performed_iterations + 1)
            viol("constant:gradient-call-count:" + site, J().i("cap", cap).i("gradient_calls", (long long) log.size()).i("status_iterations", st.performed_iterations).obj());
        // every gradient call is at the iterate of the documented recursion
        bool traj_ok = true;
        for(size_t k=0; k<log.size() && k<traj.size(); k++) if (!vec_close(log[k].in, traj[k], 1e-12)){ traj_ok = false;
            viol("constant:iterate-not-x-minus-step-times-gradient:" + site, J().i("cap", cap).i("step", (long long) k).vec("library", log[k].in).vec("reference", traj[k]).obj()); break; }
        if (traj_ok && (size_t) expect < traj.size() && !vec_close(x, traj[(size_t) expect], 1e-12))
            viol("constant:returned-point:" + site, J().i("cap", cap).vec("returned", x).vec("reference", traj[(size_t) expect]).obj());
        if (!log.empty() && !vec_bits_equal(log.back().in, x))
            viol("constant:returned-point-not-last-gradient-argument:" + site, J().i("cap", cap).obj());
        if (st.performed_iterations > 0){
            double r = 0.0; for(double v : log.back().out) r += v * v;
            r = std::sqrt(r);
            if (!(std::fabs(st.residual - r) <= 1e-12 * (r + 1e-300))) viol("constant:status-residual:" + site, J().i("cap", cap).num("status", st.residual).num("expected", r).obj());
        }
    }
    c.counters["max_constant_steps_needed"] = std::max(c.counters["max_constant_steps_needed"], (long long) K);
    if (K < 1 || K > cbig){ c.count(K < 1 ? "constant:never-reaches-tolerance" : "constant:beyond-cap"); }
    char sg[160];
    snprintf(sg, sizeof(sg), "constant|%s|d%d|K%d|%s|s%d", pb.name(), pb.d, (K < 0) ? -1 : K / 5, use_state_object ? "state" : "vector", sk == 0 ? 2 : (sk <= 2 ? 1 : 0));
    c.sig(sg);
}

} // anonymous namespace

void mon_c19(CaseCtx &c, Rng &rng){
    std::string only = arg("variant", "");
    bool constant = (only == "constant") || (only.empty() && rng.coin(0.2));
    g_c19_via_c = (c.index % 3 == 1); // the extern "C" entry points (route of the Python module), same oracle
    c.count(g_c19_via_c ? "route:c-interface" : "route:c++");
    if (constant) constant_case(c, rng); else adaptive_case(c, rng);
}

} // namespace vf
