// C20 - ParticleSwarm only evaluates inside the domain and tracks the true best; n then m iterations equals n+m;
//       state edits clearCache / clearBestParticles / manual positions.
//
// One case = one swarm (objective, domain, size, coefficients, random stream) and a script of run segments separated by state edits.
// Three copies of the state execute the script with identical random streams:
//   S  runs every segment one iteration per call; after every call the shadow model is checked,
//   A  runs every segment split into several calls (n then m ..., zeros included),  B runs every segment in ONE call.
// At the end of every segment A, B and S must agree bitwise (positions, velocities, best positions, number of random draws).
// Shadow model (written from the class documentation): for every particle the set K_i of (point, value) pairs that the objective
// closure was actually called on while the point was that particle's position (or its best-known position when the library
// re-evaluates the bests after clearCache()), since the bests were last cleared.  After every call: the best-known strip of particle
// i is a minimiser of K_i, the swarm strip is a minimiser of the union; the objective closure itself checks every point it receives
// against the domain.
#include "monitors.hpp"
#include "TasmanianOptimization.hpp"

namespace vf{
namespace {

typedef std::vector<double> Vec;

struct Objective{
    int kind = 0, d = 1; Vec c; double a = 1.0;
    const char* name() const{ static const char *n[] = {"sphere", "rastrigin", "rosenbrock", "linear", "plateau", "sphere0"}; return n[kind]; }
    double f(const double *x) const{
        double s = 0.0;
        switch(kind){
        case 0: for(int i=0; i<d; i++){ double t = x[i] - c[(size_t) i]; s += t * t; } return s;
        case 1: for(int i=0; i<d; i++){ double t = x[i] - c[(size_t) i]; s += t * t + a * (1.0 - std::cos(3.0 * t)); } return s;
        case 2: if (d == 1){ double t = x[0] * x[0] - 1.0; return t * t + 0.3 * x[0]; }
                for(int i=0; i+1<d; i++){ double t = x[i+1] - x[i] * x[i], u = 1.0 - x[i]; s += a * t * t + u * u; } return s;
        case 3: for(int i=0; i<d; i++) s += c[(size_t) i] * x[i]; return s;
        case 4: for(int i=0; i<d; i++){ double t = std::floor(x[i] - c[(size_t) i]); s += t * t; } return s; // many exact ties
        default: for(int i=0; i<d; i++) s += x[i] * x[i]; return s;
        }
    }
};
struct Domain{
    int kind = 0, d = 1; Vec lo, hi, ctr, nrm; double rad = 1.0, off = 0.0;
    const char* name() const{ static const char *n[] = {"all", "box", "ball", "halfspace", "outside-ball", "far-box", "empty"}; return n[kind]; }
    bool inside(const double *x) const{
        switch(kind){
        case 0: return true;
        case 1: case 5: for(int i=0; i<d; i++) if (x[i] < lo[(size_t) i] || x[i] > hi[(size_t) i]) return false; return true;
        case 2: case 4: { double s = 0.0; for(int i=0; i<d; i++){ double t = x[i] - ctr[(size_t) i]; s += t * t; } return (kind == 2) ? (s <= rad * rad) : (s >= rad * rad); }
        case 3: { double s = -off; for(int i=0; i<d; i++) s += nrm[(size_t) i] * x[i]; return s <= 0.0; }
        default: return false;
        }
    }
};

static Objective make_objective(Rng &rng, int d){
    Objective o; o.d = d; o.kind = rng.range(0, 5); o.c.resize((size_t) d);
    for(auto &v : o.c) v = rng.uni(-2.0, 2.0);
    o.a = (o.kind == 2) ? std::pow(10.0, rng.uni(0.0, 2.0)) : rng.uni(0.5, 5.0);
    return o;
}
// the swarm is initialised in [blo, bhi]
static Domain make_domain(Rng &rng, int d, Vec const &blo, Vec const &bhi){
    Domain m; m.d = d; size_t n = (size_t) d;
    int r = rng.range(0, 99);
    m.kind = (r < 15) ? 0 : (r < 45) ? 1 : (r < 60) ? 2 : (r < 72) ? 3 : (r < 84) ? 4 : (r < 96) ? 5 : 6;
    m.lo.resize(n); m.hi.resize(n); m.ctr.resize(n); m.nrm.resize(n);
    for(size_t i=0; i<n; i++){
        double w = bhi[i] - blo[i];
        if (m.kind == 5){ // a box that does not meet the initial box (in coordinate 0) but is within reach
            m.lo[i] = blo[i] - 0.5 * w; m.hi[i] = bhi[i] + 0.5 * w;
            if (i == 0){ bool left = rng.coin(); double gap = rng.uni(0.05, 1.5) * w; m.lo[i] = left ? blo[i] - gap - w : bhi[i] + gap; m.hi[i] = m.lo[i] + w; }
        }else{ // a box overlapping a part of the initial box (so that some particles start outside)
            double a = blo[i] + rng.uni(-0.3, 0.6) * w, b = a + rng.uni(0.3, 1.2) * w; m.lo[i] = a; m.hi[i] = b;
        }
        m.ctr[i] = blo[i] + rng.uni(0.0, 1.0) * w;
        m.nrm[i] = rng.uni(-1.0, 1.0);
    }
    double w0 = bhi[0] - blo[0];
    m.rad = rng.uni(0.15, 0.8) * w0;
    m.off = 0.0; for(size_t i=0; i<n; i++) m.off += m.nrm[i] * (blo[i] + rng.uni(0.2, 0.8) * (bhi[i] - blo[i]));
    return m;
}

// ------------------------------------------------------------------------------------------------
struct EvalRec{ Vec x; double v; };
struct Runner{ // one copy of the state with its own logging closures
    TasOptimization::ParticleSwarmState st;
    Rng stream; long long draws = 0;
    std::vector<EvalRec> evals;            // objective evaluations of the current call
    long long objective_calls = 0, domain_calls = 0, evals_total = 0;
    bool outside_eval = false; Vec outside_point; bool bad_batch = false;
    explicit Runner(TasOptimization::ParticleSwarmState const &s, Rng const &r) : st(s), stream(r){}
};

enum EditKind{ e_clear_cache, e_clear_best, e_set_pos, e_set_vel, e_set_best, e_new_objective, e_init_box };
struct Edit{ EditKind kind; Vec data; bool raw = false; Objective obj; Domain dom; uint64_t seed = 0; };
static const char* edit_name(EditKind k){
    static const char *n[] = {"clearCache", "clearBestParticles", "setParticlePositions", "setParticleVelocities", "setBestParticlePositions", "newObjective", "initializeParticlesInsideBox"};
    return n[k];
}
struct Segment{ std::vector<Edit> edits; int total = 0; std::vector<int> split; };

struct Know{ std::map<PKey, double> pts; // evaluated points of this strip since the bests were last cleared
    void add(const double *x, int d, double v){ pts[pkey(x, d)] = v; }
    bool empty() const{ return pts.empty(); }
    double minv() const{ double m = std::numeric_limits<double>::infinity(); for(auto const &kv : pts) m = std::min(m, kv.second); return m; }
};

static std::string flags_str(std::vector<bool> const &v){ std::string s; for(bool b : v) s += b ? '1' : '0'; return s; }

} // anonymous namespace

void mon_c20(CaseCtx &c, Rng &rng){
    // ---------------------------------------------------------------- case generation
    int d = rng.range(1, c.thorough ? 6 : 4);
    int np = rng.coin(0.15) ? rng.range(1, 2) : rng.range(3, c.thorough ? 40 : 20);
    size_t D = (size_t) d, N = (size_t) np;
    Vec blo(D), bhi(D);
    for(size_t i=0; i<D; i++){ double a = rng.uni(-4.0, 2.0); blo[i] = a; bhi[i] = a + rng.uni(0.5, 4.0); }
    Objective obj = make_objective(rng, d);
    Domain dom = make_domain(rng, d, blo, bhi);
    double inertia = rng.coin(0.1) ? 0.0 : rng.uni(0.1, 1.1), cog = rng.coin(0.1) ? 0.0 : rng.uni(0.1, 2.5), soc = rng.coin(0.1) ? 0.0 : rng.uni(0.1, 2.5);
    int init_kind = rng.range(0, 9); init_kind = (init_kind < 5) ? 0 : (init_kind < 7) ? 1 : (init_kind < 9) ? 2 : 3; // 3 = state left uninitialised (must throw)
    uint64_t stream_seed = rng.next();
    int max_total = c.thorough ? 12 : 8;
    auto random_points = [&](size_t count, double spread)->Vec{
        Vec p(count * D);
        for(size_t i=0; i<count; i++) for(size_t j=0; j<D; j++){ double w = bhi[j] - blo[j]; p[i * D + j] = blo[j] - spread * w + rng.uni(0.0, 1.0) * (1.0 + 2.0 * spread) * w; }
        return p;
    };
    std::vector<Segment> script;
    // every case has ONE edit class (so that a violation key names the edit that matters); "mixed" combines them freely
    static const char *class_names[] = {"none", "clearCache", "clearBestParticles", "clearBestParticles+clearCache", "setParticlePositions",
                                        "setParticlePositions+clearCache", "setParticleVelocities", "setBestParticlePositions",
                                        "setBestParticlePositions+clearCache", "newObjective+clearCache", "mixed", "setParticlePositions+clearBestParticles"};
    int edit_class;
    { int r = rng.range(0, 99);
      edit_class = (r < 10) ? 0 : (r < 24) ? 1 : (r < 38) ? 2 : (r < 46) ? 3 : (r < 51) ? 4 : (r < 57) ? 5 : (r < 61) ? 6 : (r < 66) ? 7 : (r < 73) ? 8 : (r < 83) ? 9 : (r < 95) ? 10 : 11; }
    std::string arg_class = arg("edits", "");
    for(int k=0; k<=11; k++) if (arg_class == class_names[k]) edit_class = k;
    int nseg = (edit_class == 0) ? rng.range(1, 3) : rng.range(2, 4);
    Objective cur_obj = obj; Domain cur_dom = dom;
    for(int s=0; s<nseg; s++){
        Segment sg;
        auto push = [&](EditKind k){ Edit e; e.kind = k; sg.edits.push_back(e); };
        auto push_set_pos = [&](){ Edit e; e.kind = e_set_pos; e.data = random_points(N, 0.3); e.raw = rng.coin(0.3);
                                   if (rng.coin(0.25)){ e.kind = e_init_box; e.seed = rng.next(); e.data.clear(); } // re-initialisation is another way of replacing the positions
                                   sg.edits.push_back(e); };
        auto push_set_vel = [&](){ Edit e; e.kind = e_set_vel; e.data = random_points(N, 0.0); for(size_t i=0; i<e.data.size(); i++) e.data[i] = 0.3 * (e.data[i] - blo[i % D]); e.raw = rng.coin(0.3); sg.edits.push_back(e); };
        auto push_set_best = [&](){
            Edit e; e.kind = e_set_best; e.data = random_points(N + 1, 0.2); e.raw = rng.coin(0.3);
            // consistent input: the swarm strip is the best of the particle strips under the objective in force
            double bv = std::numeric_limits<double>::infinity(); long bi = -1;
            for(size_t i=0; i<N; i++) if (cur_dom.inside(&e.data[i * D])){ double v = cur_obj.f(&e.data[i * D]); if (v < bv){ bv = v; bi = (long) i; } }
            if (bi >= 0) std::copy_n(e.data.begin() + bi * (long) D, D, e.data.begin() + (long)(N * D));
            sg.edits.push_back(e); };
        auto push_new_obj = [&](){ Edit e; e.kind = e_new_objective; e.obj = make_objective(rng, d); e.dom = rng.coin(0.5) ? cur_dom : make_domain(rng, d, blo, bhi);
                                   cur_obj = e.obj; cur_dom = e.dom; sg.edits.push_back(e); push(e_clear_cache); }; // the documentation requires clearCache() here
        bool first_ok = (edit_class == 7 || edit_class == 8); // before the first run only manually supplied best positions make sense
        if ((s > 0 && edit_class != 0) || (s == 0 && first_ok && rng.coin(0.3))){
            switch(edit_class){
            case 1: push(e_clear_cache); break;
            case 2: push(e_clear_best); break;
            case 3: if (rng.coin()){ push(e_clear_best); push(e_clear_cache); } else { push(e_clear_cache); push(e_clear_best); } break;
            case 4: push_set_pos(); break;
            case 5: push_set_pos(); push(e_clear_cache); break;
            case 6: push_set_vel(); break;
            case 7: push_set_best(); break;
            case 8: push_set_best(); push(e_clear_cache); break;
            case 9: push_new_obj(); break;
            case 11: if (rng.coin()){ push_set_pos(); push(e_clear_best); } else { push(e_clear_best); push_set_pos(); } break;
            default: {
                int cnt = rng.range(1, 3);
                for(int k=0; k<cnt; k++){
                    int r = rng.range(0, 6);
                    if (r == 0) push(e_clear_cache); else if (r == 1) push(e_clear_best); else if (r == 2) push_set_pos(); else if (r == 3) push_set_vel();
                    else if (r == 4) push_set_best(); else if (r == 5) push_new_obj(); else { push(e_clear_best); push(e_clear_cache); }
                } break; }
            }
        }
        sg.total = rng.coin(0.1) ? 0 : rng.range(1, max_total);
        int parts = rng.range(1, 3), left = sg.total;
        for(int k=0; k<parts; k++){ int t = (k == parts - 1) ? left : rng.range(0, left); sg.split.push_back(t); left -= t; }
        script.push_back(sg);
    }
    std::string script_str, shape;
    for(auto const &sg : script){
        for(auto const &e : sg.edits){ script_str += std::string(edit_name(e.kind)) + ";"; shape += std::string(edit_name(e.kind)).substr(0, 6) + "."; }
        script_str += "run["; for(size_t k=0; k<sg.split.size(); k++) script_str += (k ? "," : "") + std::to_string(sg.split[k]); script_str += "];";
        shape += (sg.total == 0) ? "r0." : "r.";
    }
    emit_begin(c, J().str("objective", obj.name()).str("domain", dom.name()).i("dims", d).i("particles", np).num("inertia", inertia).num("cognitive", cog).num("social", soc)
                  .str("init", init_kind == 0 ? "initializeParticlesInsideBox" : init_kind == 1 ? "constructor(pp,pv)" : init_kind == 2 ? "set*" : "uninitialised")
                  .vec("box_lower", blo).vec("box_upper", bhi).str("edit_class", class_names[edit_class]).str("script", script_str).obj());

    // ---------------------------------------------------------------- pure objective / domain currently in force (switched by newObjective)
    Objective fobj = obj; Domain fdom = dom;
    auto make_f = [&](Runner &r)->TasOptimization::ObjectiveFunction{
        return [&r, &fobj, &fdom, D](Vec const &xb, Vec &fv)->void{
            r.objective_calls++;
            if (fv.empty() || xb.size() != fv.size() * D){ r.bad_batch = true; }
            size_t nb = std::min(fv.size(), xb.size() / D);
            for(size_t i=0; i<nb; i++){
                const double *x = &xb[i * D];
                if (!fdom.inside(x) && !r.outside_eval){ r.outside_eval = true; r.outside_point.assign(x, x + D); }
                double v = fobj.f(x); fv[i] = v;
                r.evals.push_back(EvalRec{Vec(x, x + D), v}); r.evals_total++;
            }
        };
    };
    auto make_inside = [&](Runner &r)->TasDREAM::DreamDomain{
        return [&r, &fdom, D](Vec const &x)->bool{ r.domain_calls++; if (x.size() != D) r.bad_batch = true; return fdom.inside(x.data()); };
    };
    auto make_rng = [&](Runner &r)->std::function<double(void)>{ return [&r]()->double{ r.draws++; return r.stream.uni(); }; };

    // ---------------------------------------------------------------- uninitialised state: documented to throw
    if (init_kind == 3){
        int which = rng.range(0, 2); // 0 nothing set, 1 only positions, 2 only velocities
        TasOptimization::ParticleSwarmState st(d, np);
        if (which == 1) st.setParticlePositions(random_points(N, 0.0));
        if (which == 2) st.setParticleVelocities(random_points(N, 0.0));
        Runner r(st, Rng(stream_seed));
        bool thrown = false;
        try{ TasOptimization::ParticleSwarm(make_f(r), make_inside(r), inertia, cog, soc, rng.range(0, 3), r.st, make_rng(r)); }
        catch(std::runtime_error &){ thrown = true; }
        if (!thrown) c.viol("uninitialised-state-accepted", J().i("which", which).obj());
        if (r.objective_calls > 0 || r.domain_calls > 0 || r.draws > 0) c.viol("uninitialised-state-callbacks-invoked", J().i("objective_calls", r.objective_calls).obj());
        std::vector<bool> fl = r.st.getStateVector();
        if (fl[2] || fl[3]) c.viol("uninitialised-state-flags-changed", J().str("flags", flags_str(fl)).obj());
        c.sig(std::string("uninit|") + std::to_string(which)); c.count("uninitialised_state_cases");
        return;
    }

    // ---------------------------------------------------------------- initial state
    TasOptimization::ParticleSwarmState st0(d, np);
    {
        Rng init_stream(stream_seed ^ 0x5555);
        if (init_kind == 0){
            long long cnt = 0;
            auto r01 = [&]()->double{ cnt++; return init_stream.uni(); };
            if (rng.coin()) st0.initializeParticlesInsideBox(blo, bhi, r01); else st0.initializeParticlesInsideBox(blo.data(), bhi.data(), r01);
            Vec p = st0.getParticlePositions(), v = st0.getParticleVelocities();
            bool okb = (p.size() == N * D && v.size() == N * D);
            for(size_t i=0; okb && i<N*D; i++){ double w = bhi[i % D] - blo[i % D]; if (!(p[i] >= blo[i % D] && p[i] <= bhi[i % D] && std::fabs(v[i]) <= w)) okb = false; }
            if (!okb) c.viol("initializeParticlesInsideBox:outside-documented-range", J().vec("positions", p).vec("velocities", v).obj());
            if (cnt != (long long)(2 * N * D)) c.count("note_init_random_draws_not_2nd");
        }else{
            Vec pp = random_points(N, 0.0), pv(N * D);
            for(size_t i=0; i<N*D; i++){ double w = bhi[i % D] - blo[i % D]; pv[i] = rng.uni(-w, w); }
            if (init_kind == 1){ Vec a = pp, b = pv; st0 = TasOptimization::ParticleSwarmState(d, std::move(a), std::move(b)); }
            else { if (rng.coin()){ st0.setParticlePositions(pp); st0.setParticleVelocities(pv); } else { st0.setParticlePositions(pp.data()); st0.setParticleVelocities(pv.data()); } }
            if (st0.getNumParticles() != np || st0.getNumDimensions() != d) c.viol("constructor:wrong-sizes", J().i("particles", st0.getNumParticles()).obj());
        }
        std::vector<bool> fl = st0.getStateVector();
        if (!(fl[0] && fl[1] && !fl[2] && !fl[3])) c.viol("state-flags:after-initialisation", J().str("flags", flags_str(fl)).obj());
    }
    Runner S(st0, Rng(stream_seed)), A(st0, Rng(stream_seed)), B(st0, Rng(stream_seed));
    auto fS = make_f(S), fA = make_f(A), fB = make_f(B);
    auto iS = make_inside(S), iA = make_inside(A), iB = make_inside(B);
    auto rS = make_rng(S), rA = make_rng(A), rB = make_rng(B);

    // ---------------------------------------------------------------- shadow model of S
    std::vector<Know> K(N + 1);
    std::vector<int> cur(N, 0);             // 0: not evaluated yet (the next call must evaluate it), 1: known, 2: stale (moved by the user without clearCache)
    std::vector<char> cur_in(N, 0); Vec cur_val(N, 0.0);
    std::vector<char> claim(N + 1, 0);      // the best strip holds a genuine best-known position (else: placeholder)
    bool m_cache = false, m_best = false;
    bool have_prev = false; double prev_best = 0.0;
    std::string ctx = "none";
    std::set<std::string> done;
    auto viol = [&](std::string const &key, std::string const &detail){ if (done.insert(key).second) c.viol(key, detail); };
    long long never_inside_particles = 0; bool any_inside_eval = false; int total_iters = 0;
    int call_no = 0;
    bool stop = false;

    auto check_runner_flags = [&](Runner &r, const char *who){
        if (r.outside_eval){ viol(std::string("objective-called-outside-domain:after=") + ctx, J().str("state", who).vec("point", r.outside_point).i("call", call_no).obj()); r.outside_eval = false; }
        if (r.bad_batch){ viol(std::string("callback-batch-shape:after=") + ctx, J().str("state", who).obj()); r.bad_batch = false; }
    };

    auto call_S = [&](int iters){
        Vec pre = S.st.getParticlePositions(), preBest = S.st.getBestParticlePositions();
        S.evals.clear();
        TasOptimization::ParticleSwarm(fS, iS, inertia, cog, soc, iters, S.st, rS);
        call_no++;
        check_runner_flags(S, "single-step");
        Vec post = S.st.getParticlePositions(), postV = S.st.getParticleVelocities(), postBest = S.st.getBestParticlePositions();
        std::map<PKey, double> E;
        for(auto const &e : S.evals) E[pkey(e.x.data(), d)] = e.v;
        if (!S.evals.empty()) any_inside_eval = true;
        auto looked = [&](const double *x, double &v)->bool{ auto it = E.find(pkey(x, d)); if (it == E.end()) return false; v = it->second; return true; };
        if (c.nviol > 0) return; // the shadow model and the library are in different states already: later differences would only be consequences
        // --- start of the call: positions / best positions whose values are not cached must be evaluated
        if (!m_cache){
            for(size_t i=0; i<N; i++){
                const double *x = &pre[i * D]; double v;
                if (fdom.inside(x)){
                    if (looked(x, v)){ K[i].add(x, d, v); cur[i] = 1; cur_in[i] = 1; cur_val[i] = v; }
                    else viol("inside-position-not-evaluated:call-start:after=" + ctx, J().i("particle", (long long) i).i("call", call_no).obj());
                }else{ cur[i] = 1; cur_in[i] = 0; }
            }
            if (m_best){
                for(size_t s=0; s<=N; s++){
                    if (!claim[s]) continue; // placeholder strip: no best-known position was ever assigned
                    const double *x = &preBest[s * D]; double v;
                    if (fdom.inside(x)){
                        if (looked(x, v)) K[s].add(x, d, v);
                        else viol("best-position-not-reevaluated:after=" + ctx, J().i("strip", (long long) s).i("call", call_no).obj());
                    }else claim[s] = 0; // outside the (new) domain: dropped
                }
            }
        }else{
            for(size_t i=0; i<N; i++) if (cur[i] == 2){ const double *x = &pre[i * D]; double v; if (fdom.inside(x) && looked(x, v)){ K[i].add(x, d, v); cur[i] = 1; cur_in[i] = 1; cur_val[i] = v; } }
        }
        m_cache = true; m_best = true;
        // --- one iteration
        if (iters == 1){
            total_iters++;
            for(size_t q=0; q<N*D; q++){
                double expect = pre[q] + postV[q];
                if (!same_bits(expect, post[q])){ viol("position-not-advanced-by-velocity:after=" + ctx, J().i("entry", (long long) q).num("before", pre[q]).num("velocity", postV[q]).num("after", post[q]).obj()); break; }
            }
            for(size_t i=0; i<N; i++){
                const double *x = &post[i * D]; double v;
                if (fdom.inside(x)){
                    if (looked(x, v)){ K[i].add(x, d, v); cur[i] = 1; cur_in[i] = 1; cur_val[i] = v; }
                    else { viol("inside-position-not-evaluated:iteration:after=" + ctx, J().i("particle", (long long) i).i("call", call_no).obj()); cur[i] = 0; }
                }else{ cur[i] = 1; cur_in[i] = 0; }
            }
        }else if (post != pre){
            viol("zero-iteration-call-moved-particles:after=" + ctx, J().i("call", call_no).obj());
        }
        // --- flags
        std::vector<bool> fl = S.st.getStateVector();
        if (!(fl[0] && fl[1] && fl[2] && fl[3])) viol("state-flags:after-call", J().str("flags", flags_str(fl)).obj());
        // --- best-known positions
        Know all;
        for(size_t s=0; s<=N; s++) for(auto const &kv : K[s].pts){ auto it = all.pts.find(kv.first); if (it == all.pts.end() || kv.second < it->second) all.pts[kv.first] = kv.second; }
        for(size_t i=0; i<N; i++){
            const double *b = &postBest[i * D];
            if (K[i].empty()){
                if (!claim[i]){
                    bool same = true; for(size_t j=0; j<D; j++) if (!same_bits(b[j], preBest[i * D + j])) same = false;
                    if (!same) viol("particle-best-changed-without-in-domain-visit:after=" + ctx, J().i("particle", (long long) i).i("call", call_no).obj());
                }
                continue;
            }
            claim[i] = 1;
            auto it = K[i].pts.find(pkey(b, d));
            double mv = K[i].minv();
            if (it == K[i].pts.end())
                viol("particle-best-never-visited:after=" + ctx, J().i("particle", (long long) i).i("call", call_no).vec("reported_best", Vec(b, b + D)).b("reported_inside_domain", fdom.inside(b))
                     .num("f_reported", fobj.f(b)).num("min_over_visited", mv).i("visited_points", (long long) K[i].pts.size()).obj());
            else if (it->second != mv)
                viol("particle-best-not-minimum:after=" + ctx, J().i("particle", (long long) i).i("call", call_no).vec("reported_best", Vec(b, b + D)).num("f_reported", it->second).num("min_over_visited", mv).obj());
        }
        if (!all.empty()){
            claim[N] = 1;
            const double *g = &postBest[N * D];
            auto it = all.pts.find(pkey(g, d));
            double mv = all.minv();
            if (it == all.pts.end())
                viol("swarm-best-never-visited:after=" + ctx, J().i("call", call_no).vec("reported_best", Vec(g, g + D)).b("reported_inside_domain", fdom.inside(g)).num("f_reported", fobj.f(g))
                     .num("min_over_all_in_domain_evaluations", mv).i("evaluated_points", (long long) all.pts.size()).obj());
            else if (it->second != mv)
                viol("swarm-best-not-minimum:after=" + ctx, J().i("call", call_no).vec("reported_best", Vec(g, g + D)).num("f_reported", it->second).num("min_over_all_in_domain_evaluations", mv).obj());
            double fg = fobj.f(g);
            if (have_prev && fg > prev_best) viol("swarm-best-increased:after=" + ctx, J().i("call", call_no).num("before", prev_best).num("after", fg).obj());
            have_prev = true; prev_best = fg;
        }
    };

    auto apply_edit = [&](Runner &r, Edit const &e){
        switch(e.kind){
        case e_clear_cache: r.st.clearCache(); break;
        case e_clear_best: r.st.clearBestParticles(); break;
        case e_set_pos: if (e.raw) r.st.setParticlePositions(e.data.data()); else r.st.setParticlePositions(e.data); break;
        case e_set_vel: if (e.raw) r.st.setParticleVelocities(e.data.data()); else r.st.setParticleVelocities(e.data); break;
        case e_set_best: if (e.raw) r.st.setBestParticlePositions(e.data.data()); else r.st.setBestParticlePositions(e.data); break;
        case e_new_objective: break;
        case e_init_box: { Rng q(e.seed); auto r01 = [&q]()->double{ return q.uni(); };
                           if (e.raw) r.st.initializeParticlesInsideBox(blo.data(), bhi.data(), r01); else r.st.initializeParticlesInsideBox(blo, bhi, r01); break; }
        }
    };
    auto model_edit = [&](Edit const &e){
        switch(e.kind){
        case e_clear_cache:
            for(auto &k : K) k.pts.clear();
            std::fill(cur.begin(), cur.end(), 0); m_cache = false; break;
        case e_clear_best: {
            for(auto &k : K) k.pts.clear();
            std::fill(claim.begin(), claim.end(), 0); m_best = false; have_prev = false;
            // the values at the current positions stay cached: the next call adopts them as the first best-known positions
            Vec p = S.st.getParticlePositions();
            for(size_t i=0; i<N; i++) if (m_cache && cur[i] == 1 && cur_in[i]) K[i].add(&p[i * D], d, cur_val[i]);
            break; }
        case e_set_pos: case e_init_box: for(size_t i=0; i<N; i++) cur[i] = m_cache ? 2 : 0; break;
        case e_set_vel: break;
        case e_set_best:
            for(auto &k : K) k.pts.clear();
            std::fill(claim.begin(), claim.end(), 1); m_best = true; have_prev = false; break;
        case e_new_objective: fobj = e.obj; fdom = e.dom; have_prev = false; break;
        }
    };
    auto check_flags_after_edit = [&](Edit const &e){
        std::vector<bool> fl = S.st.getStateVector();
        bool okf = (fl[0] && fl[1] && fl[2] == m_best && fl[3] == m_cache);
        if (!okf) viol(std::string("state-flags:after-") + edit_name(e.kind), J().str("flags", flags_str(fl)).b("model_best", m_best).b("model_cache", m_cache).obj());
        if (e.kind == e_set_pos && S.st.getParticlePositions() != e.data) viol("setter-roundtrip:positions", "{}");
        if (e.kind == e_set_vel && S.st.getParticleVelocities() != e.data) viol("setter-roundtrip:velocities", "{}");
        if (e.kind == e_set_best && (S.st.getBestParticlePositions() != e.data || S.st.getBestPosition() != Vec(e.data.end() - (long) D, e.data.end()))) viol("setter-roundtrip:best-positions", "{}");
    };

    // ---------------------------------------------------------------- run the script
    for(size_t s=0; s<script.size() && !stop; s++){
        Segment const &sg = script[s];
        if (!sg.edits.empty()) ctx = (edit_class == 10) ? "mixed-edits" : class_names[edit_class];
        for(auto const &e : sg.edits){
            if (e.kind == e_new_objective){ /* all three runners share fobj/fdom */ }
            apply_edit(S, e); apply_edit(A, e); apply_edit(B, e);
            model_edit(e);
            // a setter may drop the cache (the public flag says so): the model then expects the re-evaluation that clearCache() implies
            if ((e.kind == e_set_pos || e.kind == e_init_box || e.kind == e_set_best) && m_cache && !S.st.isCacheInitialized()){ Edit cc; cc.kind = e_clear_cache; model_edit(cc); c.count("setter_dropped_cache"); }
            check_flags_after_edit(e);
        }
        // S: one iteration per call (a zero-iteration segment is one call with 0)
        if (sg.total == 0) call_S(0); else for(int k=0; k<sg.total; k++) call_S(1);
        // A: split, B: joint
        for(int t : sg.split){ A.evals.clear(); TasOptimization::ParticleSwarm(fA, iA, inertia, cog, soc, t, A.st, rA); check_runner_flags(A, "split"); }
        B.evals.clear(); TasOptimization::ParticleSwarm(fB, iB, inertia, cog, soc, sg.total, B.st, rB); check_runner_flags(B, "joint");
        // resumability: bitwise agreement
        struct Cmp{ const char *what; Vec s, a, b; };
        std::vector<Cmp> cmps = { {"positions", S.st.getParticlePositions(), A.st.getParticlePositions(), B.st.getParticlePositions()},
                                  {"velocities", S.st.getParticleVelocities(), A.st.getParticleVelocities(), B.st.getParticleVelocities()},
                                  {"best-positions", S.st.getBestParticlePositions(), A.st.getBestParticlePositions(), B.st.getBestParticlePositions()} };
        for(auto const &q : cmps){
            auto same = [&](Vec const &u, Vec const &v)->long{ if (u.size() != v.size()) return 0; for(size_t i=0; i<u.size(); i++) if (!same_bits(u[i], v[i])) return (long) i; return -1; };
            long ia = same(q.b, q.a), is = same(q.b, q.s);
            if (ia >= 0) viol(std::string("split-run-differs-from-joint-run:") + q.what + ":after=" + ctx, J().i("segment", (long long) s).i("total", sg.total).vec("split", sg.split).i("entry", ia).num("joint", q.b[(size_t) ia]).num("split_value", q.a[(size_t) ia]).obj());
            if (is >= 0) viol(std::string("single-step-run-differs-from-joint-run:") + q.what + ":after=" + ctx, J().i("segment", (long long) s).i("total", sg.total).i("entry", is).num("joint", q.b[(size_t) is]).num("single", q.s[(size_t) is]).obj());
        }
        if (A.draws != B.draws || S.draws != B.draws)
            viol("random-draws-differ:after=" + ctx, J().i("joint", B.draws).i("split", A.draws).i("single", S.draws).obj());
        if (A.evals_total != B.evals_total) c.count("note_split_and_joint_runs_use_different_numbers_of_evaluations");
        if (S.st.getStateVector() != A.st.getStateVector() || S.st.getStateVector() != B.st.getStateVector()) viol("state-flags:differ-between-copies", "{}");
        // blow-up guard (inertia > 1 without a best): stop before non-finite numbers make bitwise comparisons meaningless
        Vec pp = S.st.getParticlePositions(); double mx = 0.0; for(double v : pp) mx = std::max(mx, std::fabs(v));
        if (!(mx < 1e100)) stop = true;
        // a violated clause leaves the shadow model and the library in different states: later differences would only be consequences
        if (c.nviol > 0) stop = true;
    }
    for(size_t i=0; i<N; i++) if (!claim[i]) never_inside_particles++;
    c.count("library_calls", call_no); c.count("iterations", total_iters); c.count("objective_evaluations", S.evals_total);
    c.count("particles_never_inside", never_inside_particles);
    if (!any_inside_eval){ c.count("trivial:no-in-domain-evaluation"); if (dom.kind != 6 && dom.kind != 5) return; }
    if (total_iters == 0){ c.count("trivial:no-iteration"); return; }
    char sg[256];
    snprintf(sg, sizeof(sg), "%s|%s|d%d|n%d|%s|%s|%s", obj.name(), dom.name(), d, (np <= 2) ? np : 3 + np / 8, shape.c_str(),
             never_inside_particles > 0 ? "some-never-inside" : "all-inside", any_inside_eval ? "eval" : "noeval");
    c.sig(sg);
}

} // namespace vf
