#include "common.hpp"
#include <fstream>
#include <iomanip>

namespace vf{

// ------------------------------------------------------------------------------------------------
// custom tabulated rules: Gauss-Legendre tables computed here (Newton iteration on Legendre polynomials)
// ------------------------------------------------------------------------------------------------
static void gauss_legendre(int n, std::vector<double> &x, std::vector<double> &w){
    x.resize((size_t) n); w.resize((size_t) n);
    for(int i=0; i<n; i++){
        double z = std::cos(M_PI * (i + 0.75) / (n + 0.5));
        double pp = 1.0;
        for(int it=0; it<100; it++){
            double p1 = 1.0, p2 = 0.0;
            for(int j=0; j<n; j++){ double p3 = p2; p2 = p1; p1 = ((2.0*j + 1.0) * z * p2 - j * p3) / (j + 1.0); }
            pp = n * (z * p1 - p2) / (z * z - 1.0);
            double z1 = z; z = z1 - p1 / pp;
            if (std::fabs(z - z1) < 1e-16) break;
        }
        x[(size_t)(n - 1 - i)] = z;
        w[(size_t)(n - 1 - i)] = 2.0 / ((1.0 - z * z) * pp * pp);
    }
    if (n % 2 == 1) x[(size_t)(n / 2)] = 0.0;
}
static void custom_tables(int levels, bool odd, std::vector<int> &nn, std::vector<int> &prec, std::vector<std::vector<double>> &nodes, std::vector<std::vector<double>> &weights){
    nn.clear(); prec.clear(); nodes.clear(); weights.clear();
    for(int l=0; l<levels; l++){
        int n = odd ? 2*l + 1 : l + 1;
        nn.push_back(n); prec.push_back(2*n - 1);
        std::vector<double> x, w; gauss_legendre(n, x, w);
        nodes.push_back(x); weights.push_back(w);
    }
}
std::string write_custom_rule_file(int levels, bool odd){
    std::vector<int> nn, prec; std::vector<std::vector<double>> nodes, weights;
    custom_tables(levels, odd, nn, prec, nodes, weights);
    char name[256];
    const char *tmp = getenv("VF_TMPDIR"); if (!tmp) tmp = "/var/tmp";
    snprintf(name, sizeof(name), "%s/vf_custom_%d_%d_%d.table", tmp, (int) getpid(), levels, odd ? 1 : 0);
    std::ofstream ofs(name);
    ofs << "description: verif Gauss-Legendre table " << (odd ? "odd" : "lin") << "\n";
    ofs << "levels: " << levels << "\n";
    for(int l=0; l<levels; l++) ofs << nn[(size_t) l] << " " << prec[(size_t) l] << "\n";
    ofs << std::scientific << std::setprecision(17);
    for(int l=0; l<levels; l++) for(size_t i=0; i<nodes[(size_t) l].size(); i++) ofs << weights[(size_t) l][i] << " " << nodes[(size_t) l][i] << "\n";
    return name;
}
CustomTabulated make_custom_rule(int levels, bool odd){
    std::vector<int> nn, prec; std::vector<std::vector<double>> nodes, weights;
    custom_tables(levels, odd, nn, prec, nodes, weights);
    return CustomTabulated(std::move(nn), std::move(prec), std::move(nodes), std::move(weights),
                           std::string("verif Gauss-Legendre table ") + (odd ? "odd" : "lin"));
}

// ------------------------------------------------------------------------------------------------
// configuration generator
// ------------------------------------------------------------------------------------------------
Cfg gen_cfg(Rng &rng, GenOpts const &o){
    Cfg c;
    std::vector<int> fams;
    for(int f=0; f<5; f++) if (o.families & (1u << f)) fams.push_back(f);
    c.family = rng.pick(fams);
    c.dims = rng.range(std::min(o.min_dims, o.max_dims), o.max_dims);
    if (rng.coin(0.15)) c.dims = 1;
    c.outs = rng.range(o.min_outs, o.max_outs);
    c.type = rng.pick(depth_types());
    if (rng.coin(0.25)) c.type = type_level;
    c.depth = rng.range(1, o.max_depth);
    if (rng.coin(0.05)) c.depth = 0;
    switch(c.family){
        case fam_global:{
            bool nn = o.nonnested && (!o.nested || rng.coin(0.45));
            c.rule = nn ? rng.pick(nonnested_global_rules()) : rng.pick(nested_global_rules());
            if (!o.unbounded) while (is_unbounded(c.rule)) c.rule = rng.pick(nonnested_global_rules());
            if (o.custom && nn && rng.coin(0.12)){ c.custom = rng.coin() ? 1 : 2; c.rule = rule_customtabulated; }
            if (uses_alpha(c.rule)){
                c.alpha = rng.coin(0.2) ? (double) rng.range(0, 2) : rng.uni(-0.9, 3.0);
                c.beta = rng.coin(0.2) ? (double) rng.range(0, 2) : rng.uni(-0.9, 3.0);
                if (is_hermite(c.rule) && rng.coin(0.3)) c.alpha = 0.0;
                {   // one configuration in eight gets parameters in a special relation (derived from the bits already drawn, so that the random
                    // stream of all other configurations is unchanged): alpha + beta = -1 exactly (Chebyshev-like weights, where the general
                    // three-term recurrence formulas are 0/0), alpha = beta, alpha = -1/2
                    uint64_t hsh = (dbits(c.alpha) * 0x9E3779B97F4A7C15ull) ^ (dbits(c.beta) >> 7);
                    if ((hsh >> 33) % 8 == 0 && !is_hermite(c.rule) && !is_laguerre(c.rule)){
                        static const double specials[] = {-0.5, -0.25, -0.75, -0.125};
                        c.alpha = specials[(hsh >> 40) % 4];
                        switch((hsh >> 45) % 3){ case 0: c.beta = -1.0 - c.alpha; break; case 1: c.beta = c.alpha; break; default: c.alpha = -0.5; c.beta = -0.5; break; }
                    }
                }
            }
            break; }
        case fam_sequence: c.rule = rng.pick(sequence_rules()); break;
        case fam_localp:
            c.rule = rng.pick(localp_rules());
            { static const int ords[] = {-1, 0, 1, 1, 2, 2, 3, 4, 5}; c.order = ords[rng.range(0, 8)]; }
            break;
        case fam_wavelet: c.rule = rule_wavelet; c.order = rng.coin() ? 1 : 3; if (o.wavelet_order) c.order = o.wavelet_order; break;
        default: c.rule = rule_fourier; break;
    }
    // depth caps that keep rule construction cheap (greedy sequences are optimised numerically; tables are finite)
    if (c.family == fam_global || c.family == fam_sequence){
        if (is_optimized_sequence(c.rule)) c.depth = std::min(c.depth, 9);
        if (c.rule == rule_gausspatterson) c.depth = std::min(c.depth, 8); // the table holds levels 0..8
        if (c.rule == rule_clenshawcurtis || c.rule == rule_clenshawcurtis0 || c.rule == rule_fejer2 || c.rule == rule_rlejashifteddouble)
            c.depth = std::min(c.depth, 7);
        if (c.custom) c.depth = std::min(c.depth, 5);
    }
    if (c.family == fam_fourier) c.depth = std::min(c.depth, 5);
    if (c.family == fam_wavelet) c.depth = std::min(c.depth, 5);
    if (c.family == fam_localp) c.depth = std::min(c.depth, 7);
    // anisotropic weights
    if ((c.family == fam_global || c.family == fam_sequence || c.family == fam_fourier) && rng.coin(0.5)){
        size_t n = (size_t) c.dims * (is_curved(c.type) ? 2 : 1);
        c.aw.resize(n);
        for(size_t i=0; i<n; i++) c.aw[i] = (i < (size_t) c.dims) ? rng.range(1, 3) : rng.range(0, 2);
    }
    if (o.limits && rng.coin(0.35)){
        c.limits.resize((size_t) c.dims);
        for(auto &l : c.limits){ l = rng.range(-1, std::max(1, c.depth)); if (rng.coin(0.15)) l = 0; }
    }
    if (o.transforms && rng.coin(0.5)){
        c.ta.resize((size_t) c.dims); c.tb.resize((size_t) c.dims);
        for(int j=0; j<c.dims; j++){
            if (c.family == fam_global && is_unbounded(c.rule)){
                c.ta[(size_t) j] = rng.uni(-3.0, 3.0);
                c.tb[(size_t) j] = std::exp(rng.uni(-2.0, 2.0));
            }else{
                double centre = rng.uni(-5.0, 5.0);
                double half = std::exp(rng.uni(-3.0, 3.0));
                c.ta[(size_t) j] = centre - half; c.tb[(size_t) j] = centre + half;
            }
        }
    }
    if (o.conformal && c.family != fam_fourier && !(c.family == fam_global && is_unbounded(c.rule)) && rng.coin(0.15)){
        c.conformal.resize((size_t) c.dims);
        for(auto &t : c.conformal) t = rng.range(1, 6);
    }
    return c;
}

void apply_transforms(TasmanianSparseGrid &g, Cfg const &c){
    if (!c.ta.empty()) g.setDomainTransform(c.ta, c.tb);
    if (!c.conformal.empty()) g.setConformalTransformASIN(c.conformal);
}

static void make_once(TasmanianSparseGrid &g, Cfg &c){
    switch(c.family){
        case fam_global:
            if (c.custom == 1){
                if (c.custom_file.empty()) c.custom_file = write_custom_rule_file(8, false);
                g.makeGlobalGrid(c.dims, c.outs, c.depth, c.type, rule_customtabulated, c.aw, 0.0, 0.0, c.custom_file.c_str(), c.limits);
            }else if (c.custom == 2){
                g.makeGlobalGrid(c.dims, c.outs, c.depth, c.type, make_custom_rule(8, true), c.aw, c.limits);
            }else{
                g.makeGlobalGrid(c.dims, c.outs, c.depth, c.type, c.rule, c.aw, c.alpha, c.beta, nullptr, c.limits);
            }
            break;
        case fam_sequence: g.makeSequenceGrid(c.dims, c.outs, c.depth, c.type, c.rule, c.aw, c.limits); break;
        case fam_localp: g.makeLocalPolynomialGrid(c.dims, c.outs, c.depth, c.order, c.rule, c.limits); break;
        case fam_wavelet: g.makeWaveletGrid(c.dims, c.outs, c.depth, c.order, c.limits); break;
        default: g.makeFourierGrid(c.dims, c.outs, c.depth, c.type, c.aw, c.limits); break;
    }
}

bool make_grid(TasmanianSparseGrid &g, Cfg &c, int max_points, std::string *err){
    // the meaning of depth depends on the selection type (levels, polynomial degree, ...): grow it from 0 towards the requested value and stop
    // before the grid exceeds max_points, so that no single construction is huge
    int target = c.depth, best = -1;
    for(int dpt = 0; dpt <= target; dpt++){
        c.depth = dpt;
        try{
            make_once(g, c);
        }catch(std::exception &e){
            if (err) *err = e.what();
            break; // e.g. table depth exceeded
        }
        if (g.getNumPoints() > max_points) break;
        if ((c.family == fam_global || c.family == fam_sequence) && is_optimized_sequence(c.rule) && g.getNumPoints() > 0){
            // the greedy sequences are tabulated up to 50 nodes at most; beyond that every node costs a nested numerical optimisation
            const int *idx = g.getPointsIndexes();
            int mx = 0;
            for(size_t q=0; q<(size_t) g.getNumPoints() * (size_t) c.dims; q++) mx = std::max(mx, idx[q]);
            if (mx > 36) break;
        }
        best = dpt;
    }
    if (best < 0) return false;
    if (c.depth != best || g.getNumPoints() > max_points){
        c.depth = best;
        try{ make_once(g, c); }catch(std::exception &e){ if (err) *err = e.what(); return false; }
    }
    try{ apply_transforms(g, c); }catch(std::exception &e){ if (err) *err = e.what(); return false; }
    return true;
}

// ------------------------------------------------------------------------------------------------
// probes / domain
// ------------------------------------------------------------------------------------------------
void domain_box(TasmanianSparseGrid const &g, std::vector<double> &lo, std::vector<double> &hi){
    int d = g.getNumDimensions();
    lo.assign((size_t) d, -1.0); hi.assign((size_t) d, 1.0);
    TypeOneDRule r = g.getRule();
    if (g.isSetDomainTransfrom()){
        std::vector<double> a, b; g.getDomainTransform(a, b);
        for(int j=0; j<d; j++){
            if (is_laguerre(r)){ lo[(size_t) j] = a[(size_t) j]; hi[(size_t) j] = a[(size_t) j] + 6.0 / b[(size_t) j]; }
            else if (is_hermite(r)){ lo[(size_t) j] = a[(size_t) j] - 3.0 / std::sqrt(b[(size_t) j]); hi[(size_t) j] = a[(size_t) j] + 3.0 / std::sqrt(b[(size_t) j]); }
            else{ lo[(size_t) j] = a[(size_t) j]; hi[(size_t) j] = b[(size_t) j]; }
        }
    }else{
        for(int j=0; j<d; j++){
            if (is_laguerre(r)){ lo[(size_t) j] = 0.0; hi[(size_t) j] = 6.0; }
            else if (is_hermite(r)){ lo[(size_t) j] = -3.0; hi[(size_t) j] = 3.0; }
            else if (r == rule_fourier){ lo[(size_t) j] = 0.0; hi[(size_t) j] = 1.0; }
        }
    }
}
std::vector<double> probe_points(TasmanianSparseGrid const &g, int n, uint64_t seed){
    int d = g.getNumDimensions();
    std::vector<double> lo, hi; domain_box(g, lo, hi);
    Rng r(seed);
    std::vector<double> x((size_t) n * (size_t) d);
    for(int i=0; i<n; i++) for(int j=0; j<d; j++){
        double u = r.uni(0.02, 0.98);
        x[(size_t) i * (size_t) d + (size_t) j] = lo[(size_t) j] + u * (hi[(size_t) j] - lo[(size_t) j]);
    }
    return x;
}

// ------------------------------------------------------------------------------------------------
// observation
// ------------------------------------------------------------------------------------------------
Obs observe(TasmanianSparseGrid const &g, ObsOpts const &o){
    Obs r;
    int fam = g.isGlobal() ? 0 : g.isSequence() ? 1 : g.isLocalPolynomial() ? 2 : g.isWavelet() ? 3 : g.isFourier() ? 4 : -1;
    r.addi("family", {fam});
    if (fam < 0){ r.addi("empty", {1}); return r; }
    int d = g.getNumDimensions(), m = g.getNumOutputs();
    r.addi("meta", {d, m, g.getNumLoaded(), g.getNumNeeded(), g.getNumPoints(), (long long) g.getRule(), g.getOrder(), g.isUsingConstruction() ? 1 : 0});
    r.addn("alphabeta", {g.getAlpha(), g.getBeta()});
    r.adds("custom", g.getCustomRuleDescription() ? g.getCustomRuleDescription() : "");
    r.addn("loaded_points", g.getLoadedPoints());
    r.addn("needed_points", g.getNeededPoints());
    r.addn("points", g.getPoints());
    {
        std::vector<long long> idx;
        if (g.getNumLoaded() > 0 || g.getNumNeeded() > 0){
            const int *p = g.getPointsIndexes();
            idx.assign(p, p + (size_t) g.getNumPoints() * (size_t) d);
        }
        r.addi("points_idx", idx);
        std::vector<long long> nidx;
        if (g.getNumNeeded() > 0 && g.isLocalPolynomial()){ const int *p = g.getNeededIndexes(); nidx.assign(p, p + (size_t) g.getNumNeeded() * (size_t) d); }
        r.addi("needed_idx", nidx);
    }
    {
        std::vector<double> a, b;
        if (g.isSetDomainTransfrom()) g.getDomainTransform(a, b);
        r.addn("transform_a", a); r.addn("transform_b", b);
        std::vector<long long> cf;
        if (g.isSetConformalTransformASIN()){ auto t = g.getConformalTransformASIN(); cf.assign(t.begin(), t.end()); }
        r.addi("conformal", cf);
        auto ll = g.getLevelLimits();
        r.addi("limits", std::vector<long long>(ll.begin(), ll.end()));
    }
    if (m > 0 && g.getNumLoaded() > 0){
        const double *v = g.getLoadedValues();
        r.addn("values", std::vector<double>(v, v + (size_t) g.getNumLoaded() * (size_t) m));
        const double *c = g.getHierarchicalCoefficients();
        size_t nc = (size_t) g.getNumLoaded() * (size_t) m * (g.isFourier() ? 2 : 1);
        r.addn("coeffs", std::vector<double>(c, c + nc));
    }else{
        r.addn("values", {}); r.addn("coeffs", {});
    }
    if (g.isGlobal() || g.isSequence()){
        auto pi = g.getGlobalPolynomialSpace(true); auto pq = g.getGlobalPolynomialSpace(false);
        r.addi("space_i", std::vector<long long>(pi.begin(), pi.end()));
        r.addi("space_q", std::vector<long long>(pq.begin(), pq.end()));
    }
    if (o.weights && g.getNumPoints() > 0){
        r.addn("qweights", g.getQuadratureWeights());
        r.addn("basis_integrals", g.integrateHierarchicalFunctions());
        r.addn("support", g.getHierarchicalSupport());
        if (m > 0 && g.getNumLoaded() > 0) r.addn("integrate", g.integrate());
    }
    if (o.probes && g.getNumPoints() > 0){
        std::vector<double> x = probe_points(g, o.num_probes, o.probe_seed);
        // add one grid node and one domain corner
        std::vector<double> pts = g.getPoints();
        std::vector<double> lo, hi; domain_box(g, lo, hi);
        size_t np = pts.size() / (size_t) d;
        for(int j=0; j<d; j++) x.push_back(pts[(np / 2) * (size_t) d + (size_t) j]);
        if (!is_unbounded(g.getRule())){
            for(int j=0; j<d; j++) x.push_back((j % 2 == 0) ? lo[(size_t) j] : hi[(size_t) j]);
        }
        int nx = (int)(x.size() / (size_t) d);
        if (m > 0 && g.getNumLoaded() > 0){
            std::vector<double> y; g.evaluateBatch(x, y);
            r.addn("eval", y);
            std::vector<double> jac, alljac;
            bool has_derivatives = !g.isSetConformalTransformASIN(); // documented: derivatives are not available under conformal maps
            for(int i=0; i<nx && has_derivatives; i++){
                std::vector<double> xi(x.begin() + (size_t) i * (size_t) d, x.begin() + (size_t)(i + 1) * (size_t) d);
                g.differentiate(xi, jac); alljac.insert(alljac.end(), jac.begin(), jac.end());
            }
            r.addn("jacobian", alljac);
        }
        if (o.heavy){
            std::vector<double> iw, dw;
            for(int i=0; i<nx; i++){
                std::vector<double> xi(x.begin() + (size_t) i * (size_t) d, x.begin() + (size_t)(i + 1) * (size_t) d);
                auto w = g.getInterpolationWeights(xi); iw.insert(iw.end(), w.begin(), w.end());
                if (i < 2 && !g.isSetConformalTransformASIN()){ auto w2 = g.getDifferentiationWeights(xi); dw.insert(dw.end(), w2.begin(), w2.end()); }
            }
            r.addn("iweights", iw); r.addn("dweights", dw);
            r.addn("hbasis", g.evaluateHierarchicalFunctions(x));
        }
    }
    return r;
}

std::string obs_diff(Obs const &a, Obs const &b, double rel_tol, std::set<std::string> const &skip){
    if (a.ints.size() != b.ints.size() || a.num.size() != b.num.size() || a.strs.size() != b.strs.size()){
        // find the first field name that is missing
        return "fields";
    }
    for(size_t i=0; i<a.ints.size(); i++){
        if (skip.count(a.ints[i].first)) continue;
        if (a.ints[i].first != b.ints[i].first) return "fields";
        if (a.ints[i].second != b.ints[i].second) return a.ints[i].first;
    }
    for(size_t i=0; i<a.strs.size(); i++){
        if (skip.count(a.strs[i].first)) continue;
        if (a.strs[i].second != b.strs[i].second) return a.strs[i].first;
    }
    for(size_t i=0; i<a.num.size(); i++){
        if (skip.count(a.num[i].first)) continue;
        if (a.num[i].first != b.num[i].first) return "fields";
        auto const &va = a.num[i].second; auto const &vb = b.num[i].second;
        if (va.size() != vb.size()) return a.num[i].first + ":size";
        double scale = 0.0;
        if (rel_tol > 0.0) for(double v : va) if (std::isfinite(v)) scale = std::max(scale, std::fabs(v));
        for(size_t k=0; k<va.size(); k++){
            if (rel_tol == 0.0){
                if (!same_bits(va[k], vb[k])) return a.num[i].first;
            }else{
                if (std::isnan(va[k]) != std::isnan(vb[k])) return a.num[i].first;
                if (std::isnan(va[k])) continue;
                if (std::fabs(va[k] - vb[k]) > rel_tol * (scale + 1e-300)) return a.num[i].first;
            }
        }
    }
    return "";
}

std::string obs_diff_state(Obs const &a, Obs const &b){
    static const std::set<std::string> numeric = {"qweights", "integrate", "basis_integrals"};
    std::string d = obs_diff(a, b, 0.0, numeric);
    if (!d.empty()) return d;
    Obs a2, b2;
    for(auto const &p : a.num) if (numeric.count(p.first)) a2.num.push_back(p);
    for(auto const &p : b.num) if (numeric.count(p.first)) b2.num.push_back(p);
    return obs_diff(a2, b2, 1e-10);
}

std::string obs_serialize(Obs const &o){
    std::ostringstream ss;
    for(auto const &p : o.ints){ ss << "I " << p.first << " " << p.second.size(); for(auto v : p.second) ss << " " << v; ss << "\n"; }
    for(auto const &p : o.strs){ ss << "S " << p.first << " " << p.second << "\n"; }
    char buf[40];
    for(auto const &p : o.num){
        ss << "N " << p.first << " " << p.second.size();
        for(auto v : p.second){ snprintf(buf, sizeof(buf), " %a", v); ss << buf; }
        ss << "\n";
    }
    return ss.str();
}

// ------------------------------------------------------------------------------------------------
// independent hierarchy (geometric definitions; see DESIGN.md section 3)
// ------------------------------------------------------------------------------------------------
namespace hier{
    // closed forms for (level, node) of the p-th point, derived from the documented layout:
    //  localp/semilocalp: 0 -> 0 (level 0); 1 -> -1, 2 -> +1 (level 1); level l >= 2 holds the points 2^(l-1)+1 .. 2^l at -1 + (2j-1) 2^-(l-1)
    //  localp0:           level l holds 2^l - 1 .. 2^(l+1) - 2 at -1 + (2j+1) 2^-l
    //  localpb:           0 -> -1, 1 -> +1 (level 0); 2 -> 0 (level 1); level l >= 2 as localp
    static int ilog2(int v){ int r = 0; while (v > 1){ v >>= 1; r++; } return r; }
    int level(TypeOneDRule rule, int, int p){
        if (rule == rule_localp0) return ilog2(p + 1);
        if (rule == rule_localpb) return (p <= 1) ? 0 : (p == 2) ? 1 : ilog2(p - 1) + 1;
        return (p == 0) ? 0 : (p <= 2) ? 1 : ilog2(p - 1) + 1;
    }
    double node(TypeOneDRule rule, int order, int p){
        int l = level(rule, order, p);
        if (rule == rule_localp0){
            int j = p - ((1 << l) - 1);
            return -1.0 + (2.0 * j + 1.0) / (double)(1 << l);
        }
        if (rule == rule_localpb){
            if (p == 0) return -1.0;
            if (p == 1) return 1.0;
            if (p == 2) return 0.0;
        }else{
            if (p == 0) return 0.0;
            if (p == 1) return -1.0;
            if (p == 2) return 1.0;
        }
        int j = p - (1 << (l - 1));
        return -1.0 + (2.0 * j - 1.0) / (double)(1 << (l - 1));
    }
    // spacing between a level-l node and its nearest coarser neighbours
    static double spacing(TypeOneDRule rule, int l){
        if (rule == rule_localp0) return 1.0 / (double)(1 << l);
        return (l <= 1) ? 1.0 : 1.0 / (double)(1 << (l - 1));
    }
    // find the point with the given node at a level <= maxlevel, -1 when none
    static int find_point(TypeOneDRule rule, int order, double x, int maxlevel){
        int np = (rule == rule_localp0) ? (1 << (maxlevel + 1)) - 1 : (maxlevel == 0 ? (rule == rule_localpb ? 2 : 1) : (1 << maxlevel) + 1);
        for(int p=0; p<np; p++) if (std::fabs(node(rule, order, p) - x) < 1e-13) return p;
        return -1;
    }
    int parent(TypeOneDRule rule, int order, int p){
        int l = level(rule, order, p);
        if (l == 0) return -1;
        double x = node(rule, order, p), h = spacing(rule, l);
        // the neighbour at distance h that lives exactly on level l-1 (for localpb level 1 both do: the right one is "the" parent)
        for(int s = 1; s >= -1; s -= 2){
            double y = x + s * h;
            if (y < -1.0 - 1e-13 || y > 1.0 + 1e-13) continue;
            int q = find_point(rule, order, y, l - 1);
            if (q >= 0 && level(rule, order, q) == l - 1) return q;
        }
        return -1;
    }
    int step_parent(TypeOneDRule rule, int order, int p){
        if (rule == rule_localpb && p == 2) return 0;
        if (rule == rule_semilocalp){ if (p == 3) return 2; if (p == 4) return 1; }
        (void) order;
        return -1;
    }
    static void kids(TypeOneDRule rule, int order, int p, int &k1, int &k2){
        int l = level(rule, order, p);
        double x = node(rule, order, p), h = spacing(rule, l + 1);
        k1 = k2 = -1;
        for(int s = -1; s <= 1; s += 2){
            double y = x + s * h;
            if (y < -1.0 - 1e-13 || y > 1.0 + 1e-13) continue;
            int q = find_point(rule, order, y, l + 1);
            if (q >= 0 && level(rule, order, q) == l + 1){ if (k1 < 0) k1 = q; else k2 = q; }
        }
    }
    int kid_left(TypeOneDRule rule, int order, int p){ int a, b; kids(rule, order, p, a, b); return a; }
    int kid_right(TypeOneDRule rule, int order, int p){ int a, b; kids(rule, order, p, a, b); return b; }
    int max_kids(TypeOneDRule, int){ return 2; }

    // wavelets: level 0 holds 3 (order 1) or 5 (order 3) points; nodes laid out as localp
    int wlevel(int order, int p){
        if (order == 1) return (p <= 2) ? 0 : ilog2(p - 1);
        return (p <= 4) ? 0 : ilog2(p - 1) - 1;
    }
    double wnode(int, int p){ return node(rule_localp, 1, p); }
    int wparent(int order, int p){
        int l = wlevel(order, p);
        if (l == 0) return -1;
        if (l == 1) return -2; // all of level 0
        return (p + 1) / 2;
    }
    void wkids(int order, int p, int &k1, int &k2){
        // children: the nodes of the next dyadic layer adjacent to the node
        double x = wnode(order, p);
        int lp = level(rule_localp, 1, p); // dyadic layer of the node
        int first_layer = (order == 1) ? 2 : 3; // dyadic layer that forms wavelet level 1
        int target = std::max(lp + 1, first_layer);
        double h = 1.0 / (double)(1 << (target - 1));
        k1 = k2 = -1;
        for(int s = -1; s <= 1; s += 2){
            double y = x + s * h;
            if (y < -1.0 - 1e-13 || y > 1.0 + 1e-13) continue;
            int q = find_point(rule_localp, 1, y, target);
            if (q >= 0){ if (k1 < 0) k1 = q; else k2 = q; }
        }
    }
}

int oned_num_points(TypeOneDRule rule, int level){
    // the library computes 3^level / 2^level in int: levels that cannot be represented are answered here (a harness-side query with level 27
    // overflowed inside pow3 and was reported as a crash of the serial reference of C13 - harness artefact, not a library call sequence)
    if (rule == rule_fourier && level > 19) return std::numeric_limits<int>::max();
    if (level > 29) return std::numeric_limits<int>::max();
    return OneDimensionalMeta::getNumPoints(level, rule);
}

} // namespace vf
