// Shared building blocks of the runtime monitors (see DESIGN.md section 3).
#ifndef VF_COMMON_HPP
#define VF_COMMON_HPP

#include "TasmanianSparseGrid.hpp"
#include <cstdint>
#include <cstring>
#include <cstdio>
#include <cmath>
#include <string>
#include <vector>
#include <map>
#include <set>
#include <sstream>
#include <functional>
#include <algorithm>
#include <limits>
#include <unistd.h>

namespace vf{

using TasGrid::TasmanianSparseGrid;
using namespace TasGrid;

// ------------------------------------------------------------------------------------------------
// deterministic PRNG: every case is a pure function of (seed, property, case index)
// ------------------------------------------------------------------------------------------------
inline uint64_t splitmix(uint64_t &s){
    uint64_t z = (s += 0x9E3779B97F4A7C15ull);
    z = (z ^ (z >> 30)) * 0xBF58476D1CE4E5B9ull;
    z = (z ^ (z >> 27)) * 0x94D049BB133111EBull;
    return z ^ (z >> 31);
}
struct Rng{
    uint64_t s;
    explicit Rng(uint64_t seed = 1) : s(seed){ splitmix(s); }
    Rng(uint64_t seed, uint64_t prop, uint64_t idx){
        s = seed * 0x9E3779B97F4A7C15ull + prop * 0xD1B54A32D192ED03ull + idx * 0x2545F4914F6CDD1Dull + 12345;
        splitmix(s); splitmix(s);
    }
    uint64_t next(){ return splitmix(s); }
    double uni(){ return (double)(next() >> 11) * (1.0 / 9007199254740992.0); } // [0,1)
    double uni(double a, double b){ return a + (b - a) * uni(); }
    int range(int a, int b){ return a + (int)(next() % (uint64_t)(b - a + 1)); } // inclusive
    bool coin(double p = 0.5){ return uni() < p; }
    template<class T> const T& pick(std::vector<T> const &v){ return v[(size_t) range(0, (int) v.size() - 1)]; }
    Rng fork(){ return Rng(next()); }
};

// ------------------------------------------------------------------------------------------------
// JSON-ish helpers and the line protocol (B/V/E lines) read by check.py
// ------------------------------------------------------------------------------------------------
inline std::string jstr(std::string const &s){
    std::string r = "\"";
    for(char c : s){
        if (c == '"' || c == '\\'){ r += '\\'; r += c; }
        else if (c == '\n') r += "\\n";
        else if ((unsigned char) c < 0x20) r += ' ';
        else r += c;
    }
    return r + "\"";
}
inline std::string jnum(double v){
    if (std::isnan(v)) return "\"nan\"";
    if (std::isinf(v)) return (v > 0) ? "\"inf\"" : "\"-inf\"";
    char b[40]; snprintf(b, sizeof(b), "%.17g", v); return b;
}
template<class T> inline std::string jvec(std::vector<T> const &v, size_t cap = 64){
    std::string r = "[";
    for(size_t i=0; i<v.size() && i<cap; i++){ if (i) r += ","; r += jnum((double) v[i]); }
    if (v.size() > cap) r += ",\"...\"";
    return r + "]";
}
struct J{ // tiny JSON object builder
    std::string s;
    J& kv(std::string const &k, std::string const &raw){ s += (s.empty() ? "" : ",") + jstr(k) + ":" + raw; return *this; }
    J& str(std::string const &k, std::string const &v){ return kv(k, jstr(v)); }
    J& num(std::string const &k, double v){ return kv(k, jnum(v)); }
    J& i(std::string const &k, long long v){ return kv(k, std::to_string(v)); }
    J& b(std::string const &k, bool v){ return kv(k, v ? "true" : "false"); }
    template<class T> J& vec(std::string const &k, std::vector<T> const &v, size_t cap = 64){ return kv(k, jvec(v, cap)); }
    std::string obj() const{ return "{" + s + "}"; }
};

struct CaseCtx{
    uint64_t seed = 0;
    long long index = 0;
    int prop = 0;
    bool thorough = false;
    int nviol = 0;
    bool inconclusive = false;
    std::string inc_reason;
    std::map<std::string, long long> counters; // coverage counters, summed by check.py
    std::set<std::string> sigs;                // coverage signatures (distinct ones counted by check.py)
    std::set<std::string> viol_keys;
    void count(std::string const &k, long long n = 1){ counters[k] += n; }
    void sig(std::string const &s){ if (sigs.size() < 64) sigs.insert(s); }
    // report a violation: key = stable class (clause + site), detail = witness
    std::function<std::string(std::string const&)> key_filter; // lets a monitor refine a violation key at the moment it is emitted (e.g. classify a solver failure)
    void viol(std::string const &key0, std::string const &detail_json){
        std::string key = key_filter ? key_filter(key0) : key0;
        nviol++;
        if (viol_keys.count(key) && nviol > 4) return; // do not flood
        viol_keys.insert(key);
        printf("V %lld %s %s\n", index, key.c_str(), detail_json.c_str());
        fflush(stdout);
    }
    void inconc(std::string const &why){ inconclusive = true; if (inc_reason.empty()) inc_reason = why; count("inconclusive:" + why); }
};
inline void emit_begin(CaseCtx const &c, std::string const &desc_json){
    printf("B %lld %s\n", c.index, desc_json.c_str()); fflush(stdout);
}
inline void emit_end(CaseCtx const &c){
    std::string cov = "{";
    bool first = true;
    for(auto const &kv : c.counters){ cov += (first ? "" : ",") + jstr(kv.first) + ":" + std::to_string(kv.second); first = false; }
    cov += "}";
    std::string sg = "[";
    first = true;
    for(auto const &s : c.sigs){ sg += (first ? "" : ",") + jstr(s); first = false; }
    sg += "]";
    const char *st = (c.nviol > 0) ? "viol" : (c.inconclusive ? "inc" : "ok");
    printf("E %lld %s %s %s\n", c.index, st, cov.c_str(), sg.c_str()); fflush(stdout);
}

// ------------------------------------------------------------------------------------------------
// names
// ------------------------------------------------------------------------------------------------
inline const char* rule_name(TypeOneDRule r){ return IO::getRuleString(r).c_str(); }
inline std::string rname(TypeOneDRule r){ return IO::getRuleString(r); }
inline std::string tname(TypeDepth t){
    for(auto const &kv : IO::getStringToDepthMap()) if (kv.second == t) return kv.first;
    return "none";
}
inline std::string refname(TypeRefinement r){
    switch(r){ case refine_classic: return "classic"; case refine_parents_first: return "parents"; case refine_direction_selective: return "direction";
               case refine_fds: return "fds"; case refine_stable: return "stable"; default: return "none"; }
}

enum Family{ fam_global = 0, fam_sequence = 1, fam_localp = 2, fam_wavelet = 3, fam_fourier = 4 };
inline const char* fam_name(int f){ static const char *n[] = {"global","sequence","localp","wavelet","fourier"}; return n[f]; }

inline std::vector<TypeOneDRule> const& nested_global_rules(){
    static std::vector<TypeOneDRule> v = {rule_clenshawcurtis, rule_clenshawcurtis0, rule_fejer2, rule_leja, rule_lejaodd, rule_rleja, rule_rlejadouble2,
        rule_rlejadouble4, rule_rlejaodd, rule_rlejashifted, rule_rlejashiftedeven, rule_rlejashifteddouble, rule_maxlebesgue, rule_maxlebesgueodd,
        rule_minlebesgue, rule_minlebesgueodd, rule_mindelta, rule_mindeltaodd, rule_gausspatterson};
    return v;
}
inline std::vector<TypeOneDRule> const& nonnested_global_rules(){
    static std::vector<TypeOneDRule> v = {rule_chebyshev, rule_chebyshevodd, rule_gausslegendre, rule_gausslegendreodd, rule_gausschebyshev1,
        rule_gausschebyshev1odd, rule_gausschebyshev2, rule_gausschebyshev2odd, rule_gaussgegenbauer, rule_gaussgegenbauerodd, rule_gaussjacobi,
        rule_gaussjacobiodd, rule_gausslaguerre, rule_gausslaguerreodd, rule_gausshermite, rule_gausshermiteodd};
    return v;
}
inline std::vector<TypeOneDRule> const& sequence_rules(){
    static std::vector<TypeOneDRule> v = {rule_leja, rule_rleja, rule_rlejashifted, rule_maxlebesgue, rule_minlebesgue, rule_mindelta};
    return v;
}
inline std::vector<TypeOneDRule> const& localp_rules(){
    static std::vector<TypeOneDRule> v = {rule_localp, rule_semilocalp, rule_localp0, rule_localpb};
    return v;
}
inline std::vector<TypeDepth> const& depth_types(){
    static std::vector<TypeDepth> v = {type_level, type_curved, type_hyperbolic, type_iptotal, type_qptotal, type_ipcurved, type_qpcurved,
        type_iphyperbolic, type_qphyperbolic, type_tensor, type_iptensor, type_qptensor};
    return v;
}
inline bool is_curved(TypeDepth t){ return (t == type_curved || t == type_ipcurved || t == type_qpcurved); }
inline bool is_unbounded(TypeOneDRule r){ return (r == rule_gausslaguerre || r == rule_gausslaguerreodd || r == rule_gausshermite || r == rule_gausshermiteodd); }
inline bool is_laguerre(TypeOneDRule r){ return (r == rule_gausslaguerre || r == rule_gausslaguerreodd); }
inline bool is_hermite(TypeOneDRule r){ return (r == rule_gausshermite || r == rule_gausshermiteodd); }
inline bool is_optimized_sequence(TypeOneDRule r){
    return (r == rule_leja || r == rule_lejaodd || r == rule_maxlebesgue || r == rule_maxlebesgueodd || r == rule_minlebesgue || r == rule_minlebesgueodd
            || r == rule_mindelta || r == rule_mindeltaodd);
}
inline bool uses_alpha(TypeOneDRule r){
    return (r == rule_gaussgegenbauer || r == rule_gaussgegenbauerodd || r == rule_gaussjacobi || r == rule_gaussjacobiodd || is_unbounded(r));
}
inline bool uses_beta(TypeOneDRule r){ return (r == rule_gaussjacobi || r == rule_gaussjacobiodd); }

// ------------------------------------------------------------------------------------------------
// grid configuration
// ------------------------------------------------------------------------------------------------
struct Cfg{
    int family = fam_global;
    int dims = 1, outs = 1, depth = 1;
    TypeDepth type = type_level;
    TypeOneDRule rule = rule_clenshawcurtis;
    std::vector<int> aw;      // anisotropic weights (may be empty)
    double alpha = 0.0, beta = 0.0;
    int order = 1;
    std::vector<int> limits;  // level limits (may be empty)
    std::vector<double> ta, tb; // domain transform (may be empty)
    std::vector<int> conformal; // asin truncation (may be empty)
    int custom = 0;           // 0 none, 1 custom-tabulated from file, 2 custom-tabulated in-memory (exotic)
    std::string custom_file;
    std::string json() const{
        J j;
        j.str("family", fam_name(family)).i("dims", dims).i("outs", outs).i("depth", depth);
        if (family == fam_global || family == fam_sequence || family == fam_fourier){ j.str("type", tname(type)); j.vec("aw", aw); }
        j.str("rule", custom ? "custom-tabulated" : rname(rule));
        if (family == fam_global && !custom && uses_alpha(rule)){ j.num("alpha", alpha); j.num("beta", beta); }
        if (family == fam_localp || family == fam_wavelet) j.i("order", order);
        if (!limits.empty()) j.vec("limits", limits);
        if (!ta.empty()){ j.vec("a", ta); j.vec("b", tb); }
        if (!conformal.empty()) j.vec("conformal", conformal);
        if (custom) j.i("custom", custom);
        return j.obj();
    }
    std::string sig() const{ // coarse signature for coverage counting
        std::string s = fam_name(family);
        s += "/" + (custom ? std::string("custom") : rname(rule));
        if (family == fam_global || family == fam_sequence || family == fam_fourier) s += "/" + tname(type);
        if (family == fam_localp || family == fam_wavelet) s += "/o" + std::to_string(order);
        s += "/d" + std::to_string(dims);
        if (!limits.empty()) s += "/L";
        if (!ta.empty()) s += "/T";
        if (!conformal.empty()) s += "/C";
        return s;
    }
};

struct GenOpts{
    unsigned families = 31;     // bit mask over Family
    int max_dims = 3;
    int min_dims = 1;
    int wavelet_order = 0;      // 0: random (1 or 3)
    int max_outs = 3;
    int min_outs = 0;
    int max_points = 400;
    bool nonnested = true;      // allow non-nested global rules
    bool nested = true;
    bool transforms = true;
    bool conformal = true;
    bool limits = true;
    bool custom = false;
    bool unbounded = true;      // allow gauss-laguerre / gauss-hermite
    int max_depth = 9;
};

// writes a custom-tabulated rule file (Gauss-Legendre tables computed by the harness with Newton iterations) and returns its name
std::string write_custom_rule_file(int levels, bool odd_growth);
// in-memory custom rule with the same content
CustomTabulated make_custom_rule(int levels, bool odd_growth);

Cfg gen_cfg(Rng &rng, GenOpts const &o);
// makes the grid; shrinks cfg.depth until the grid has at most max_points points; returns false when the library throws
bool make_grid(TasmanianSparseGrid &g, Cfg &c, int max_points, std::string *err = nullptr);
// applies the transforms of c (called by make_grid)
void apply_transforms(TasmanianSparseGrid &g, Cfg const &c);

// ------------------------------------------------------------------------------------------------
// coordinate-tagged values and the shadow model
// ------------------------------------------------------------------------------------------------
inline uint64_t dbits(double x){ if (x == 0.0) x = 0.0; uint64_t u; std::memcpy(&u, &x, 8); return u; }
typedef std::vector<uint64_t> PKey;
inline PKey pkey(const double *x, int d){ PKey k((size_t) d); for(int i=0; i<d; i++) k[(size_t) i] = dbits(x[i]); return k; }
inline double H(const double *x, int d, int k, int gen){
    uint64_t s = 0x243F6A8885A308D3ull + (uint64_t) k * 0x9E3779B97F4A7C15ull + (uint64_t) gen * 0xC2B2AE3D27D4EB4Full;
    for(int i=0; i<d; i++){ s ^= dbits(x[i]); splitmix(s); }
    uint64_t z = splitmix(s);
    return ((double)(z >> 11) * (1.0 / 9007199254740992.0)) * 2.0 - 1.0;
}
// smooth model used where the coefficient decay matters (refinement selection)
inline double Smooth(const double *x, int d, int k){
    double s = 0.3 * (k + 1);
    for(int i=0; i<d; i++) s += (0.7 + 0.3 * i + 0.1 * k) * x[i];
    return std::exp(-0.5 * std::sin(s) ) + 0.25 * std::cos(1.7 * s + k);
}
struct Shadow{
    int dims = 0, outs = 0;
    std::map<PKey, std::vector<double>> m;
    void clear(){ m.clear(); }
};

// tagged values for a list of points (num x dims) -> num x outs
inline std::vector<double> tagged_values(std::vector<double> const &pts, int dims, int outs, int gen, int mode = 0){
    size_t n = pts.size() / (size_t) dims;
    std::vector<double> v(n * (size_t) outs);
    for(size_t i=0; i<n; i++) for(int k=0; k<outs; k++)
        v[i * (size_t) outs + (size_t) k] = (mode == 0) ? H(&pts[i * (size_t) dims], dims, k, gen) : Smooth(&pts[i * (size_t) dims], dims, k);
    return v;
}

// ------------------------------------------------------------------------------------------------
// observation of a grid through its public const API
// ------------------------------------------------------------------------------------------------
struct Obs{
    std::vector<std::pair<std::string, std::vector<double>>> num;
    std::vector<std::pair<std::string, std::vector<long long>>> ints;
    std::vector<std::pair<std::string, std::string>> strs;
    void addn(std::string const &k, std::vector<double> v){ num.emplace_back(k, std::move(v)); }
    void addi(std::string const &k, std::vector<long long> v){ ints.emplace_back(k, std::move(v)); }
    void adds(std::string const &k, std::string v){ strs.emplace_back(k, std::move(v)); }
    std::vector<double> const* getn(std::string const &k) const{ for(auto const &p : num) if (p.first == k) return &p.second; return nullptr; }
    std::vector<long long> const* geti(std::string const &k) const{ for(auto const &p : ints) if (p.first == k) return &p.second; return nullptr; }
};
struct ObsOpts{
    bool probes = true;       // evaluate / weights / basis at the probe set
    bool weights = true;      // quadrature weights, basis integrals, support
    bool heavy = true;        // interpolation/differentiation weights at probes, hierarchical functions
    int num_probes = 6;
    uint64_t probe_seed = 77;
};
// probe points inside the (transformed) domain of g
std::vector<double> probe_points(TasmanianSparseGrid const &g, int n, uint64_t seed);
Obs observe(TasmanianSparseGrid const &g, ObsOpts const &o = ObsOpts());
// returns "" when equal, otherwise the name of the first differing field plus a short description; rel_tol = 0 -> bitwise
std::string obs_diff(Obs const &a, Obs const &b, double rel_tol = 0.0, std::set<std::string> const &skip = std::set<std::string>());
// fields whose values are produced by numerical integration inside a lazily grown 1-D rule cache (quadrature weights of sequence rules):
// two objects in the same logical state can differ in the last digits there; these are compared to 1e-10 of the field's magnitude
std::string obs_diff_state(Obs const &a, Obs const &b);
std::string obs_serialize(Obs const &o);

inline bool same_bits(double a, double b){ return dbits(a) == dbits(b) || (std::isnan(a) && std::isnan(b)); }

// domain box of a grid ([a,b] per dimension; for unbounded rules a range that holds the bulk of the nodes)
void domain_box(TasmanianSparseGrid const &g, std::vector<double> &lo, std::vector<double> &hi);

// poison pattern for raw output buffers
inline double poison(){ uint64_t u = 0x7FF8DEADBEEF0001ull; double d; std::memcpy(&d, &u, 8); return d; }
inline bool is_poison(double v){ uint64_t u; std::memcpy(&u, &v, 8); return u == 0x7FF8DEADBEEF0001ull; }

// ------------------------------------------------------------------------------------------------
// independent 1-D hierarchy of the local polynomial rules and wavelets (DESIGN.md section 3)
// ------------------------------------------------------------------------------------------------
namespace hier{
    // effective rule: localp, semilocalp (same tree as localp), localp0, localpb ; order 0 uses its own tree for localp
    int level(TypeOneDRule rule, int order, int p);
    int parent(TypeOneDRule rule, int order, int p);       // -1 when none
    int step_parent(TypeOneDRule rule, int order, int p);  // -1 when none
    int kid_left(TypeOneDRule rule, int order, int p);
    int kid_right(TypeOneDRule rule, int order, int p);    // -1 when only one kid
    int max_kids(TypeOneDRule rule, int order);
    double node(TypeOneDRule rule, int order, int p);
    // wavelets
    int wlevel(int order, int p);
    int wparent(int order, int p);
    void wkids(int order, int p, int &k1, int &k2);
    double wnode(int order, int p);
}

// number of 1-D points per level of a rule (independent re-statement from the documentation, used by C08)
int oned_num_points(TypeOneDRule rule, int level);

} // namespace vf
#endif
