/*
 * fs_shim.c - LD_PRELOAD fault injector for property C17 (constructSurrogate checkpoints survive a crash at any instant).
 *
 * Interposes the calls through which libstdc++'s std::ofstream/std::ifstream reach the kernel under glibc
 * (fopen/fopen64 -> fd, write/writev on that fd, fclose) plus open/open64/openat/creat/close/rename/unlink/remove, for paths that
 * start with the checkpoint name given in C17_PATH ("<name>" = main, "<name>_old" = backup, anything else with that prefix = other).
 * Every intercepted operation gets an index (1,2,...) and one line in the op log.  Whenever a stream that was opened for
 * writing on the MAIN file and wrote at least one byte has been closed, the main file is copied to <C17_DIR>/snap_<stage>_<n> and an "S" line is logged
 * (this is the definition of "a checkpoint write has completed").
 *
 * Fault injection (all optional):
 *   C17_KILL_OP=<i> C17_KILL_KIND=before|after|torn [C17_TORN_BYTES=<k>]
 *        before: SIGKILL instead of performing op i;  after: perform op i, then SIGKILL;
 *        torn  : op i must be a write/writev of len bytes: write the first min(k, len-1) bytes, then SIGKILL
 *                (when op i is not a write, torn behaves like before).
 *   C17_KILL_US=<t>   arm a one-shot real-time timer of t microseconds at the first intercepted operation; it delivers SIGKILL
 *                     from the SIGALRM handler (kill at a "random" time, used for the parallel mode).
 * Environment: C17_PATH (required, otherwise the shim is inert), C17_DIR (directory for oplog + snapshots), C17_STAGE (tag).
 *
 * Op log line:   O <idx> <op> <which> <len> <mode>        which: main|old|other ; mode: r|w|- ; len: bytes of a write, else 0
 * Snapshot line: S <n> <idx-of-the-close> <bytes> <file>
 * Kill line:     K <idx> <kind> <bytes-written-for-torn>
 * Lines are written with one write() each to an O_APPEND descriptor, so a kill never leaves half a line of an earlier event.
 */
#define _GNU_SOURCE
#include <dlfcn.h>
#include <errno.h>
#include <fcntl.h>
#include <signal.h>
#include <stdarg.h>
#include <stdio.h>
#include <stdlib.h>
#include <string.h>
#include <sys/stat.h>
#include <sys/syscall.h>
#include <sys/time.h>
#include <sys/types.h>
#include <sys/uio.h>
#include <unistd.h>
#include <pthread.h>

#define MAXFD 4096
enum { W_NONE = 0, W_MAIN = 1, W_OLD = 2, W_OTHER = 3 };

static int   g_init = 0, g_active = 0;
static char  g_path[1024], g_dir[1024], g_stage[64];
static size_t g_plen = 0;
static long  g_kill_op = -1, g_torn = 1, g_kill_us = -1;
static int   g_kill_kind = 0; /* 1 before 2 after 3 torn */
static long  g_op = 0, g_snap = 0;
static int   g_log = -1;
static int   g_timer_armed = 0;
static unsigned char g_which[MAXFD];  /* per fd: which file */
static unsigned char g_wr[MAXFD];     /* per fd: opened for writing */
static long g_bytes[MAXFD];           /* per fd: bytes written through it */
static pthread_mutex_t g_mu = PTHREAD_MUTEX_INITIALIZER;

static FILE *(*r_fopen)(const char*, const char*);
static FILE *(*r_fopen64)(const char*, const char*);
static int (*r_fclose)(FILE*);
static int (*r_close)(int);
static ssize_t (*r_write)(int, const void*, size_t);
static ssize_t (*r_writev)(int, const struct iovec*, int);
static int (*r_rename)(const char*, const char*);
static int (*r_unlink)(const char*);
static int (*r_remove)(const char*);

/* raw system calls for the shim's own I/O: never routed through the interposed symbols */
static int  raw_open(const char *p, int fl, int md){ return (int) syscall(SYS_openat, AT_FDCWD, p, fl, md); }
static long raw_write(int fd, const void *b, size_t n){ return syscall(SYS_write, fd, b, n); }
static long raw_read(int fd, void *b, size_t n){ return syscall(SYS_read, fd, b, n); }
static int  raw_close(int fd){ return (int) syscall(SYS_close, fd); }
static void die_now(void){ syscall(SYS_kill, (long) syscall(SYS_getpid), SIGKILL); for(;;) pause(); }

static void logline(const char *fmt, ...){
    if (g_log < 0) return;
    char b[1400]; va_list ap; va_start(ap, fmt); int n = vsnprintf(b, sizeof(b), fmt, ap); va_end(ap);
    if (n > 0) raw_write(g_log, b, (size_t)(n < (int) sizeof(b) ? n : (int) sizeof(b) - 1));
}
static void on_alarm(int s){ (void) s; const char m[] = "K 0 timer 0\n"; if (g_log >= 0) raw_write(g_log, m, sizeof(m) - 1); die_now(); }

static void init(void){
    if (g_init) return;
    g_init = 1;
    r_fopen = dlsym(RTLD_NEXT, "fopen"); r_fopen64 = dlsym(RTLD_NEXT, "fopen64"); r_fclose = dlsym(RTLD_NEXT, "fclose");
    r_close = dlsym(RTLD_NEXT, "close"); r_write = dlsym(RTLD_NEXT, "write"); r_writev = dlsym(RTLD_NEXT, "writev");
    r_rename = dlsym(RTLD_NEXT, "rename"); r_unlink = dlsym(RTLD_NEXT, "unlink"); r_remove = dlsym(RTLD_NEXT, "remove");
    const char *p = getenv("C17_PATH");
    if (!p || !*p || strlen(p) >= sizeof(g_path) - 8) return;
    strcpy(g_path, p); g_plen = strlen(p);
    const char *d = getenv("C17_DIR"); snprintf(g_dir, sizeof(g_dir), "%s", d ? d : "/tmp");
    const char *st = getenv("C17_STAGE"); snprintf(g_stage, sizeof(g_stage), "%s", st ? st : "0");
    const char *e;
    if ((e = getenv("C17_KILL_OP"))) g_kill_op = atol(e);
    if ((e = getenv("C17_KILL_KIND"))) g_kill_kind = !strcmp(e, "before") ? 1 : !strcmp(e, "after") ? 2 : !strcmp(e, "torn") ? 3 : 0;
    if ((e = getenv("C17_TORN_BYTES"))) g_torn = atol(e);
    if ((e = getenv("C17_KILL_US"))) g_kill_us = atol(e);
    char lp[1200]; snprintf(lp, sizeof(lp), "%s/oplog_%s", g_dir, g_stage);
    g_log = raw_open(lp, O_WRONLY | O_CREAT | O_APPEND | O_CLOEXEC, 0644);
    g_active = 1;
}
__attribute__((constructor)) static void ctor(void){ init(); }

static int classify(const char *p){
    if (!g_active || !p) return W_NONE;
    if (strncmp(p, g_path, g_plen) != 0) return W_NONE;
    const char *t = p + g_plen;
    if (*t == 0) return W_MAIN;
    if (!strcmp(t, "_old")) return W_OLD;
    return W_OTHER;
}
static const char *wname(int w){ return w == W_MAIN ? "main" : w == W_OLD ? "old" : "other"; }

static void arm_timer(void){
    if (g_kill_us < 0 || g_timer_armed) return;
    g_timer_armed = 1;
    struct sigaction sa; memset(&sa, 0, sizeof(sa)); sa.sa_handler = on_alarm; sigaction(SIGALRM, &sa, NULL);
    struct itimerval it; memset(&it, 0, sizeof(it));
    it.it_value.tv_sec = g_kill_us / 1000000; it.it_value.tv_usec = g_kill_us % 1000000;
    if (it.it_value.tv_sec == 0 && it.it_value.tv_usec == 0) it.it_value.tv_usec = 1;
    setitimer(ITIMER_REAL, &it, NULL);
}

/* registers the next op; returns its index; kills when configured as "before" */
static long op_begin(const char *op, int which, size_t len, char mode){
    long i = ++g_op;
    arm_timer();
    logline("O %ld %s %s %zu %c\n", i, op, wname(which), len, mode);
    if (i == g_kill_op && g_kill_kind == 1){ logline("K %ld before 0\n", i); die_now(); }
    return i;
}
static void op_end(long i){
    if (i == g_kill_op && g_kill_kind == 2){ logline("K %ld after 0\n", i); die_now(); }
}

static void snapshot(long close_idx){
    char sp[1300]; long n = ++g_snap;
    snprintf(sp, sizeof(sp), "%s/snap_%s_%ld", g_dir, g_stage, n);
    int in = raw_open(g_path, O_RDONLY | O_CLOEXEC, 0), out = raw_open(sp, O_WRONLY | O_CREAT | O_TRUNC | O_CLOEXEC, 0644);
    long total = 0;
    if (in >= 0 && out >= 0){
        char buf[65536]; long r;
        while((r = raw_read(in, buf, sizeof(buf))) > 0){ long o = 0; while(o < r){ long w = raw_write(out, buf + o, (size_t)(r - o)); if (w <= 0) break; o += w; } total += r; }
    }
    if (in >= 0) raw_close(in);
    if (out >= 0) raw_close(out);
    logline("S %ld %ld %ld %s\n", n, close_idx, total, sp);
}

static void track(int fd, int which, int wr){ if (fd >= 0 && fd < MAXFD){ g_which[fd] = (unsigned char) which; g_wr[fd] = (unsigned char) wr; g_bytes[fd] = 0; } }

static FILE *do_fopen(FILE *(*real)(const char*, const char*), const char *path, const char *mode){
    int w = classify(path);
    if (w == W_NONE) return real(path, mode);
    pthread_mutex_lock(&g_mu);
    int wr = (strchr(mode, 'w') || strchr(mode, 'a') || strchr(mode, '+')) ? 1 : 0;
    long i = op_begin(wr ? "open-w" : "open-r", w, 0, wr ? 'w' : 'r');
    FILE *f = real(path, mode);
    if (f) track(fileno(f), w, wr);
    op_end(i);
    pthread_mutex_unlock(&g_mu);
    return f;
}
FILE *fopen(const char *path, const char *mode){ init(); return do_fopen(r_fopen, path, mode); }
FILE *fopen64(const char *path, const char *mode){ init(); return do_fopen(r_fopen64 ? r_fopen64 : r_fopen, path, mode); }

static int do_open(const char *path, int flags, mode_t md, int dirfd){
    int w = classify(path);
    if (w == W_NONE) return (int) syscall(SYS_openat, dirfd, path, flags, md);
    pthread_mutex_lock(&g_mu);
    int wr = ((flags & O_ACCMODE) != O_RDONLY) ? 1 : 0;
    long i = op_begin(wr ? "open-w" : "open-r", w, 0, wr ? 'w' : 'r');
    int fd = (int) syscall(SYS_openat, dirfd, path, flags, md);
    if (fd >= 0) track(fd, w, wr);
    op_end(i);
    pthread_mutex_unlock(&g_mu);
    return fd;
}
#define OPEN_BODY(dirfd) mode_t md = 0; if (flags & (O_CREAT | O_TMPFILE)){ va_list ap; va_start(ap, flags); md = (mode_t) va_arg(ap, int); va_end(ap); } init(); \
    return do_open(path, flags, md, dirfd);
int open(const char *path, int flags, ...){ OPEN_BODY(AT_FDCWD) }
int open64(const char *path, int flags, ...){ OPEN_BODY(AT_FDCWD) }
int openat(int dfd, const char *path, int flags, ...){ OPEN_BODY(dfd) }
int openat64(int dfd, const char *path, int flags, ...){ OPEN_BODY(dfd) }
int creat(const char *path, mode_t md){ init(); return do_open(path, O_CREAT | O_WRONLY | O_TRUNC, md, AT_FDCWD); }

static int closing(int fd, long *idx, int *which, int *wr, long *bytes){
    if (!g_active || fd < 0 || fd >= MAXFD || g_which[fd] == W_NONE) return 0;
    *which = g_which[fd]; *wr = g_wr[fd]; *bytes = g_bytes[fd];
    *idx = op_begin("close", *which, 0, *wr ? 'w' : 'r');
    g_which[fd] = W_NONE; g_wr[fd] = 0;
    return 1;
}
int fclose(FILE *f){
    init();
    int fd = f ? fileno(f) : -1; long i = 0, nb = 0; int which = 0, wr = 0;
    if (!g_active || fd < 0 || fd >= MAXFD || g_which[fd] == W_NONE) return r_fclose(f);
    pthread_mutex_lock(&g_mu);
    closing(fd, &i, &which, &wr, &nb);
    int r = r_fclose(f);
    if (which == W_MAIN && wr && nb > 0) snapshot(i); /* a stream that wrote nothing did not write a checkpoint */
    op_end(i);
    pthread_mutex_unlock(&g_mu);
    return r;
}
int close(int fd){
    init();
    long i = 0, nb = 0; int which = 0, wr = 0;
    if (!g_active || fd < 0 || fd >= MAXFD || g_which[fd] == W_NONE) return r_close ? r_close(fd) : raw_close(fd);
    pthread_mutex_lock(&g_mu);
    closing(fd, &i, &which, &wr, &nb);
    int r = raw_close(fd);
    if (which == W_MAIN && wr && nb > 0) snapshot(i); /* a stream that wrote nothing did not write a checkpoint */
    op_end(i);
    pthread_mutex_unlock(&g_mu);
    return r;
}

ssize_t write(int fd, const void *buf, size_t len){
    init();
    if (!g_active || fd < 0 || fd >= MAXFD || g_which[fd] == W_NONE) return r_write ? r_write(fd, buf, len) : (ssize_t) raw_write(fd, buf, len);
    pthread_mutex_lock(&g_mu);
    long i = op_begin("write", g_which[fd], len, 'w');
    if (i == g_kill_op && g_kill_kind == 3){
        size_t k = (g_torn < 0) ? 0 : (size_t) g_torn;
        if (len == 0) k = 0; else if (k > len - 1) k = len - 1;
        size_t o = 0; while(o < k){ long w = raw_write(fd, (const char*) buf + o, k - o); if (w <= 0) break; o += (size_t) w; }
        logline("K %ld torn %zu\n", i, o);
        die_now();
    }
    ssize_t r = r_write(fd, buf, len);
    if (r > 0) g_bytes[fd] += r;
    op_end(i);
    pthread_mutex_unlock(&g_mu);
    return r;
}
ssize_t writev(int fd, const struct iovec *iov, int cnt){
    init();
    if (!g_active || fd < 0 || fd >= MAXFD || g_which[fd] == W_NONE) return r_writev(fd, iov, cnt);
    pthread_mutex_lock(&g_mu);
    size_t len = 0; for(int j=0; j<cnt; j++) len += iov[j].iov_len;
    long i = op_begin("writev", g_which[fd], len, 'w');
    if (i == g_kill_op && g_kill_kind == 3){
        size_t k = (g_torn < 0) ? 0 : (size_t) g_torn;
        if (len == 0) k = 0; else if (k > len - 1) k = len - 1;
        size_t done = 0;
        for(int j=0; j<cnt && done < k; j++){
            size_t part = iov[j].iov_len; if (part > k - done) part = k - done;
            size_t o = 0; while(o < part){ long w = raw_write(fd, (const char*) iov[j].iov_base + o, part - o); if (w <= 0) break; o += (size_t) w; }
            done += o; if (o < part) break;
        }
        logline("K %ld torn %zu\n", i, done);
        die_now();
    }
    ssize_t r = r_writev(fd, iov, cnt);
    if (r > 0) g_bytes[fd] += r;
    op_end(i);
    pthread_mutex_unlock(&g_mu);
    return r;
}

int rename(const char *a, const char *b){
    init();
    int wa = classify(a), wb = classify(b);
    if (wa == W_NONE && wb == W_NONE) return r_rename(a, b);
    pthread_mutex_lock(&g_mu);
    char nm[64]; snprintf(nm, sizeof(nm), "rename-%s-to", wa == W_NONE ? "outside" : wname(wa));
    long i = op_begin(nm, wb == W_NONE ? W_OTHER : wb, 0, 'w');
    int r = r_rename(a, b);
    if (r == 0 && wb == W_MAIN) snapshot(i); /* a rename onto the main file completes a checkpoint as well */
    op_end(i);
    pthread_mutex_unlock(&g_mu);
    return r;
}
static int do_unlink(int (*real)(const char*), const char *nm, const char *p){
    int w = classify(p);
    if (w == W_NONE) return real(p);
    pthread_mutex_lock(&g_mu);
    long i = op_begin(nm, w, 0, 'w');
    int r = real(p);
    op_end(i);
    pthread_mutex_unlock(&g_mu);
    return r;
}
int unlink(const char *p){ init(); return do_unlink(r_unlink, "unlink", p); }
int remove(const char *p){ init(); return do_unlink(r_remove, "unlink", p); }
