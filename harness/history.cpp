#include "monitors.hpp"

namespace vf{

std::string Step::name() const{
    static const char *n[] = {"load","reload","aniso","surplus_seq","surplus_loc","update","clear_ref","merge_ref","set_coeffs",
                              "begin_c","cand_load","finish_c","clear_limits","none"};
    std::string s = n[(int) kind];
    if (kind == surplus_loc) s += ":" + refname(crit);
    return s;
}
std::string Step::json() const{
    J j; j.str("op", name());
    if (kind == aniso || kind == update || kind == cand_load) j.str("type", tname(type));
    if (kind == aniso) j.i("min_growth", min_growth);
    if (kind == aniso || kind == surplus_seq || kind == surplus_loc || kind == cand_load) j.i("output", output);
    if (kind == surplus_seq || kind == surplus_loc || kind == cand_load) j.num("tol", tol);
    if (kind == update) j.i("depth", depth);
    if (!limits.empty()) j.vec("limits", limits);
    if (raw_overload) j.b("raw", true);
    if (scale_mode) j.i("scale_mode", scale_mode);
    if (!aw.empty()) j.vec("aw", aw);
    if (kind == cand_load) j.num("frac", frac);
    if (kind == cand_load && scatter) j.i("scatter", 1);
    if (kind == load || kind == reload || kind == cand_load) j.i("gen", gen);
    return j.obj();
}

std::vector<double> model_values(std::vector<double> const &pts, int dims, int outs, int gen, int vmode){
    size_t n = (dims > 0) ? pts.size() / (size_t) dims : 0;
    std::vector<double> v(n * (size_t) outs);
    for(size_t i=0; i<n; i++) for(int k=0; k<outs; k++){
        const double *x = &pts[i * (size_t) dims];
        double t = H(x, dims, k, gen);
        v[i * (size_t) outs + (size_t) k] = (vmode == 0) ? t : Smooth(x, dims, k) * (1.0 + 0.125 * gen) + 1e-3 * t;
    }
    return v;
}

bool init_history(HState &h, Rng &rng, GenOpts const &go, CaseCtx &c){
    h.cfg = gen_cfg(rng, go);
    std::string err;
    if (!make_grid(h.g, h.cfg, go.max_points, &err)){ c.inconc("make-failed"); return false; }
    h.expected_limits = h.cfg.limits;
    h.shadow.dims = h.cfg.dims; h.shadow.outs = h.cfg.outs;
    h.vmode = rng.coin(0.5) ? 0 : 1;
    return true;
}

static std::vector<int> gen_limits(Rng &rng, int dims, int hi){
    std::vector<int> l((size_t) dims);
    for(auto &v : l){ v = rng.range(-1, std::max(1, hi)); if (rng.coin(0.1)) v = 0; }
    return l;
}

// normalised coefficient magnitudes of the loaded points (max over outputs), used to choose informative tolerances
static std::vector<double> coeff_ratios(TasmanianSparseGrid const &g){
    int m = g.getNumOutputs(), n = g.getNumLoaded();
    std::vector<double> r;
    if (m == 0 || n == 0) return r;
    const double *c = g.getHierarchicalCoefficients();
    const double *v = g.getLoadedValues();
    std::vector<double> norm((size_t) m, 0.0);
    for(int i=0; i<n; i++) for(int k=0; k<m; k++) norm[(size_t) k] = std::max(norm[(size_t) k], std::fabs(v[(size_t) i * (size_t) m + (size_t) k]));
    size_t stride = g.isFourier() ? 1 : 1;
    (void) stride;
    for(int i=0; i<n; i++){
        double mx = 0.0;
        for(int k=0; k<m; k++){
            double nk = norm[(size_t) k];
            if (nk > 0.0) mx = std::max(mx, std::fabs(c[(size_t) i * (size_t) m + (size_t) k]) / nk);
        }
        r.push_back(mx);
    }
    std::sort(r.begin(), r.end());
    return r;
}
static double choose_tol(TasmanianSparseGrid const &g, Rng &rng){
    double u = rng.uni();
    if (u < 0.12) return 0.0;
    if (u < 0.2) return 1e6;
    std::vector<double> r = coeff_ratios(g);
    std::vector<double> d;
    for(double x : r) if (x > 1e-14 && (d.empty() || x > d.back() * (1.0 + 1e-6))) d.push_back(x);
    if (d.size() < 2) return rng.coin() ? 1e-3 : 1e-1;
    // geometric mid-point between two adjacent distinct magnitudes in the upper part of the spectrum (so that few points are flagged)
    size_t lo = std::min(d.size() / 2, d.size() - 2);
    size_t i = (size_t) rng.range((int) lo, (int) d.size() - 2);
    return std::sqrt(d[i] * d[i + 1]);
}

Step choose_step(HState const &h, Rng &rng, HOpts const &o){
    TasmanianSparseGrid const &g = h.g;
    Step s; s.subseed = rng.next(); s.gen = h.gen + 1; s.vmode = h.vmode;
    int loaded = g.getNumLoaded(), needed = g.getNumNeeded(), outs = g.getNumOutputs(), dims = g.getNumDimensions();
    int fam = h.cfg.family;
    bool nested_global = (fam == fam_global) && !OneDimensionalMeta::isNonNested(g.getRule());
    bool seq_rule = (fam == fam_sequence) || (fam == fam_global && OneDimensionalMeta::isSequence(g.getRule()));
    std::vector<std::pair<Step::Kind, double>> w;
    if (g.isUsingConstruction()){
        w.push_back({Step::cand_load, 6.0});
        w.push_back({Step::finish_c, 1.5});
    }else{
        if (needed > 0 && outs > 0) w.push_back({Step::load, 8.0});
        if (needed > 0 && loaded > 0){ w.push_back({Step::clear_ref, 0.7}); if (o.merge && outs > 0) w.push_back({Step::merge_ref, 0.5}); }
        if (needed == 0 && loaded > 0 && outs > 0) w.push_back({Step::reload, 1.0});
        if (loaded > 0 && outs > 0 && o.refine && loaded + needed < o.max_points){
            if (fam == fam_sequence || nested_global || fam == fam_fourier) w.push_back({Step::aniso, 3.0});
            if (seq_rule) w.push_back({Step::surplus_seq, 3.0});
            if (fam == fam_localp || fam == fam_wavelet) w.push_back({Step::surplus_loc, 6.0});
        }
        if (loaded > 0 && outs > 0 && o.set_coeffs) w.push_back({Step::set_coeffs, 0.5});
        if ((fam == fam_global || fam == fam_sequence || fam == fam_fourier) && loaded + needed < o.max_points)
            w.push_back({Step::update, 1.5});
        if (o.construction && outs > 0 && (fam != fam_global || nested_global) && loaded + needed < o.max_points
            && !g.isSetConformalTransformASIN()) // the Newton inverse of the conformal map is less accurate than the 1e-12 node matching of loadConstructedPoints (DESIGN.md section 7)
            w.push_back({Step::begin_c, 1.2 * o.construction_bias});
        if (!g.getLevelLimits().empty()) w.push_back({Step::clear_limits, 0.2});
    }
    if (w.empty()){ s.kind = Step::none; return s; }
    double tot = 0; for(auto &p : w) tot += p.second;
    double u = rng.uni() * tot;
    s.kind = w.back().first;
    for(auto &p : w){ if (u < p.second){ s.kind = p.first; break; } u -= p.second; }

    bool pass_limits = o.limits_in_calls && rng.coin(0.25);
    int cur_depth = std::max(1, h.cfg.depth);
    switch(s.kind){
        case Step::aniso:
            s.type = rng.pick(depth_types());
            if (s.type == type_tensor || s.type == type_iptensor || s.type == type_qptensor) s.type = type_iptotal; // tensor selections are not anisotropic fits
            // curved fits of noise give huge negative curved weights and with them huge (legitimate, but very slow) selections
            if (is_curved(s.type) && h.vmode == 0) s.type = (s.type == type_curved) ? type_level : (s.type == type_ipcurved) ? type_iptotal : type_qptotal;
            if (is_curved(s.type)) pass_limits = true;
            // with level limits in force the only admissible tensors can carry astronomically large hyperbolic weights (1+e)^w: the documented
            // loop then needs ~1e50 iterations.  That is outside every property (admissible points do remain), so histories do not go there.
            if ((pass_limits || !g.getLevelLimits().empty()) && (s.type == type_hyperbolic || s.type == type_iphyperbolic || s.type == type_qphyperbolic))
                s.type = (s.type == type_hyperbolic) ? type_level : (s.type == type_iphyperbolic) ? type_iptotal : type_qptotal;
            s.min_growth = rng.range(1, 12);
            s.output = rng.coin(0.4) ? -1 : rng.range(0, outs - 1);
            if (fam == fam_global) s.output = rng.range(0, outs - 1); // Global grids require a specific output
            if (pass_limits) s.limits = gen_limits(rng, dims, cur_depth + 1);
            if (is_curved(s.type)) for(auto &l : s.limits) if (l < 0) l = cur_depth + 1;
            s.raw_overload = rng.coin(0.3);
            break;
        case Step::surplus_seq:
            s.tol = choose_tol(g, rng);
            if (s.tol == 0.0) s.tol = 1e-12; // tolerance zero refines an unbounded number of indexes for global bases; keep it tiny but positive
            s.output = rng.coin(0.4) ? -1 : rng.range(0, outs - 1);
            if (fam == fam_global) s.output = rng.range(0, outs - 1);
            if (pass_limits) s.limits = gen_limits(rng, dims, cur_depth + 1);
            s.raw_overload = rng.coin(0.3);
            break;
        case Step::surplus_loc:{
            static const TypeRefinement crits[] = {refine_classic, refine_parents_first, refine_direction_selective, refine_fds, refine_stable};
            s.crit = crits[rng.range(0, 4)];
            s.tol = choose_tol(g, rng);
            s.output = rng.coin(0.5) ? -1 : rng.range(0, outs - 1);
            if (pass_limits) s.limits = gen_limits(rng, dims, cur_depth + 1);
            s.raw_overload = rng.coin(0.4);
            if (fam == fam_localp && rng.coin(0.3)) s.scale_mode = s.raw_overload ? 2 : 1;
            break; }
        case Step::update:
            s.type = rng.pick(depth_types());
            s.depth = rng.range(std::max(0, cur_depth - 1), cur_depth + 2);
            if (rng.coin(0.4)){
                s.aw.resize((size_t) dims * (is_curved(s.type) ? 2 : 1));
                for(size_t i=0; i<s.aw.size(); i++) s.aw[i] = (i < (size_t) dims) ? rng.range(1, 3) : rng.range(0, 2);
            }
            if (s.type == type_tensor || s.type == type_iptensor || s.type == type_qptensor){
                s.aw.clear(); s.depth = std::min(s.depth, cur_depth + 1); // tensor depth multiplies the weights
                if (!h.cfg.custom){ // keep the full tensor (n_1d(level))^d within a few times the point cap
                    auto full = [&](int lev)->double{ return std::pow((double) oned_num_points(g.getRule(), lev), (double) dims); };
                    while (s.depth > 0 && full(s.depth) > 4.0 * o.max_points) s.depth--;
                }
            }
            if (is_optimized_sequence(g.getRule())) s.depth = std::min(s.depth, 10);
            if (h.cfg.custom) s.depth = std::min(s.depth, (s.type == type_level || s.type == type_curved || s.type == type_hyperbolic || s.type == type_tensor) ? 6 : 10); // the table has 8 levels
            if (fam == fam_fourier) s.depth = std::min(s.depth, (s.type == type_tensor || s.type == type_level) ? 4 : 12);
            if (pass_limits) s.limits = gen_limits(rng, dims, cur_depth + 1);
            s.raw_overload = rng.coin(0.3);
            if (!h.cfg.custom && (s.type == type_level || s.type == type_curved || s.type == type_hyperbolic)){
                // cur_depth is in the units of the type the grid was made with (a polynomial degree for the ip/qp types); taken as a *level* it can ask
                // for one-dimensional levels with 2^15 and more nodes (seed 10 of C13: level 25 on fejer2 after qptotal 23 - O(n^2) weight formulas,
                // billions of points).  The largest 1-d level the step can reach stays within a few times the point cap; no random draw is involved.
                auto reach = [&](int depth)->int{
                    int top = 0;
                    for(int i=0; i<dims; i++){
                        int w = (s.aw.empty() || s.type == type_hyperbolic) ? 1 : std::max(1, s.aw[(size_t) i]);
                        int l = depth / w;
                        if (!s.limits.empty() && s.limits[(size_t) i] >= 0) l = std::min(l, s.limits[(size_t) i]);
                        top = std::max(top, l);
                    }
                    return top; };
                while (s.depth > 0 && (double) oned_num_points(g.getRule(), reach(s.depth)) > 4.0 * o.max_points) s.depth--;
            }
            if (fam == fam_fourier && s.depth > 4){
                // Fourier rules have 3^l points per level and curved / anisotropic selections are hard to bound a priori (one update reached 43011
                // points): the update is tried on a copy and the depth is lowered until the result stays within a few times the point cap
                while (s.depth > 4){
                    TasmanianSparseGrid trial = g;
                    try{ trial.updateGrid(s.depth, s.type, s.aw, s.limits); }catch(std::exception &){ break; } // the real step reports it
                    if (trial.getNumPoints() <= 6 * o.max_points) break;
                    s.depth--;
                }
            }
            break;
        case Step::cand_load:
            s.type = rng.pick(depth_types());
            s.output = rng.coin(0.5) ? -1 : rng.range(0, outs - 1);
            if (fam == fam_global) s.output = rng.range(0, outs - 1);
            s.tol = choose_tol(g, rng);
            { static const TypeRefinement crits[] = {refine_classic, refine_parents_first, refine_direction_selective, refine_fds, refine_stable};
              s.crit = crits[rng.range(0, 4)]; }
            s.scale_mode = rng.range(0, 2); // 0: (type, aw) overload ; otherwise (type, output) overload  -- for global/sequence/fourier
            if (rng.coin(0.4)){
                s.aw.resize((size_t) dims * (is_curved(s.type) ? 2 : 1));
                for(size_t i=0; i<s.aw.size(); i++) s.aw[i] = (i < (size_t) dims) ? rng.range(1, 3) : rng.range(0, 2);
            }
            if (pass_limits) s.limits = gen_limits(rng, dims, cur_depth + 1);
            s.frac = rng.coin(0.3) ? 1.0 : rng.uni(0.2, 0.9);
            if (o.scatter_candidates > 0.0 && rng.coin(o.scatter_candidates)){ s.scatter = true; s.frac = rng.uni(0.02, 0.6); }
            break;
        default: break;
    }
    // Gauss-Patterson is tabulated up to level 8: a step that could ask for level 9 fails with the documented runtime_error (C14's subject),
    // so every generating step on such a grid carries limits of at most 8
    if (fam == fam_global && !h.cfg.custom && g.getRule() == rule_gausspatterson
        && (s.kind == Step::aniso || s.kind == Step::surplus_seq || s.kind == Step::update || s.kind == Step::cand_load)){
        if (s.limits.empty()) s.limits.assign((size_t) dims, 8);
        for(auto &l : s.limits) if (l < 0 || l > 8) l = 8;
        if (s.kind == Step::update) s.depth = std::min(s.depth, 8);
    }
    return s;
}

static const int* ptr_or_null(std::vector<int> const &v){ return v.empty() ? nullptr : v.data(); }

// scale correction used by histories: a deterministic positive function of the point index
static std::vector<double> make_scale(TasmanianSparseGrid const &g, int output, uint64_t seed){
    size_t n = (size_t) g.getNumLoaded() * (size_t)((output == -1) ? g.getNumOutputs() : 1);
    std::vector<double> s(n);
    Rng r(seed);
    for(auto &v : s) v = std::exp(r.uni(-2.0, 2.0));
    return s;
}
std::vector<double> history_scale(TasmanianSparseGrid const &g, int output, uint64_t seed){ return make_scale(g, output, seed); }

std::string apply_step(TasmanianSparseGrid &g, Step const &s, HState *h){
    int dims = g.getNumDimensions(), outs = g.getNumOutputs();
    static const bool trace = (getenv("VF_TRACE") != nullptr);
    if (trace){ fprintf(stderr, "STEP %s loaded=%d needed=%d\n", s.json().c_str(), g.getNumLoaded(), g.getNumNeeded()); fflush(stderr); }
    try{
        switch(s.kind){
            case Step::load:{
                std::vector<double> pts = g.getNeededPoints();
                std::vector<double> vals = model_values(pts, dims, outs, s.gen, s.vmode);
                if (s.raw_overload) g.loadNeededValues(vals.data()); else g.loadNeededValues(vals);
                if (h){
                    size_t n = pts.size() / (size_t) dims;
                    for(size_t i=0; i<n; i++)
                        h->shadow.m[pkey(&pts[i * (size_t) dims], dims)] = std::vector<double>(vals.begin() + (long)(i * (size_t) outs), vals.begin() + (long)((i + 1) * (size_t) outs));
                    h->gen = s.gen;
                }
                break; }
            case Step::reload:{
                std::vector<double> pts = g.getLoadedPoints();
                std::vector<double> vals = model_values(pts, dims, outs, s.gen, s.vmode);
                g.loadNeededValues(vals);
                if (h){
                    size_t n = pts.size() / (size_t) dims;
                    for(size_t i=0; i<n; i++)
                        h->shadow.m[pkey(&pts[i * (size_t) dims], dims)] = std::vector<double>(vals.begin() + (long)(i * (size_t) outs), vals.begin() + (long)((i + 1) * (size_t) outs));
                    h->gen = s.gen; h->values_are_model = true;
                }
                break; }
            case Step::aniso:
                if (s.raw_overload) g.setAnisotropicRefinement(s.type, s.min_growth, s.output, ptr_or_null(s.limits));
                else g.setAnisotropicRefinement(s.type, s.min_growth, s.output, s.limits);
                if (h && !s.limits.empty()) h->expected_limits = s.limits;
                break;
            case Step::surplus_seq:
                if (s.raw_overload) g.setSurplusRefinement(s.tol, s.output, ptr_or_null(s.limits));
                else g.setSurplusRefinement(s.tol, s.output, s.limits);
                if (h && !s.limits.empty()) h->expected_limits = s.limits;
                break;
            case Step::surplus_loc:{
                std::vector<double> scale;
                if (s.scale_mode) scale = make_scale(g, s.output, s.subseed);
                if (s.raw_overload) g.setSurplusRefinement(s.tol, s.crit, s.output, ptr_or_null(s.limits), scale.empty() ? nullptr : scale.data());
                else g.setSurplusRefinement(s.tol, s.crit, s.output, s.limits, scale);
                if (h && !s.limits.empty()) h->expected_limits = s.limits;
                break; }
            case Step::update:
                if (s.raw_overload) g.updateGrid(s.depth, s.type, ptr_or_null(s.aw), ptr_or_null(s.limits));
                else g.updateGrid(s.depth, s.type, s.aw, s.limits);
                if (h && !s.limits.empty()) h->expected_limits = s.limits;
                break;
            case Step::clear_ref: g.clearRefinement(); break;
            case Step::merge_ref:{
                std::vector<double> pts;
                if (h){ pts = g.getLoadedPoints(); auto nd = g.getNeededPoints(); pts.insert(pts.end(), nd.begin(), nd.end()); }
                g.mergeRefinement();
                if (h){
                    h->shadow.m.clear();
                    size_t n = pts.size() / (size_t) dims;
                    for(size_t i=0; i<n; i++) h->shadow.m[pkey(&pts[i * (size_t) dims], dims)] = std::vector<double>((size_t) outs, 0.0);
                    h->values_are_model = false;
                }
                break; }
            case Step::set_coeffs:{
                size_t n = (size_t) g.getNumPoints() * (size_t) outs * (g.isFourier() ? 2 : 1);
                std::vector<double> c(n);
                Rng r(s.subseed);
                for(auto &v : c) v = r.uni(-1.0, 1.0);
                if (g.isFourier()){
                    // real-valued surrogate: keep the library's own coefficients scaled (arbitrary complex coefficients would make the "values" complex)
                    const double *old = g.getHierarchicalCoefficients();
                    for(size_t i=0; i<n; i++) c[i] = 0.5 * old[i];
                }
                g.setHierarchicalCoefficients(c);
                if (h){
                    h->shadow.m.clear();
                    std::vector<double> pts = g.getLoadedPoints();
                    const double *v = g.getLoadedValues();
                    size_t np = pts.size() / (size_t) dims;
                    for(size_t i=0; i<np; i++)
                        h->shadow.m[pkey(&pts[i * (size_t) dims], dims)] = std::vector<double>(v + i * (size_t) outs, v + (i + 1) * (size_t) outs);
                    h->values_are_model = false;
                }
                break; }
            case Step::begin_c:
                g.beginConstruction();
                if (h) h->delivered.clear();
                break;
            case Step::cand_load:{
                std::vector<double> cand;
                if (g.isLocalPolynomial() || g.isWavelet()){
                    cand = g.getCandidateConstructionPoints(s.tol, s.crit, s.output, s.limits);
                }else if (s.scale_mode == 0 || g.getNumLoaded() == 0){
                    std::vector<int> aw = s.aw;
                    if (aw.empty()) aw.assign((size_t) dims * (is_curved(s.type) ? 2 : 1), 1);
                    if (is_curved(s.type)) for(size_t i=(size_t) dims; i<aw.size(); i++) aw[i] = std::min(aw[i], 1);
                    cand = g.getCandidateConstructionPoints(s.type, aw, s.limits);
                }else{
                    cand = g.getCandidateConstructionPoints(s.type, s.output, s.limits);
                }
                if (h && !s.limits.empty()) h->expected_limits = s.limits;
                if (h && h->on_candidates) h->on_candidates(cand);
                size_t nc = cand.size() / (size_t) dims;
                if (nc == 0) break;
                // deliver a prefix-biased random subset in random order
                std::vector<size_t> ord(nc);
                for(size_t i=0; i<nc; i++) ord[i] = i;
                Rng r(s.subseed);
                size_t take = std::max<size_t>(1, (size_t)(s.frac * (double) nc));
                take = std::min<size_t>(take, 60);
                // candidates are sorted by priority: take mostly from the front but shuffle the delivery order
                std::vector<size_t> chosen;
                if (s.scatter){ // uniformly random subset: irregular (but admissible) point sets
                    for(size_t i=nc; i>1; i--) std::swap(ord[i-1], ord[(size_t) r.range(0, (int) i - 1)]);
                    take = std::min<size_t>(take, 40);
                    chosen.assign(ord.begin(), ord.begin() + (long) std::min(take, nc));
                }else
                for(size_t i=0; i<nc && chosen.size() < take; i++) if (s.frac >= 1.0 || r.coin(0.8)) chosen.push_back(i);
                for(size_t i=chosen.size(); i>1; i--) std::swap(chosen[i-1], chosen[(size_t) r.range(0, (int) i - 1)]);
                std::vector<double> x, y;
                for(size_t i : chosen) x.insert(x.end(), cand.begin() + (long)(i * (size_t) dims), cand.begin() + (long)((i + 1) * (size_t) dims));
                y = model_values(x, dims, outs, s.gen, s.vmode);
                if (h){
                    for(size_t i=0; i<chosen.size(); i++){
                        PKey k = pkey(&x[i * (size_t) dims], dims);
                        auto it = h->delivered.find(k);
                        if (it != h->delivered.end()){ // a parked sample is offered again: deliver the same data again (idempotent re-delivery)
                            std::copy(it->second.begin(), it->second.end(), y.begin() + (long)(i * (size_t) outs));
                        }else{
                            h->delivered[k] = std::vector<double>(y.begin() + (long)(i * (size_t) outs), y.begin() + (long)((i + 1) * (size_t) outs));
                        }
                    }
                    h->gen = s.gen;
                }
                // split into batches
                size_t pos = 0;
                while(pos < chosen.size()){
                    size_t b = (size_t) r.range(1, 4); if (r.coin(0.3)) b = chosen.size();
                    b = std::min(b, chosen.size() - pos);
                    if (trace){ fprintf(stderr, "  deliver pos=%zu b=%zu of %zu (cands %zu) loaded=%d\n", pos, b, chosen.size(), nc, g.getNumLoaded()); }
                    if (b == 1 && r.coin()){
                        g.loadConstructedPoints(&x[pos * (size_t) dims], 1, &y[pos * (size_t) outs]);
                    }else{
                        std::vector<double> xb(x.begin() + (long)(pos * (size_t) dims), x.begin() + (long)((pos + b) * (size_t) dims));
                        std::vector<double> yb(y.begin() + (long)(pos * (size_t) outs), y.begin() + (long)((pos + b) * (size_t) outs));
                        g.loadConstructedPoints(xb, yb);
                    }
                    pos += b;
                }
                break; }
            case Step::finish_c:
                g.finishConstruction();
                if (h){
                    // what was delivered and accepted becomes the user's data; parked samples are documented to be discarded
                    std::vector<double> pts = g.getLoadedPoints();
                    size_t np = pts.size() / (size_t) dims;
                    for(size_t i=0; i<np; i++){
                        PKey k = pkey(&pts[i * (size_t) dims], dims);
                        auto it = h->delivered.find(k);
                        if (it != h->delivered.end()) h->shadow.m[k] = it->second;
                    }
                    h->delivered.clear();
                }
                break;
            case Step::clear_limits:
                g.clearLevelLimits();
                if (h) h->expected_limits.clear();
                break;
            default: break;
        }
    }catch(std::exception &e){
        return exception_class(e) + std::string(":") + e.what();
    }
    if (h) h->trace.push_back(s.name());
    return "";
}

bool check_shadow(HState const &h, CaseCtx &c, std::string const &prefix, std::string const &after){
    TasmanianSparseGrid const &g = h.g;
    int dims = g.getNumDimensions(), outs = g.getNumOutputs();
    std::vector<double> lp = g.getLoadedPoints(), np = g.getNeededPoints();
    size_t nl = lp.size() / (size_t) dims, nn = np.size() / (size_t) dims;
    bool ok = true;
    if ((int) nl != g.getNumLoaded() || (int) nn != g.getNumNeeded()){
        c.viol(prefix + ":count-mismatch", J().str("after", after).obj()); ok = false;
    }
    std::set<PKey> sl, sn;
    for(size_t i=0; i<nl; i++) if (!sl.insert(pkey(&lp[i * (size_t) dims], dims)).second){
        c.viol(prefix + ":duplicate-loaded", J().str("after", after).i("i", (long long) i).obj()); ok = false; break; }
    for(size_t i=0; i<nn; i++){
        PKey k = pkey(&np[i * (size_t) dims], dims);
        if (!sn.insert(k).second){ c.viol(prefix + ":duplicate-needed", J().str("after", after).i("i", (long long) i).obj()); ok = false; break; }
        if (sl.count(k)){ c.viol(prefix + ":needed-intersects-loaded", J().str("after", after).i("i", (long long) i).obj()); ok = false; break; }
    }
    if (outs > 0 && nl > 0){
        const double *v = g.getLoadedValues();
        for(size_t i=0; i<nl; i++){
            PKey k = pkey(&lp[i * (size_t) dims], dims);
            auto it = h.shadow.m.find(k);
            std::vector<double> const *exp = nullptr;
            if (it != h.shadow.m.end()) exp = &it->second;
            auto it2 = h.delivered.find(k);
            if (g.isUsingConstruction() && it2 != h.delivered.end()) exp = &it2->second; // a re-delivered sample overrides
            if (!exp){
                c.viol(prefix + ":loaded-point-never-supplied", J().str("after", after).vec("x", std::vector<double>(lp.begin() + (long)(i * (size_t) dims), lp.begin() + (long)((i + 1) * (size_t) dims))).obj());
                ok = false; break;
            }
            for(int k2=0; k2<outs; k2++){
                if (!same_bits(v[i * (size_t) outs + (size_t) k2], (*exp)[(size_t) k2])){
                    c.viol(prefix + ":value-misassociated", J().str("after", after).i("point", (long long) i).i("output", k2)
                           .num("stored", v[i * (size_t) outs + (size_t) k2]).num("supplied", (*exp)[(size_t) k2]).obj());
                    ok = false; break;
                }
            }
            if (!ok) break;
        }
    }
    // a loaded point must never disappear (outside construction restarts): every shadow key must still be loaded
    if (!g.isUsingConstruction() || true){
        for(auto const &kv : h.shadow.m){
            if (!sl.count(kv.first)){
                c.viol(prefix + ":loaded-point-lost", J().str("after", after).obj()); ok = false; break;
            }
        }
    }
    return ok;
}

int all_parents_loaded(TasmanianSparseGrid const &g){
    if (!g.isLocalPolynomial()) return -1;
    int order = g.getOrder();
    if (order == 0) return -1;
    TypeOneDRule rule = g.getRule();
    int d = g.getNumDimensions(), n = g.getNumLoaded();
    if (n == 0) return 1;
    const int *idx = g.getPointsIndexes();
    std::set<std::vector<int>> have;
    for(int i=0; i<n; i++) have.insert(std::vector<int>(idx + (size_t) i * (size_t) d, idx + (size_t)(i + 1) * (size_t) d));
    for(int i=0; i<n; i++){
        std::vector<int> p(idx + (size_t) i * (size_t) d, idx + (size_t)(i + 1) * (size_t) d);
        for(int j=0; j<d; j++){
            int save = p[(size_t) j];
            int pa = hier::parent(rule, order, save), sp = hier::step_parent(rule, order, save);
            if (pa >= 0){ p[(size_t) j] = pa; if (!have.count(p)) return 0; }
            if (sp >= 0){ p[(size_t) j] = sp; if (!have.count(p)) return 0; }
            p[(size_t) j] = save;
        }
    }
    return 1;
}

} // namespace vf
