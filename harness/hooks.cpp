// The single definition of the weak hook target of /repo's TSG_VERIF_HOOK macro; monitors install a handler.
#include "monitors.hpp"
namespace vf{ std::atomic<HookFn> g_hook_handler{nullptr}; }
extern "C" void tsg_verif_hook(const char *tag, long a, long b){
    vf::HookFn h = vf::g_hook_handler.load(std::memory_order_relaxed);
    if (h) h(tag, a, b);
}
