#include "monitors.hpp"
namespace vf{

bool random_state(HState &h, Rng &rng, CaseCtx &c, GenOpts const &go, int max_steps){
    if (!init_history(h, rng, go, c)) return false;
    HOpts ho; ho.max_points = go.max_points; ho.construction_bias = 3.0; // states inside a construction carry the most optional data
    int nsteps = rng.range(0, max_steps);
    for(int i=0; i<nsteps; i++){
        Step s = choose_step(h, rng, ho);
        if (s.kind == Step::none) break;
        if (s.kind == Step::finish_c && rng.coin(0.5)) continue; // leave more states inside an active construction
        std::string err = apply_step(h.g, s, &h);
        if (!err.empty()){ c.viol("step-exception:" + s.name() + ":" + err.substr(0, err.find(':')), J().str("what", err).kv("step", s.json()).obj()); return false; }
        if (h.g.getNumPoints() > 3 * go.max_points) break;
    }
    return true;
}

std::string lockstep(HState &h, std::vector<TasmanianSparseGrid*> const &twins, Rng &rng, int steps, HOpts const &ho, std::string &detail){
    ObsOpts oo; oo.num_probes = 4;
    for(int i=0; i<steps; i++){
        Step s = choose_step(h, rng, ho);
        if (s.kind == Step::none) break;
        std::string e0 = apply_step(h.g, s, &h);
        for(size_t t=0; t<twins.size(); t++){
            std::string e1 = apply_step(*twins[t], s, nullptr);
            if (e0.substr(0, e0.find(':')) != e1.substr(0, e1.find(':'))){
                detail = J().kv("step", s.json()).i("twin", (long long) t).str("original", e0).str("twin_outcome", e1).obj();
                return s.name() + ":outcome";
            }
        }
        if (!e0.empty()){ detail = J().kv("step", s.json()).str("what", e0).obj(); return "step-exception:" + s.name() + ":" + e0.substr(0, e0.find(':')); }
        Obs o0 = observe(h.g, oo);
        for(size_t t=0; t<twins.size(); t++){
            Obs o1 = observe(*twins[t], oo);
            std::string df = obs_diff_state(o0, o1);
            if (!df.empty()){
                detail = J().kv("step", s.json()).i("twin", (long long) t).str("field", df).i("continuation_step", i).obj();
                return s.name() + ":" + df;
            }
        }
        if (h.g.getNumPoints() > 2000) break;
    }
    return "";
}

} // namespace vf
