// tsgmon: one binary per build variant, one sub-command per property.
//   tsgmon <prop> <seed> <first_case> <num_cases> [thorough] [key=value ...]
// Every case prints:  B <idx> <descriptor>   V <idx> <key> <witness>*   E <idx> ok|inc|viol <counters> <signatures>
#include "common.hpp"
#include "monitors.hpp"
#include <cstdlib>
#include <chrono>

namespace vf{
std::map<std::string, std::string> g_args;
std::string arg(std::string const &k, std::string const &def){ auto it = g_args.find(k); return (it == g_args.end()) ? def : it->second; }
long long argi(std::string const &k, long long def){ auto it = g_args.find(k); return (it == g_args.end()) ? def : atoll(it->second.c_str()); }
}

int main(int argc, char **argv){
    if (argc < 5){ fprintf(stderr, "usage: tsgmon <prop> <seed> <first> <count> [thorough] [k=v]\n"); return 2; }
    std::string prop = argv[1];
    uint64_t seed = strtoull(argv[2], nullptr, 10);
    long long first = atoll(argv[3]), count = atoll(argv[4]);
    bool thorough = false;
    for(int i=5; i<argc; i++){
        std::string a = argv[i];
        if (a == "thorough") thorough = true;
        auto p = a.find('=');
        if (p != std::string::npos) vf::g_args[a.substr(0, p)] = a.substr(p + 1);
    }
    auto const &reg = vf::registry();
    auto it = reg.find(prop);
    if (it == reg.end()){ fprintf(stderr, "unknown property %s\n", prop.c_str()); return 2; }
    int pnum = atoi(prop.c_str() + 1);
    for(long long i=first; i<first+count; i++){
        vf::CaseCtx c; c.seed = seed; c.index = i; c.prop = pnum; c.thorough = thorough;
        vf::Rng rng(seed, (uint64_t) pnum, (uint64_t) i);
        auto t0 = std::chrono::steady_clock::now();
        try{
            it->second(c, rng);
        }catch(std::exception &e){
            // an exception escaping a monitor is a harness-visible event: the monitors catch what they expect
            c.viol(std::string("uncaught:") + vf::exception_class(e), vf::J().str("what", e.what()).obj());
        }
        vf::emit_end(c);
        if (getenv("VF_TIMING")) fprintf(stderr, "T %lld %.1f ms\n", i, std::chrono::duration<double, std::milli>(std::chrono::steady_clock::now() - t0).count());
    }
    return 0;
}
