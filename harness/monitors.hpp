// registry of property monitors + the shared history machinery
#ifndef VF_MONITORS_HPP
#define VF_MONITORS_HPP
#include "common.hpp"
#include <typeinfo>
#include <atomic>

namespace vf{

typedef std::function<void(CaseCtx&, Rng&)> Monitor;
// handler of the library's guarded hook points (TSG_VERIF_HOOK(tag, a, b)); tsg_verif_hook() is defined once in hooks.cpp and dispatches here.
// A monitor installs its handler with g_hook_handler.store(fn) for the duration of a case and resets it to nullptr afterwards.
typedef void (*HookFn)(const char *tag, long a, long b);
extern std::atomic<HookFn> g_hook_handler;
std::map<std::string, Monitor> const& registry();

std::string arg(std::string const &k, std::string const &def);
long long argi(std::string const &k, long long def);

inline std::string exception_class(std::exception const &e){
    if (dynamic_cast<std::invalid_argument const*>(&e)) return "invalid_argument";
    if (dynamic_cast<std::length_error const*>(&e)) return "length_error";
    if (dynamic_cast<std::out_of_range const*>(&e)) return "out_of_range";
    if (dynamic_cast<std::bad_alloc const*>(&e)) return "bad_alloc";
    if (dynamic_cast<std::logic_error const*>(&e)) return "logic_error";
    if (dynamic_cast<std::ios_base::failure const*>(&e)) return "ios_failure";
    if (dynamic_cast<std::runtime_error const*>(&e)) return "runtime_error";
    return "other";
}

// ------------------------------------------------------------------------------------------------
// histories: random walks over the operations that are legal in the current state
// ------------------------------------------------------------------------------------------------
struct Step{
    enum Kind{ load, reload, aniso, surplus_seq, surplus_loc, update, clear_ref, merge_ref, set_coeffs,
               begin_c, cand_load, finish_c, clear_limits, none } kind = none;
    TypeDepth type = type_level;
    int min_growth = 1, output = -1, depth = 1, gen = 0, vmode = 0;
    double tol = 0.0, frac = 1.0;
    TypeRefinement crit = refine_classic;
    std::vector<int> limits;      // empty = pass none
    bool raw_overload = false;    // use the raw-pointer overload
    int scale_mode = 0;           // 0 none, 1 vector overload, 2 raw overload
    std::vector<int> aw;
    uint64_t subseed = 0;
    bool scatter = false; // cand_load: deliver a uniformly random subset of the candidates instead of a priority-biased one
    std::string name() const;
    std::string json() const;
};
struct HOpts{
    bool construction = true;
    bool set_coeffs = true;
    bool merge = true;
    bool limits_in_calls = true;
    bool refine = true;
    int max_points = 600;
    int vmode = -1; // -1 random per history
    double construction_bias = 1.0; // multiplies the weight of beginConstruction
    double scatter_candidates = 0.0; // probability that a cand_load step delivers a uniformly random subset of the candidates
};
struct HState{
    TasmanianSparseGrid g;
    Cfg cfg;
    Shadow shadow;                 // what the user supplied, keyed by exact coordinates
    std::map<PKey, std::vector<double>> delivered; // samples given to loadConstructedPoints since beginConstruction
    std::vector<int> expected_limits;
    int gen = 0;
    int vmode = 0;
    bool values_are_model = true;  // false after merge (zeros) / set_coeffs (values = surrogate at nodes)
    std::vector<std::string> trace;
    std::function<void(std::vector<double> const&)> on_candidates; // called with every candidate list requested during construction
};
// value model used by histories: tagged by coordinates, output and generation
std::vector<double> model_values(std::vector<double> const &pts, int dims, int outs, int gen, int vmode);

bool init_history(HState &h, Rng &rng, GenOpts const &go, CaseCtx &c);
// chooses a legal step for the current state (kind none when nothing is legal)
Step choose_step(HState const &h, Rng &rng, HOpts const &o);
// applies a step to a grid; when sh != nullptr the shadow model of h is updated too.
// returns "" or the class name of the exception thrown by the library
std::string apply_step(TasmanianSparseGrid &g, Step const &s, HState *h);
// baseline consistency of grid and shadow (C07 clauses); reports violations on c with the given key prefix; returns false on violation
bool check_shadow(HState const &h, CaseCtx &c, std::string const &prefix, std::string const &after);

// independent predicate: every loaded multi-index of a local polynomial grid has all parents (and step-parents) loaded.
// returns 1 true, 0 false, -1 cannot tell (order 0 / not a local polynomial grid)
int all_parents_loaded(TasmanianSparseGrid const &g);
// dense-LU classification of a wavelet grid whose coefficients do not reproduce its data: "singular-basis-on-loaded-points", "iterative-solver-not-converged" or ""
std::string wavelet_failure_class(TasmanianSparseGrid const &g);
// the same for the transposed system behind getInterpolationWeights(x): M^T w = phi(x)
std::string wavelet_weights_failure_class(TasmanianSparseGrid const &g, std::vector<double> const &x);

// numeric helpers
inline double vmaxabs(std::vector<double> const &v){ double m = 0; for(double x : v) m = std::max(m, std::fabs(x)); return m; }

} // namespace vf

// ---- reusable oracles (defined in the monitor files) ----
namespace vf{
// C01 oracle: surrogate reproduces stored values at every loaded point through evaluateBatch / evaluate / evaluateFast.
// returns the largest scaled error observed (error / tolerance); reports violations with keys "<prefix>:<route>:<family>..."
double check_reproduction(TasmanianSparseGrid const &g, CaseCtx &c, Rng &rng, std::string const &prefix, std::string const &after);
// points on the boundary of a transformed domain moved two ulps towards the interior (rounding of the map back to canonical coordinates
// must not push a node out of the support of compactly supported bases); identity when no domain transform is set
std::vector<double> interior_nudged(TasmanianSparseGrid const &g, std::vector<double> const &x);
std::vector<double> history_scale(TasmanianSparseGrid const &g, int output, uint64_t seed);
// random reachable state for C06 / C11 / C12 / C13: configuration + history that may end with pending refinement or active construction
bool random_state(HState &h, Rng &rng, CaseCtx &c, GenOpts const &go, int max_steps);
// applies a random continuation to h.g and to every twin in lock-step; after every step the observations of all grids must be bitwise equal.
// returns "" or "<step>:<field>" of the first divergence (detail filled)
std::string lockstep(HState &h, std::vector<TasmanianSparseGrid*> const &twins, Rng &rng, int steps, HOpts const &ho, std::string &detail);
// monitors
void mon_c01(CaseCtx&, Rng&); void mon_c02(CaseCtx&, Rng&); void mon_c03(CaseCtx&, Rng&); void mon_c04(CaseCtx&, Rng&);
void mon_c05(CaseCtx&, Rng&); void mon_c06(CaseCtx&, Rng&); void mon_c07(CaseCtx&, Rng&); void mon_c08(CaseCtx&, Rng&);
void mon_c09(CaseCtx&, Rng&); void mon_c10(CaseCtx&, Rng&); void mon_c11(CaseCtx&, Rng&); void mon_c12(CaseCtx&, Rng&);
void mon_c13(CaseCtx&, Rng&); void mon_c14(CaseCtx&, Rng&); void mon_c15(CaseCtx&, Rng&); void mon_c16(CaseCtx&, Rng&);
void mon_c17(CaseCtx&, Rng&); void mon_c18(CaseCtx&, Rng&); void mon_c19(CaseCtx&, Rng&); void mon_c20(CaseCtx&, Rng&);
}
#endif
