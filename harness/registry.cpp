#include "monitors.hpp"
namespace vf{
// monitors that are not linked into a particular binary are weak no-ops
#define WEAKMON(n) __attribute__((weak)) void n(CaseCtx &c, Rng&){ emit_begin(c, "{}"); c.inconc("monitor-not-linked"); }
WEAKMON(mon_c01) WEAKMON(mon_c02) WEAKMON(mon_c03) WEAKMON(mon_c04) WEAKMON(mon_c05) WEAKMON(mon_c06) WEAKMON(mon_c07)
WEAKMON(mon_c08) WEAKMON(mon_c09) WEAKMON(mon_c10) WEAKMON(mon_c11) WEAKMON(mon_c12) WEAKMON(mon_c13) WEAKMON(mon_c14)
WEAKMON(mon_c15) WEAKMON(mon_c16) WEAKMON(mon_c17) WEAKMON(mon_c18) WEAKMON(mon_c19) WEAKMON(mon_c20)
std::map<std::string, Monitor> const& registry(){
    static std::map<std::string, Monitor> r = {
        {"C01", mon_c01}, {"C02", mon_c02}, {"C03", mon_c03}, {"C04", mon_c04}, {"C05", mon_c05}, {"C06", mon_c06}, {"C07", mon_c07},
        {"C08", mon_c08}, {"C09", mon_c09}, {"C10", mon_c10}, {"C11", mon_c11}, {"C12", mon_c12}, {"C13", mon_c13}, {"C14", mon_c14},
        {"C15", mon_c15}, {"C16", mon_c16}, {"C17", mon_c17}, {"C18", mon_c18}, {"C19", mon_c19}, {"C20", mon_c20}};
    return r;
}
}
