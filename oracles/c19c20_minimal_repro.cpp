// Minimal reproducers of the C19/C20 findings (each block prints what the unchanged library returns).
// build: g++ -std=c++17 -I$REPO/SparseGrids -I$REPO/DREAM -I$REPO/DREAM/Optimization -I$REPO/Config -I$BUILD/configured c19c20_minimal_repro.cpp -L$BUILD/SparseGrids -L$BUILD/DREAM -ltasmaniandream -ltasmaniansparsegrid
#include "TasmanianOptimization.hpp"
#include <cstdio>
using namespace TasOptimization;
typedef std::vector<double> Vec;
static void pv(const char *s, Vec const &v){ printf("%s [", s); for(double x : v) printf(" %g", x); printf(" ]\n"); }
int main(){
    { // F-gd
        auto f = [](Vec const &x)->double{ return 0.5 * x[0] * x[0]; };
        auto g = [](Vec const &x, Vec &o)->void{ o[0] = x[0]; };
        for(int cap=0; cap<=3; cap++){
            GradientDescentState st({1.0}, 0.5);
            auto s = GradientDescent(f, g, 4.0, 2.0, cap, 1e-6, st);
            printf("F-gd cap=%d iterations=%d x=%g f=%g stepsize=%g\n", cap, s.performed_iterations, st.getX()[0], f(st.getX()), st.getAdaptiveStepsize());
        }
    }
    auto all = [](Vec const&)->bool{ return true; };
    auto box1 = [](Vec const &x)->bool{ return x[0] >= -1.0 && x[0] <= 1.0; };
    auto r01 = []()->double{ return 0.5; };
    { // F-pso
        ObjectiveFunction f = [](Vec const &x, Vec &y)->void{ for(size_t i=0; i<y.size(); i++) y[i] = (x[i] - 1.0) * (x[i] - 1.0); };
        ParticleSwarmState st(1, Vec{1.0}, Vec{0.0});
        ParticleSwarm(f, all, 0.0, 0.0, 0.0, 1, st, r01); pv("F-pso after run(1): best", st.getBestParticlePositions());
        st.clearBestParticles();
        ParticleSwarm(f, all, 0.0, 0.0, 0.0, 1, st, r01); pv("F-pso after clearBestParticles(); run(1): best", st.getBestParticlePositions());
        pv("   positions", st.getParticlePositions());
    }
    { // D2 placeholder
        ObjectiveFunction f = [](Vec const &x, Vec &y)->void{ for(size_t i=0; i<y.size(); i++) y[i] = x[i] * x[i]; };
        ParticleSwarmState st(1, Vec{0.5, 5.0}, Vec{0.0, -4.7});
        ParticleSwarm(f, box1, 1.0, 0.0, 0.0, 0, st, r01); pv("D2 after run(0): best", st.getBestParticlePositions());
        st.clearCache();
        ParticleSwarm(f, box1, 1.0, 0.0, 0.0, 1, st, r01); pv("D2 after clearCache(); run(1): best", st.getBestParticlePositions());
        pv("   positions", st.getParticlePositions());
    }
    { // D3 setter
        ObjectiveFunction f = [](Vec const &x, Vec &y)->void{ for(size_t i=0; i<y.size(); i++) y[i] = x[i] * x[i]; };
        ParticleSwarmState st(1, Vec{1.0}, Vec{0.0});
        ParticleSwarm(f, all, 0.0, 0.0, 0.0, 0, st, r01); pv("D3 after run(0): best", st.getBestParticlePositions());
        st.setBestParticlePositions(Vec{3.0, 3.0});
        ParticleSwarm(f, all, 0.0, 0.0, 0.0, 0, st, r01); pv("D3 after setBestParticlePositions({3,3}); run(0): best", st.getBestParticlePositions());
    }
    { // D4 objective change
        ObjectiveFunction f1 = [](Vec const &x, Vec &y)->void{ for(size_t i=0; i<y.size(); i++) y[i] = x[i] * x[i]; };
        ObjectiveFunction f2 = [](Vec const &x, Vec &y)->void{ for(size_t i=0; i<y.size(); i++) y[i] = (x[i] - 2.0) * (x[i] - 2.0); };
        ParticleSwarmState st(1, Vec{1.0, 2.0}, Vec{0.0, 0.0});
        ParticleSwarm(f1, all, 0.0, 0.0, 0.0, 0, st, r01); pv("D4 after run(0) with f1: best", st.getBestParticlePositions());
        st.clearCache();
        ParticleSwarm(f2, all, 0.0, 0.0, 0.0, 0, st, r01); pv("D4 after clearCache(); run(0) with f2: best", st.getBestParticlePositions());
    }
    return 0;
}
