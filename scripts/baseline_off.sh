#!/bin/bash
# Runs the repository's pinned test suite (14 ctest entries) on the current working tree with the hook guard OFF.
set -e
B="${TSG_VERIF_BUILD_ROOT:-/var/tmp/tsg-verif}/baseline_off"
mkdir -p "$B"
if [ ! -f "$B/build.ninja" ]; then
  cmake -G Ninja -S /repo -B "$B" -DCMAKE_BUILD_TYPE=RelWithDebInfo -DCMAKE_CXX_FLAGS="-Wno-error" > "$B.cmake.log" 2>&1 || { cat "$B.cmake.log"; exit 2; }
fi
cmake --build "$B" -j 16 > "$B.build.log" 2>&1 || { tail -50 "$B.build.log"; exit 2; }
ctest --test-dir "$B" -j8 --timeout 900 --output-junit "$B/junit.xml"
