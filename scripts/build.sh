#!/bin/bash
# Build /repo's current working tree into a variant build directory (incremental, flock'ed).
# usage: build.sh <variant>     variants: asan tsan omp omptsan plain
set -e
V="$1"
ROOT="${TSG_VERIF_BUILD_ROOT:-/var/tmp/tsg-verif}"
REPO="${TSG_VERIF_REPO:-/repo}"
B="$ROOT/$V"
mkdir -p "$ROOT"
HOOK="-DTASMANIAN_VERIF_HOOKS"
COMMON="-Wno-error -g -fno-omit-frame-pointer $HOOK"
CXX=g++; OMP=OFF
case "$V" in
  asan)    FLAGS="-O1 $COMMON -fsanitize=address,undefined -fno-sanitize-recover=all" ;;
  tsan)    FLAGS="-O1 $COMMON -fsanitize=thread" ;;
  omp)     FLAGS="-O2 $COMMON"; OMP=ON ;;
  omptsan) FLAGS="-O1 $COMMON -fsanitize=thread"; OMP=ON; CXX=clang++ ;;
  plain)   FLAGS="-O1 $COMMON" ;;
  *) echo "unknown variant $V" >&2; exit 2 ;;
esac
exec 9>"$ROOT/$V.lock"
flock 9
if [ ! -f "$B/build.ninja" ]; then
  cmake -G Ninja -S "$REPO" -B "$B" -DCMAKE_BUILD_TYPE=None -DCMAKE_CXX_COMPILER=$CXX \
    -DCMAKE_CXX_FLAGS="$FLAGS" -DTasmanian_ENABLE_OPENMP=$OMP -DBUILD_SHARED_LIBS=ON \
    -DTasmanian_ENABLE_PYTHON=OFF > "$B.cmake.log" 2>&1 || { cat "$B.cmake.log" >&2; exit 2; }
fi
cmake --build "$B" --target Tasmanian_libsparsegrid Tasmanian_libdream Tasmanian_tasgrid -j "${TSG_VERIF_JOBS:-16}" > "$B.build.log" 2>&1 || { tail -50 "$B.build.log" >&2; exit 2; }
echo "$B"
