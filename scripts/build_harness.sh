#!/bin/bash
# Compile the monitors (tsgmon) for a variant against the variant's library build.  usage: build_harness.sh <variant>
set -e
V="$1"
HERE="$(cd "$(dirname "$0")/.." && pwd)"
ROOT="${TSG_VERIF_BUILD_ROOT:-/var/tmp/tsg-verif}"
REPO="${TSG_VERIF_REPO:-/repo}"
B="$ROOT/$V"
"$HERE/scripts/build.sh" "$V" > /dev/null
HOOK="-DTASMANIAN_VERIF_HOOKS"
COMMON="-std=c++17 -g -fno-omit-frame-pointer $HOOK -Wall -Wextra -Wno-unused-parameter -Wno-deprecated-declarations"
CXX=g++; LDX=""
case "$V" in
  asan)    FLAGS="-O1 $COMMON -fsanitize=address,undefined -fno-sanitize-recover=all" ;;
  tsan)    FLAGS="-O1 $COMMON -fsanitize=thread" ;;
  omp)     FLAGS="-O2 $COMMON -fopenmp" ;;
  omptsan) FLAGS="-O1 $COMMON -fsanitize=thread -fopenmp"; CXX=clang++ ;;
  plain)   FLAGS="-O1 $COMMON" ;;
esac
INC="-I$REPO/SparseGrids -I$REPO/DREAM -I$REPO/DREAM/Optimization -I$REPO/Addons -I$REPO/Config -I$B/configured -I$HERE/harness"
OUT="$B/harness"
mkdir -p "$OUT"
exec 9>"$ROOT/$V.harness.lock"
flock 9
make -s -j "${TSG_VERIF_JOBS:-16}" -f "$HERE/harness/Makefile" SRC="$HERE/harness" OUT="$OUT" CXX="$CXX" CXXFLAGS="$FLAGS $INC" \
  LIBS="-L$B/SparseGrids -L$B/DREAM -ltasmaniandream -ltasmaniansparsegrid -Wl,-rpath,$B/SparseGrids -Wl,-rpath,$B/DREAM -lpthread -ldl" \
  LIBDEPS="$B/SparseGrids/libtasmaniansparsegrid.so $B/DREAM/libtasmaniandream.so" > "$OUT/build.log" 2>&1 || { tail -60 "$OUT/build.log" >&2; exit 2; }
echo "$OUT/tsgmon"
