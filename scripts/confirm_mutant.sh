#!/bin/bash
# usage: confirm_mutant.sh <src dir with patch.diff demo.cpp build_and_run.sh notes.md> <seeded id> <property> "<what it needs to manifest>"
# Confirms a seeded change in a scratch worktree (compiles, pinned suite passes, demo fails with / passes without) and stores it under /verif/seeded/<id>/.
set -u
SRC="$1"; ID="$2"; PROP="$3"; NEEDS="$4"
W=/tmp/confirm-$ID
LOG=/var/tmp/scratch/confirm-$ID.log
rm -rf $W; git -C /repo worktree prune; git -C /repo worktree add -f $W HEAD --detach > $LOG 2>&1 || exit 2
cd $W && git apply "$SRC/patch.diff" >> $LOG 2>&1 || { echo "$ID: patch does not apply"; git -C /repo worktree remove --force $W; exit 2; }
cmake -G Ninja -S $W -B $W/_build -DCMAKE_BUILD_TYPE=RelWithDebInfo -DCMAKE_CXX_FLAGS=-Wno-error ${EXTRA_CMAKE:-} >> $LOG 2>&1 && cmake --build $W/_build -j8 >> $LOG 2>&1 || { echo "$ID: does not compile"; git -C /repo worktree remove --force $W; exit 2; }
ctest --test-dir $W/_build -j8 --timeout 900 >> $LOG 2>&1; SUITE=$?
cp "$SRC/demo.cpp" $W/demo_seeded.cpp
demo(){
  if [ "${USE_BUILD_SCRIPT:-0}" = "1" ] && [ -f "$SRC/build_and_run.sh" ]; then mkdir -p $W/out/mx && cp -r "$SRC"/. $W/out/mx/ && (cd $W/out/mx && timeout 1500 bash ./build_and_run.sh $W/_build $W >> $LOG 2>&1); return $?; fi # run from inside the worktree: some scripts take the (header-only) sources from ../..
  demo_plain; }
demo_plain(){ g++ -std=c++17 -O1 -I$W/SparseGrids -I$W/DREAM -I$W/DREAM/Optimization -I$W/Addons -I$W/Config -I$W/_build/configured $W/demo_seeded.cpp -L$W/_build/SparseGrids -L$W/_build/DREAM -ltasmaniandream -ltasmaniansparsegrid -lpthread -Wl,-rpath,$W/_build/SparseGrids -Wl,-rpath,$W/_build/DREAM -o $W/demo_seeded >> $LOG 2>&1 && (cd $W && timeout 600 ./demo_seeded >> $LOG 2>&1); }
demo; WITH=$?
git checkout -- . >> $LOG 2>&1; cmake --build $W/_build -j8 >> $LOG 2>&1
demo; WITHOUT=$?
cd /verif; git -C /repo worktree remove --force $W
VERDICT="rejected"
if [ $SUITE -eq 0 ] && [ $WITH -ne 0 ] && [ $WITHOUT -eq 0 ]; then
  VERDICT="confirmed"
  mkdir -p /verif/seeded/$ID && cp "$SRC/patch.diff" "$SRC/demo.cpp" /verif/seeded/$ID/ && cp "$SRC/notes.md" /verif/seeded/$ID/notes.md 2>/dev/null
  python3 - "$ID" "$PROP" "$NEEDS" <<'PY'
import json, sys
i, p, needs = sys.argv[1:4]
json.dump(dict(id=i, property=p, needs_to_manifest=needs,
  confirmed=dict(compiles=True, pinned_suite="14/14 passed with the change (ctest in a scratch worktree, RelWithDebInfo)", demo_with_change="exits non-zero", demo_without_change="exits 0"),
  ran=["git worktree add /tmp/confirm-%s; git apply patch.diff; cmake+ninja; ctest -j8" % i, "g++ demo.cpp against the worktree build: fails with the change, passes after git checkout + rebuild"],
  caught_by=[]), open("/verif/seeded/%s/meta.json" % i, "w"), indent=1)
PY
fi
echo "$ID: suite_exit=$SUITE demo_with=$WITH demo_without=$WITHOUT -> $VERDICT"
