#!/usr/bin/env python3
"""Replaces the cost table of DESIGN.md section 8 by measured numbers taken from two logs of scripts/run_all.sh (quick, thorough).
usage: cost_table.py <quick log> <thorough log>"""
import re, sys, json, os
HERE = os.path.dirname(os.path.dirname(os.path.abspath(__file__)))
def parse(path):
    out = {}
    for l in open(path):
        m = re.match(r"(C\d\d)\s+exit=(\d+) viol=(\d+) known=(\d+) evidence=(\w+)\s+([\d.]+)s\s+.*?evaluations=(\d+)", l)
        if m: out[m.group(1)] = dict(exit=int(m.group(2)), viol=int(m.group(3)), known=int(m.group(4)), wall=float(m.group(6)), n=int(m.group(7)))
    return out
q, t = parse(sys.argv[1]), parse(sys.argv[2])
man = {c["property_id"]: c for c in json.load(open(os.path.join(HERE, "MANIFEST.json")))["checks"]}
import importlib.util
rows = ["| property | quick: evaluations, wall | thorough: evaluations, wall |", "|---|---|---|"]
for p in sorted(man):
    a, b = q.get(p), t.get(p)
    rows.append("| %s | %s | %s |" % (p, ("%d, %.0f s" % (a["n"], a["wall"])) if a else "-", ("%d, %.0f s" % (b["n"], b["wall"])) if b else "-"))
tab = "\n".join(rows) + "\n"
p = os.path.join(HERE, "DESIGN.md"); s = open(p).read()
if "<!-- cost-table-begin -->" in s:
    s = re.sub(r"<!-- cost-table-begin -->\n.*?<!-- cost-table-end -->\n", lambda m: "<!-- cost-table-begin -->\n" + tab + "<!-- cost-table-end -->\n", s, flags=re.S)
else:
    s = re.sub(r"\| property \| variants \| quick \(cases, wall\).*?\n\n", lambda m: "<!-- cost-table-begin -->\n" + tab + "<!-- cost-table-end -->\n\n", s, count=1, flags=re.S)
open(p, "w").write(s)
print(tab)
