#!/usr/bin/env python3
"""Regenerates MANIFEST.json from the per-property tables (check.py PROPS + drivers/props_*.py + scripts/manifest_texts.json)."""
import json, os, sys, subprocess
HERE = os.path.dirname(os.path.dirname(os.path.abspath(__file__)))
sys.path.insert(0, HERE); sys.path.insert(0, os.path.join(HERE, "drivers"))
import check
check.load_props()
texts = json.load(open(os.path.join(HERE, "scripts", "manifest_texts.json")))
texts["checks"] = {}
for f in sorted(os.listdir(os.path.join(HERE, "scripts", "texts"))):
    if f.endswith(".json"): texts["checks"][f[:-5]] = json.load(open(os.path.join(HERE, "scripts", "texts", f)))
props = [json.loads(l)["id"] for l in open(os.path.join(HERE, "properties.jsonl"))]
def hook_commits():
    try:
        out = subprocess.run(["git", "-C", "/repo", "log", "--format=%H %s"], stdout=subprocess.PIPE, text=True).stdout
        return [l.split()[0] for l in out.splitlines() if " hook:" in l or l.split(" ", 1)[1].startswith("hook")]
    except Exception:
        return []
checks = []; na = []
for p in props:
    if p in check.PROPS and p in texts["checks"]:
        t = texts["checks"][p]; cfg = check.PROPS[p]
        checks.append(dict(property_id=p, quick_cmd="python3 check.py %s --tier quick" % p, thorough_cmd="python3 check.py %s --tier thorough" % p,
            evidence_file="evidence/%s.json" % p, replay_cmd_template="python3 check.py %s --replay {path}" % p, engine="tsgmon",
            level_claimed=dict(category=cfg.get("level", "exploration"), text=t["level_text"], design_ref=t.get("design_ref", "DESIGN.md section 4")),
            level_note=t["level_note"], technique=t["technique"]))
    else:
        na.append(dict(property_id=p, reason=texts["not_applicable"].get(p, "monitor not built yet (work in progress); no claim is made for this property")))
m = dict(version=1, setup_cmd="./scripts/setup.sh",
    hooks=dict(guard="TASMANIAN_VERIF_HOOKS", enable="scripts/build.sh adds -DTASMANIAN_VERIF_HOOKS to CMAKE_CXX_FLAGS of every variant build (and to the harness)",
               baseline_off_cmd="./scripts/baseline_off.sh", source_commits=hook_commits(), add_only=True),
    engines=[dict(name="tsgmon", path="harness/", serves_properties=[c["property_id"] for c in checks],
                  kind_free_text="C++ runtime monitors linked against sanitizer builds of /repo's working tree (ASan+UBSan, TSan, OpenMP+Archer-TSan), orchestrated by check.py (crash isolation, watchdogs, known-findings matching, evidence)")],
    checks=checks, notes=texts.get("notes", ""), not_applicable=na)
json.dump(m, open(os.path.join(HERE, "MANIFEST.json"), "w"), indent=1)
print("MANIFEST.json: %d checks, %d not_applicable" % (len(checks), len(na)))
