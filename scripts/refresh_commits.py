#!/usr/bin/env python3
"""Refreshes the commit hashes of 'fixed' entries in known_findings.json after /repo history was rewritten: entries carry the commit subject."""
import json, subprocess, os
HERE = os.path.dirname(os.path.dirname(os.path.abspath(__file__)))
p = os.path.join(HERE, "known_findings.json"); k = json.load(open(p))
log = subprocess.run(["git", "-C", "/repo", "log", "--format=%h\t%s"], stdout=subprocess.PIPE, text=True).stdout.splitlines()
by_subject = {l.split("\t", 1)[1]: l.split("\t", 1)[0] for l in log}
for e in k["findings"]:
    if e.get("status") != "fixed": continue
    if "subject" not in e:
        r = subprocess.run(["git", "-C", "/repo", "log", "-1", "--format=%s", e["commit"]], stdout=subprocess.PIPE, stderr=subprocess.PIPE, text=True)
        e["subject"] = r.stdout.strip()
    new = by_subject.get(e["subject"])
    if not new: print("NOT FOUND:", e["subject"]); continue
    if new != e["commit"]:
        e["line"] = e.get("line", "").replace(e["commit"], new); e["commit"] = new
json.dump(k, open(p, "w"), indent=1)
print("ok", sum(1 for e in k["findings"] if e.get("status") == "fixed"), "fixed entries")
