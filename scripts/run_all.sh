#!/bin/bash
# Runs every registered check (MANIFEST.json) in the given tier (default quick), validates the evidence files, prints a summary.
cd "$(dirname "$0")/.."
TIER="${1:-quick}"
python3 - "$TIER" <<'PY'
import json, subprocess, sys, time
tier = sys.argv[1]
m = json.load(open("MANIFEST.json"))
bad = 0
for c in m["checks"]:
    cmd = c["quick_cmd"] if tier == "quick" else c.get("thorough_cmd", c["quick_cmd"])
    t0 = time.time()
    r = subprocess.run(cmd, shell=True, stdout=subprocess.PIPE, stderr=subprocess.STDOUT, text=True)
    last = [l for l in r.stdout.splitlines() if "tier=" in l][-1:] or [""]
    viol = sum(1 for l in r.stdout.splitlines() if l.startswith("VIOLATION"))
    known = sum(1 for l in r.stdout.splitlines() if l.startswith("KNOWN-FINDING"))
    v = subprocess.run(["python3-vt", "-c", "import json,jsonschema,sys; jsonschema.validate(json.load(open(sys.argv[1])), json.load(open('/root/.vp/EVIDENCE.schema.json')))", c["evidence_file"]], stderr=subprocess.PIPE, text=True)
    ok = (r.returncode == 0 and viol == 0 and v.returncode == 0)
    bad += (not ok)
    print("%-4s exit=%d viol=%d known=%d evidence=%s %6.1fs  %s" % (c["property_id"], r.returncode, viol, known, "valid" if v.returncode == 0 else "INVALID", time.time() - t0, last[0][:110]))
sys.exit(1 if bad else 0)
PY
