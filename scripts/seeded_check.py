#!/usr/bin/env python3
"""Runs every confirmed seeded change under /verif/seeded/<id>/ against the quick check of its property (apply to /repo's working tree, run, undo),
records which violation keys caught it in meta.json and prints a table.  usage: seeded_check.py [id-prefix ...]"""
import json, os, subprocess, sys, glob, re
HERE = os.path.dirname(os.path.dirname(os.path.abspath(__file__)))
sel = sys.argv[1:]
if sel and sel[0] == "--table": # markdown table from the recorded results, nothing is run
    print("| seeded change | property | needs to manifest | caught by (quick tier; violation keys) |\n|---|---|---|---|")
    for d in sorted(glob.glob(os.path.join(HERE, "seeded", "*", "meta.json"))):
        m = json.load(open(d)); cb = m.get("caught_by") or {}
        txt = "; ".join("%s: %s" % (p, ", ".join("`%s`" % k for k in v["keys"][:2]) if v["keys"] else "not caught") for p, v in cb.items()) or "(not run yet)"
        for p, v in (m.get("caught_by_thorough") or {}).items(): txt += "; thorough tier of %s: %s" % (p, ", ".join("`%s`" % k for k in v["keys"][:2]))
        print("| %s | %s | %s | %s |" % (m["id"], m["property"], m["needs_to_manifest"].replace("|", "/"), txt))
    sys.exit(0)
rows = []
dirty = subprocess.run(["git", "-C", "/repo", "status", "--porcelain", "--untracked-files=no"], stdout=subprocess.PIPE, text=True).stdout.strip()
if dirty: sys.exit("refusing: /repo has uncommitted changes to tracked files")
for d in sorted(glob.glob(os.path.join(HERE, "seeded", "*"))):
    mid = os.path.basename(d)
    if sel and not any(mid.startswith(s) for s in sel): continue
    meta = json.load(open(os.path.join(d, "meta.json")))
    props = meta.get("checked_with") or [meta["property"]]
    if subprocess.run(["git", "-C", "/repo", "apply", os.path.join(d, "patch.diff")]).returncode != 0:
        rows.append((mid, "PATCH DOES NOT APPLY", "")); continue
    caught = {}
    try:
        for p in props:
            r = subprocess.run(["python3", os.path.join(HERE, "check.py"), p], stdout=subprocess.PIPE, stderr=subprocess.STDOUT, text=True, cwd=HERE)
            keys = sorted(set(re.sub(r".*key=", "", l) for l in r.stdout.splitlines() if l.startswith("VIOLATION")))
            caught[p] = dict(exit=r.returncode, keys=keys[:8])
    finally:
        subprocess.run(["git", "-C", "/repo", "checkout", "--", "."])
    meta["caught_by"] = caught
    json.dump(meta, open(os.path.join(d, "meta.json"), "w"), indent=1)
    ok = any(v["exit"] == 1 and v["keys"] for v in caught.values())
    rows.append((mid, "caught" if ok else "MISSED", "; ".join("%s: %s" % (p, ", ".join(v["keys"][:2])) for p, v in caught.items())))
# rebuild the variants from the clean tree
for v in ("asan",): subprocess.run([os.path.join(HERE, "scripts", "build.sh"), v], stdout=subprocess.DEVNULL)
for r in rows: print("%-45s %-8s %s" % r)
sys.exit(1 if any(r[1] != "caught" for r in rows) else 0)
