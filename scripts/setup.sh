#!/bin/bash
# Builds every variant of /repo's working tree and the monitors for it (offline; only tools on the image).
set -e
cd "$(dirname "$0")/.."
for v in ${TSG_VERIF_VARIANTS:-asan}; do
  ./scripts/build_harness.sh "$v" > /dev/null
  echo "built variant $v"
done
