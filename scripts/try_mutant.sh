#!/bin/bash
# usage: try_mutant.sh <patch.diff> <prop> [<prop> ...]   applies a seeded change to /repo's working tree, runs the quick checks, restores the tree
set -u
PATCH="$1"; shift
cd /repo && git apply "$PATCH" || { echo "patch does not apply"; exit 2; }
cd /verif
for P in "$@"; do
  OUT=$(python3 check.py "$P" 2>&1); RC=$?
  echo "mutant[$(basename $(dirname $PATCH))] $P: exit=$RC violations=$(echo "$OUT" | grep -c '^VIOLATION'); keys: $(echo "$OUT" | grep '^VIOLATION' | sed 's/.*key=//' | sort -u | head -5 | tr '\n' ' ')"
done
cd /repo && git checkout -- . && cd /verif && for v in asan; do ./scripts/build.sh $v > /dev/null; done
