#!/bin/bash
# usage: try_revert.sh "<substring of fix commit subject>" <prop> [<prop> ...]
# Reverts one fix: commit in /repo's working tree (not committed), runs the quick checks, restores the tree. Validation aid.
set -u
SUBJ="$1"; shift
C=$(git -C /repo log --format='%h %s' | grep -F "$SUBJ" | head -1 | cut -d' ' -f1)
[ -z "$C" ] && { echo "no commit matches $SUBJ"; exit 2; }
cd /repo && git show "$C" | git apply -R || { echo "cannot revert $C"; exit 2; }
cd /verif
for P in "$@"; do
  OUT=$(python3 check.py "$P" 2>&1)
  N=$(echo "$OUT" | grep -c "^VIOLATION")
  echo "revert[$C $SUBJ] $P: $N violation lines; keys: $(echo "$OUT" | grep '^VIOLATION' | sed 's/.*key=//' | sort -u | head -4 | tr '\n' ' ')"
done
cd /repo && git checkout -- . && cd /verif && ./scripts/build.sh asan > /dev/null
