#!/usr/bin/env python3
"""Regenerates the table of seeded changes in DESIGN.md (between the seeded-table markers) from seeded/*/meta.json."""
import subprocess, re, os
HERE = os.path.dirname(os.path.dirname(os.path.abspath(__file__)))
t = subprocess.run(["python3", os.path.join(HERE, "scripts", "seeded_check.py"), "--table"], stdout=subprocess.PIPE, text=True).stdout
p = os.path.join(HERE, "DESIGN.md"); s = open(p).read()
s = re.sub(r"<!-- seeded-table-begin -->\n.*?<!-- seeded-table-end -->\n", lambda m: "<!-- seeded-table-begin -->\n" + t + "<!-- seeded-table-end -->\n", s, flags=re.S)
open(p, "w").write(s)
print("table rows:", t.count("\n") - 2)
